"""Conformance of vnet (the model of the OS network) against real TCP sockets.

Every operation sequence up to length N over the client-side operations
{send, read(4), select(0), file.fileno, sock.fileno, shutdown(RDWR),
file.close, sock.close} and the peer-side operations {send, shutdown(WR),
close} is executed on a real loopback TCP connection with
``makefile('rb', 0)`` and on the virtual pair; return values and exception
types must agree.  A read that would block (nothing to read, stream open) is
recorded as 'would-block' on both sides instead of being executed.

This validates the model; it decides no property.
    /venv/bin/python -m selftest.vnet_conformance [N]     (default N = 3)
"""
import itertools
import select
import socket
import sys
import time

from vf import harness, pysched, vnet

CLIENT_OPS = ('send', 'read', 'select', 'f_fileno', 's_fileno', 'shutdown',
              'f_close', 's_close')
PEER_OPS = ('p_send', 'p_shutwr', 'p_close')
OPS = CLIENT_OPS + PEER_OPS


def norm_exc(e):
    name = type(e).__name__
    if name in ('ConnectionResetError', 'BrokenPipeError'):
        return 'peer-gone'
    return name


class Real(object):
    def __init__(self, lsock):
        self.s = socket.socket(socket.AF_INET, socket.SOCK_STREAM)
        self.s.connect(lsock.getsockname())
        self.p, _ = lsock.accept()
        self.f = self.s.makefile('rb', 0)
        self.peer_done = False
        self.client_down = False

    def readable(self):
        try:
            return bool(select.select([self.f], [], [], 0.02)[0])
        except ValueError:
            raise

    def op(self, name):
        if name in ('shutdown', 'f_close', 's_close'):
            self.client_down = True
        if name == 'p_send' and self.client_down:
            return 'skip'   # peer writing into a connection we shut: not modelled
        if name == 'send':
            time.sleep(0.002)
            return self.s.send(b'ab')
        if name == 'read':
            if not self.f.closed:
                try:
                    if not self.readable():
                        return 'would-block'
                except ValueError:
                    pass
            return self.f.read(4)
        if name == 'select':
            return bool(select.select([self.f], [], [], 0.02)[0])
        if name == 'f_fileno':
            return self.f.fileno() >= 0
        if name == 's_fileno':
            return self.s.fileno() >= 0
        if name == 'shutdown':
            return self.s.shutdown(socket.SHUT_RDWR)
        if name == 'f_close':
            return self.f.close()
        if name == 's_close':
            return self.s.close()
        if name == 'p_send':
            if self.peer_done:
                return 'skip'
            try:
                self.p.send(b'xyz')
            except OSError:
                return 'skip'
            return None
        if name == 'p_shutwr':
            if self.peer_done:
                return 'skip'
            self.peer_done = True
            try:
                self.p.shutdown(socket.SHUT_WR)
            except OSError:
                pass
            return None
        if name == 'p_close':
            if self.peer_done:
                return 'skip'
            self.peer_done = True
            self.p.close()
            return None

    def close(self):
        for o in (self.f, self.s, self.p):
            try:
                o.close()
            except Exception:
                pass


class Virtual(object):
    def __init__(self, W):
        self.W = W
        self.conn = None

        class Srv(object):
            pass

        def factory(conn):
            self.conn = conn
            return Srv()
        W.net.listen('h', 1, factory)
        self.s = vnet.VSocket(W.net, 2, 1, 0)
        self.s.connect(('h', 1))
        self.f = self.s.makefile('rb', 0)
        self.peer_done = False
        self.client_down = False

    def op(self, name):
        c = self.conn
        if name in ('shutdown', 'f_close', 's_close'):
            self.client_down = True
        if name == 'p_send' and self.client_down:
            return 'skip'
        if name == 'send':
            return self.s.send(b'ab')
        if name == 'read':
            if not self.f.closed and not c.readable():
                return 'would-block'
            return self.f.read(4)
        if name == 'select':
            self.W.S.effect()       # the driver is no idle poller: no parking
            return bool(self.W.net.select([self.f], [], [], 0)[0])
        if name == 'f_fileno':
            return self.f.fileno() >= 0
        if name == 's_fileno':
            return self.s.fileno() >= 0
        if name == 'shutdown':
            return self.s.shutdown(vnet.SHUT_RDWR)
        if name == 'f_close':
            return self.f.close()
        if name == 's_close':
            return self.s.close()
        if name == 'p_send':
            if self.peer_done:
                return 'skip'
            if c.client_gone and (c.sock_closed and c.file_closed
                                  or c.wr_shutdown and c.rd_shutdown):
                return 'skip'
            c.push(b'xyz')
            return None
        if name in ('p_shutwr', 'p_close'):
            if self.peer_done:
                return 'skip'
            self.peer_done = True
            c.close()
            return None


def observe(world, seq):
    out = []
    for name in seq:
        try:
            v = world.op(name)
            out.append(('ok', v))
        except Exception as e:
            out.append(('exc', norm_exc(e)))
    return out


def compatible(name, r, v, after_peer_gone):
    if r == v:
        return True
    # peer-side ops that one side skipped: not comparable
    if r[1] == 'skip' or v[1] == 'skip':
        return True
    # a send after the peer went away: TCP answers 'ok' once or more, then
    # EPIPE/ECONNRESET, depending on timing; the model picks one legal answer
    if name == 'send' and after_peer_gone:
        ok = (('ok', 2), ('exc', 'peer-gone'))
        return r in ok and v in ok
    # after the peer reset the connection a read may see ECONNRESET in
    # the real world where the model shows a clean end of stream
    if name in ('read', 'select', 'shutdown') and after_peer_gone == 'reset':
        return True
    return False


def run(n):
    harness.setup()
    lsock = socket.socket(socket.AF_INET, socket.SOCK_STREAM)
    lsock.bind(('127.0.0.1', 0))
    lsock.listen(16)
    bad = []
    total = 0
    for L in range(1, n + 1):
        for seq in itertools.product(OPS, repeat=L):
            total += 1
            real = Real(lsock)
            try:
                r = observe(real, seq)
            finally:
                real.close()

            def body(W):
                return observe(Virtual(W), seq)
            x = harness.run(body, send_after_close='ok')
            if x.failure:
                bad.append((seq, 'virtual world failed: %r' % (x.failure,)))
                continue
            v = x.result
            gone = False
            sent = False
            half = False
            for i, name in enumerate(seq):
                if not compatible(name, r[i], v[i], gone):
                    bad.append((seq, 'op %d %s: real %r, virtual %r'
                                % (i, name, r[i], v[i])))
                    break
                if name == 'send' and r[i] == ('ok', 2):
                    sent = True
                if name == 'p_shutwr':
                    # half-close is not modelled separately (the reference
                    # server only ever closes): what follows a client send
                    # after it is not comparable
                    half = True
                if name == 'send' and half:
                    gone = 'reset'
                if name == 'p_close':
                    # closing with unread client data makes TCP send a
                    # reset: reads may then fail where the model shows a
                    # clean end of stream (documented model limitation)
                    gone = 'reset' if sent else (gone or True)
                if name == 'send' and gone:
                    gone = 'reset'
    lsock.close()
    return total, bad


def main():
    n = int(sys.argv[1]) if len(sys.argv) > 1 else 3
    t = time.time()
    total, bad = run(n)
    for seq, what in bad[:40]:
        print('MISMATCH', ' '.join(seq), '|', what)
    print('vnet conformance: %d sequences up to length %d, %d mismatches, '
          '%.1fs' % (total, n, len(bad), time.time() - t))
    return 1 if bad else 0


if __name__ == '__main__':
    sys.exit(main())
