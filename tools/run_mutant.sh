#!/bin/sh
# usage: tools/run_mutant.sh <patch.diff> [--tests] <check-id>...
# Applies the patch to a scratch copy of /repo (never to /repo), optionally
# runs the pinned test suite there, runs the named checks (quick tier) with
# VERIF_REPO pointing at the copy, then removes the copy.
PATCH="$(realpath "$1")"; shift
TESTS=0; [ "$1" = "--tests" ] && { TESTS=1; shift; }
D="$(mktemp -d /tmp/vfmut.XXXXXX)"
trap 'rm -rf "$D"' EXIT
cp -r /repo/. "$D/" && rm -rf "$D/.git"
( cd "$D" && patch -p1 -s < "$PATCH" ) || { echo "PATCH-FAILED $PATCH"; exit 3; }
if [ $TESTS = 1 ]; then
  ( cd "$D" && /venv/bin/python -m pytest -q -p no:cacheprovider --timeout=900 --continue-on-collection-errors 2>&1 | tail -1 )
fi
cd "$(dirname "$0")/.."
for id in "$@"; do
  VERIF_REPO="$D" VERIF_NO_EVIDENCE=1 ./check "$id" > "$D/out.$id" 2>&1; rc=$?
  echo "$(basename "$PATCH") $id exit=$rc $(grep -c '^VIOLATION' "$D/out.$id") violation-lines; $(grep -m1 'key:' "$D/out.$id")"
  [ -n "$VERBOSE" ] && cat "$D/out.$id"
done
