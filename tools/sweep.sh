#!/bin/sh
# usage: tools/sweep.sh [seeds...]   - every quick check must be silent on
# the unchanged tree for every seed (run from a fresh process each time).
cd "$(dirname "$0")/.." || exit 1
SEEDS="${*:-0 1 2 12345}"
BAD=0
for s in $SEEDS; do
  for c in C01 C02 C03 C04 C05 C06 C07 C08 C09 C10 C11 C12 C13 C14 C15 C16 C17 C18 C19 C20; do
    OUT="$(VERIF_SEED=$s VERIF_NO_EVIDENCE=1 ./check $c 2>&1)"; rc=$?
    LINE="$(echo "$OUT" | tail -1)"
    if [ $rc -ne 0 ] || echo "$OUT" | grep -q '^VIOLATION'; then BAD=1; echo "seed=$s $c rc=$rc  <-- NOT SILENT"; echo "$OUT" | tail -5; else echo "seed=$s $LINE"; fi
  done
done
exit $BAD
