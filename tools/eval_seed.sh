#!/bin/sh
# usage: tools/eval_seed.sh <worktree> <A|B> <property-id> [check-id ...]
# Confirms an independently written breaking change (patch<L>.diff +
# demo<L>.py in <worktree>) in a scratch copy of /repo: demo passes on the
# clean tree, patch applies, pinned suite unchanged, demo fails with the patch;
# then runs the named checks (default: the property's own) against the patched
# copy and files everything under seeded/<property>-<L>/.
WT="$1"; L="$2"; PROP="$3"; shift 3
CHECKS="${*:-$PROP}"
HERE="$(cd "$(dirname "$0")/.." && pwd)"
D="$(mktemp -d /tmp/vfseed.XXXXXX)"
trap 'rm -rf "$D"' EXIT
cp -r /repo/. "$D/" && rm -rf "$D/.git"
cp "$WT/demo$L.py" "$D/demo$L.py"
OUT="$HERE/seeded/$PROP-${SEED_TAG}$L"; mkdir -p "$OUT"
cp "$WT/patch$L.diff" "$OUT/patch.diff"; cp "$WT/demo$L.py" "$OUT/demo.py"
( cd "$D" && timeout 300 /venv/bin/python demo$L.py > "$D/demo_clean.out" 2>&1 ); RC_CLEAN=$?
( cd "$D" && patch -p1 -s < "$WT/patch$L.diff" ) || { echo "PATCH-FAILED"; exit 3; }
TESTS="$(cd "$D" && /venv/bin/python -m pytest -q -p no:cacheprovider --timeout=900 --continue-on-collection-errors 2>&1 | tail -1)"
( cd "$D" && timeout 300 /venv/bin/python demo$L.py > "$D/demo_patched.out" 2>&1 ); RC_PATCHED=$?
RES=""
cd "$HERE"
for id in $CHECKS; do
  VERIF_REPO="$D" VERIF_NO_EVIDENCE=1 ./check "$id" > "$D/out.$id" 2>&1; rc=$?
  KEY="$(grep -m1 'key:' "$D/out.$id" | sed 's/^ *key: *//')"
  RES="$RES$id:exit=$rc:$(grep -c '^VIOLATION' "$D/out.$id")viol:[$KEY]; "
  cp "$D/out.$id" "$OUT/check_$id.out"
done
echo "$PROP-${SEED_TAG}$L clean_demo=$RC_CLEAN patched_demo=$RC_PATCHED tests='$TESTS' checks: $RES"
/venv/bin/python - "$OUT" "$PROP" "$L" "$RC_CLEAN" "$RC_PATCHED" "$TESTS" "$RES" "$WT" <<'PY'
import json, sys, re, os
out, prop, L, rcc, rcp, tests, res, wt = sys.argv[1:9]
notes = ''
try:
    notes = open(os.path.join(wt, 'NOTES.md')).read()
except OSError:
    pass
meta = {
 'breaks_property': prop,
 'written_by': 'independent sub-agent given only the property text and a scratch worktree',
 'needs_to_manifest': '',
 'notes_from_author': notes[:6000],
 'confirmed': {
   'demo_on_clean_tree_exit': int(rcc), 'demo_with_patch_exit': int(rcp),
   'pinned_suite_with_patch': tests,
   'commands': ['cd <scratch copy of /repo> && /venv/bin/python demo.py  (before and after `patch -p1 < patch.diff`)',
                'cd <scratch copy> && /venv/bin/python -m pytest -q -p no:cacheprovider --timeout=900 --continue-on-collection-errors',
                'cd /verif && VERIF_REPO=<scratch copy> ./check <id>'],
 },
 'checks_run': res.strip(),
}
json.dump(meta, open(os.path.join(out, 'meta.json'), 'w'), indent=1)
PY
