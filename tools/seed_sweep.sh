#!/bin/sh
# usage: tools/seed_sweep.sh [seed-id ...]   (default: every seeded/C*-*)
# Re-runs, against the CURRENT /repo + each seeded patch, the checks that are
# recorded as catching it (meta.json 'checks_run' entries with exit=1; the
# property's own check if there is none) and reports seeds that no longer
# apply or are no longer caught.  Runs 4 seeds at a time.
cd "$(dirname "$0")/.." || exit 1
IDS="$*"
[ -z "$IDS" ] && IDS="$(ls seeded | grep '^C[0-9][0-9]-')"
for id in $IDS; do
  CH="$(/venv/bin/python - "$id" <<'PY'
import json, re, sys
m = json.load(open('seeded/%s/meta.json' % sys.argv[1]))
runs = [m.get('checks_run', '')] + list(m.get('earlier_runs', []))
ids = []
for r in runs:
    for c, rc in re.findall(r'(C\d\d):exit=(\d)', r):
        if rc == '1' and c not in ids:
            ids.append(c)
print(' '.join(ids) or sys.argv[1].split('-')[0])
PY
)"
  echo "$id $CH"
done | xargs -P 4 -L 1 sh -c 'id="$0"; shift 0; tools/reeval_seed.sh "$id" "$@" 2>&1 | tail -1' | tee /tmp/seed_sweep.out
echo "--- not caught / not applicable:"
grep -v 'exit=1' /tmp/seed_sweep.out
