#!/bin/sh
# Validate MANIFEST.json and every evidence file against the schemas.
cd "$(dirname "$0")/.." || exit 1
python3-vt - <<'PY'
import json, glob, jsonschema, sys
ok = True
jsonschema.validate(json.load(open('MANIFEST.json')), json.load(open('/root/.vp/MANIFEST.schema.json')))
es = json.load(open('/root/.vp/EVIDENCE.schema.json'))
for p in sorted(glob.glob('evidence/*.json')):
    try:
        jsonschema.validate(json.load(open(p)), es)
    except Exception as e:
        ok = False; print('INVALID', p, str(e)[:300])
print('validation', 'ok' if ok else 'FAILED'); sys.exit(0 if ok else 1)
PY
