#!/usr/bin/env python3
"""Regenerate MANIFEST.json from the table below and the modules that exist.

A property is claimed iff it is listed in tools/ready.txt (and its module
exists); everything else is listed
under not_applicable with the reason 'not built yet' so the manifest is valid
and honest at every commit.
"""
import json
import os

HERE = os.path.dirname(os.path.dirname(os.path.abspath(__file__)))

# id -> (level, technique, level text, level note, design ref)
T = {
 'C01': ('exploration',
         'exhaustive enumeration of packet sequences x thresholds x cipher x read segmentations (all compositions of short streams, all 1-/2-cut partitions and 1-byte reads of long ones) on the real reader/writer, judged by an independent framing codec; two real connections in one process with the frame of one cut at every position and a frame of the other in the gap',
         'Every packet sequence over a small alphabet, under every threshold/cipher setting, is pushed through the real writer and the real stream reader under every read segmentation within the stated bounds; an independent deframer/framer decides. Bounded-exhaustive, not sampled.',
         'Trusted: vf/refproto (framing, hand-built CFB8) and stdlib zlib; bounds on sequence length and stream length stated in the evidence.', '3/C01'),
 'C02': ('exploration',
         'exhaustive enumeration of value domains (all 8/16-bit values, structured bit-pattern alphabets for wider types, all strict prefixes) against an independent codec; construction, failure, malformed-input and re-entrancy histories; preemption-bounded exhaustive exploration of all schedules of pairs of codec calls on two threads (line-level and instruction-level scheduling points, cold forks for first use)',
         'All values of small domains and a structured boundary alphabet of wide domains are encoded and decoded by the real types and compared byte-for-byte with an independent codec; every strict prefix must raise.',
         'Trusted: vf/refproto/codec.py (no struct, hand IEEE-754/UTF-8). 32/64-bit domains are covered by structured alphabets, not 2^32 cases.', '3/C02'),
 'C03': ('exploration',
         'exhaustive enumeration of all byte strings up to length 2/3 and all continuation-bit shapes up to 13 bytes for decoding, all n < 2^16/2^21 plus power-of-two neighbourhoods for encoding, under a step horizon for termination; every case also through the context entry points and through buffered / raw / socket streams under every segmentation; failure and re-entrancy histories; all schedules of pairs of VarInt/VarLong calls within a preemption bound',
         'The decoder is run on every short byte string and every continuation shape, the encoder on every small integer and every width boundary; reads are counted on an instrumented stream; a step horizon turns non-termination into a verdict.',
         'Trusted: vf/refproto/codec.py varnum; non-termination is judged by a horizon of 64 output bytes / reads, far above the 10-byte maximum.', '3/C03'),
 'C04': ('exploration',
         'exhaustive product of per-axis boundary sets and single/adjacent-bit 64-bit words over all 369 known protocol versions, against independent integer packing; sessions of several versions in fixed orders in throw-away processes, context and packet reuse histories, all schedules within a preemption bound of a version change racing a codec call and of two concurrent encoders',
         'Full boundary product x every known version for Position, chunk-section and record packings; layout per version is observed and must switch once between 404 and 477.',
         'Trusted: vf/refproto/position.py (plain integer arithmetic).', '3/C04'),
 'C05': ('exploration',
         'exhaustive enumeration of (supported version x registered packet class x variant x per-field boundary value) round trips and of all field-list programs up to length 2/3 over the library type alphabet and every grouping into definition entries; write histories; sessions of several versions in throw-away processes; all schedules within a preemption bound of pairs of packet codec calls, incl. concurrent first use in cold forks',
         'Every registered class at every supported version is written and read back with one-field-at-a-time boundary variation and all structural variants; user-defined definitions are enumerated as programs.',
         'Oracle is round-trip equality plus exact consumption and id agreement (byte-exactness is C02/C07).', '3/C05'),
 'C06': ('exploration',
         'complete enumeration of the finite configuration space (250 versions x 4 states x 2 directions), walked in several orders and through long-lived / re-assigned contexts (with long-lived packet objects bound to the re-assigned one); all schedules within a preemption bound of two threads building tables (warm) and reactors (cold forks)',
         'The space is finite and enumerated completely; nine collisions at development snapshots are recorded as known findings.',
         'Trusted: nothing beyond Python set/dict semantics.', '3/C06'),
 'C07': ('exploration',
         'complete enumeration of (README release protocol x core packet x boundary field values) against a release table and encoder transcribed from the protocol documentation, through fresh, re-assigned and long-lived contexts and through fresh and long-lived packet objects',
         'pyCraft bytes vs reference bytes, reference bytes decoded by pyCraft, and reactor id lookup, for every listed release.',
         'Trusted: vf/refproto/releases.py, transcribed by hand; entries that could not be established with confidence are left out and listed as not judged.', '3/C07'),
 'C08': ('model_checking',
         'explicit-state BFS over run-time record extensions and re-initialisations on the real module, plus complete enumeration of all pairs/triples of known versions, against an independent recomputation (append, insert, re-list, replace, swap, out-of-order numbers; in place and by rebinding the list) with long-lived contexts observed across rebuilds; all schedules within a preemption bound of pairs of comparison calls made by two threads',
         'All pairs (and triples) of known protocol numbers for the order laws; BFS over histories of record extension + initglobals with state deduplication for the derived tables.',
         'Trusted: the reference recomputation (rank = index of first occurrence). Module state is snapshotted and restored around every path.', '3/C08'),
 'C09': ('model_checking',
         'exhaustive enumeration of (allowed set x default x server status behaviour x delivery) conversations of the real Connection over a virtual network under a controlled scheduler, judged by an independent server and a reference negotiation function; sequences of 2-4 operations on one Connection object and on 2-3 objects created up front',
         'Every configuration in the stated alphabet is executed on the real client against an independent reference server over vnet; all environment answers are owned by the harness.',
         'Trusted: vf/vnet (conformance-tested against real sockets), vf/refserver, vf/pysched canonical schedule.', '3/C09'),
 'C10': ('model_checking',
         'exhaustive enumeration of server login scripts up to a length bound x versions x token modes x delivery modes on the real client over a virtual network, judged by an independent server (own framing, CFB8, RSA); complete product of (first login script, transition, second use) on the same Connection object',
         'All admissible orders of optional login steps within the length bound are executed; the independent server decodes every client byte.',
         'Trusted: refproto framing/CFB8/javahash, cryptography RSA + AES block primitive; vnet; canonical schedule.', '3/C10'),
 'C11': ('model_checking',
         'exhaustive enumeration of play-state server histories up to a length bound x all supported versions x compression modes, plus all batch-boundary lengths, send-fault bursts, and second play sessions of one Connection object at another version, on the real client over a virtual network',
         'All histories over the event alphabet up to the bound on boundary versions, a fixed family on every supported version, every batch length up to the bound.',
         'Trusted: refserver; for non-release versions packet ids come from pyCraft (ids for releases are C07).', '3/C11'),
 'C12': ('model_checking',
         'stateless preemption-bounded exploration (CHESS-style) of all thread schedules of the real Connection under a controlled scheduler with points at every lock, socket, queue and shared-attribute access; a forced write racing the switch to encryption; an outgoing listener that disconnects from inside a write',
         'All schedules with at most 2 (quick) / 3 (thorough) preemptions of small multi-writer programs, each judged by an independent deframer of the server-side byte log.',
         'Trusted: vf/pysched (replay-determinism checked per run), vnet; CPython GIL atomicity of single bytecodes; nothing is claimed beyond the preemption bound.', '3/C12'),
 'C13': ('model_checking',
         'exhaustive enumeration of listener configurations x incoming packet kinds on the real client over a virtual network against a reference dispatch function; registration routes and kinds of callable; send-fault families; preemption-bounded exhaustive schedules of concurrent registration and of disconnect() racing a dispatch',
         'All configurations with up to 2 listeners per class over a type-filter hierarchy, each with/without ignore, for each packet kind in login and play.',
         'Trusted: the reference dispatch function (20 lines), vnet event log for before/after-write ordering.', '3/C13'),
 'C14': ('fault_enumeration',
         'exhaustive enumeration of (fault origin x handler chain x final handler) on the real networking thread under the controlled scheduler, against a reference interpreter of the documented try/except chain x configuration routes, with and without a write error pending; preemption-bounded exhaustive schedules of a handler that hands over to a user thread and blocks',
         'Every fault origin crossed with every handler chain up to the length bound and every final-handler mode.',
         'Trusted: the reference interpreter; pysched thread wrapper to observe re-raise.', '3/C14'),
 'C15': ('fault_enumeration',
         'exhaustive enumeration of every prefix length of each reference server byte stream followed by end-of-stream, on the real client over a virtual network with visible waiting; what later connections of the same object deliver and send after the cut; refused reconnection',
         'Every cut offset of every reference conversation, eager and byte-wise delivery; termination, bounded reads after EOF, error report or documented fallback, and no partial packet delivered.',
         'Trusted: vnet EOF semantics (conformance-tested), step horizon for livelock.', '3/C15'),
 'C16': ('model_checking',
         'explicit-state BFS over call histories on the real Connection plus preemption-bounded schedule exploration of two user threads, with invariants monitored at every point; start states inside a conversation (negotiation, encryption / compression switch, status query in flight, silent server, reconnecting handler) with real-time-order oracles',
         'BFS to depth bound over the lifecycle call alphabet x server kinds; all schedules up to the preemption bound for two-thread programs.',
         'Trusted: pysched, vnet; canonical state abstraction is over-fine by construction (all attributes).', '3/C16'),
 'C17': ('exploration',
         'exhaustive enumeration of all server ids up to length 2/3 over a 40-symbol alphabet x secrets x keys, against an independent Java BigInteger formatter; the hash actually sent / posted over login histories on one Connection (stubbed token, and a real token over a recording HTTP stand-in)',
         'All inputs in the stated product; digest classes (negative, leading zero nibble/byte) are counted to show the interesting cases occur.',
         'Trusted: hashlib.sha1 and vf/refproto/javahash.py (checked on the three published vectors).', '3/C17'),
 'C18': ('exploration',
         'exhaustive enumeration of all compositions of short streams into calls and all interleavings of both directions, all 1-/2-cut partitions of long streams, all token lengths 1..64, against hand-built CFB8 and an independent RSA key holder; retaining transports, one-shot faults at every k-th raw call, login histories with a fresh-secret oracle; preemption-bounded exhaustive schedules of send || recv on one wrapper pair and of two overlapping key exchanges',
         'Every split of every stream in the stated family; ciphertext must equal the hand-built CFB8 byte for byte.',
         'Trusted: AES single-block primitive (ECB) from cryptography, our CFB8 shift register (NIST SP800-38A vector), RSA decryption by cryptography. Randomness quality of os.urandom is out of scope.', '3/C18'),
 'C19': ('model_checking',
         'explicit-state BFS to fixpoint over (token field-presence state x operation x scripted HTTP reply) on the real AuthenticationToken through real requests machinery, against a reference token; replies with format metacharacters; preemption-bounded exhaustive schedules of concurrent token operations',
         'All 32 initial presence states, all operations, all reply shapes; every transition compared with the reference.',
         'Trusted: the reference token model; requests transport adapter (quick) / local http.server (thorough).', '3/C19'),
 'C20': ('model_checking',
         'explicit-state BFS to fixpoint over tracker packet histories on the real tracker objects against dict/list references; complete enumeration of flag values, alias kinds and vector/record laws over boundary products; every update shape on small maps at depth 2; record families in several orders of first use',
         'BFS over player-list and map histories with deduplication; all 32 flag combinations; all values 0..255 for every BitFieldEnum plus generated enums.',
         'Trusted: reference trackers (dict/list).', '3/C20'),
}


def main():
    READY = set(open(os.path.join(HERE, 'tools', 'ready.txt')).read().split())
    checks, na = [], []
    for pid in sorted(T):
        level, tech, text, note, ref = T[pid]
        if pid in READY and os.path.exists(os.path.join(
                HERE, 'vf', 'props', pid.lower() + '.py')):
            checks.append({
                'property_id': pid,
                'quick_cmd': './check %s --tier quick' % pid,
                'thorough_cmd': './check %s --tier thorough' % pid,
                'evidence_file': '/verif/evidence/%s.json' % pid,
                'replay_cmd_template': './check %s --replay {path}' % pid,
                'engine': 'vf',
                'level_claimed': {'category': level, 'text': text,
                                  'design_ref': 'DESIGN.md section ' + ref},
                'level_note': note,
                'technique': tech,
            })
        else:
            na.append({'property_id': pid,
                       'reason': 'check not built yet at this commit '
                                 '(planned: %s)' % level})
    hooks_commits = []
    p = os.path.join(HERE, 'hooks_commits.txt')
    if os.path.exists(p):
        hooks_commits = [l.split()[0] for l in open(p) if l.strip()]
    m = {
        'version': 1,
        'setup_cmd': './setup.sh',
        'hooks': {
            'guard': 'PYCRAFT_VERIF',
            'enable': 'no source hooks: every seam is a module-level name of '
                      'pyCraft (connection.RLock/socket/select/timeit/deque, '
                      'NetworkingThread.start/join/is_alive, encryption.os, '
                      'authentication.requests/uuid) rebound from outside by '
                      'the harness; PYCRAFT_VERIF is declared but no source '
                      'line reads it',
            'baseline_off_cmd': 'cd /repo && /venv/bin/python -m pytest -ra -q '
                                '-p no:cacheprovider --timeout=900 '
                                '--continue-on-collection-errors',
            'source_commits': hooks_commits,
            'add_only': True,
        },
        'engines': [
            {'name': 'vf', 'path': 'vf/',
             'serves_properties': [c['property_id'] for c in checks],
             'kind_free_text': 'hand-written bounded-exhaustive explorers in '
             'Python over the real pyCraft code: input/configuration '
             'enumerators, explicit-state BFS over real transition functions, '
             'and pysched, a stateless preemption-bounded scheduler for real '
             'Python threads over a virtual network (vnet); oracles are an '
             'independent protocol implementation (refproto/refserver)'},
        ],
        'checks': checks,
        'not_applicable': na,
        'notes': 'All checks: ./check <id> [--tier quick|thorough] '
                 '[--replay file]; honours VERIF_SEED, VERIF_TIER, VERIF_REPO. '
                 'See DESIGN.md.',
    }
    with open(os.path.join(HERE, 'MANIFEST.json'), 'w') as f:
        json.dump(m, f, indent=1)
        f.write('\n')
    print('claimed:', ' '.join(c['property_id'] for c in checks))
    print('not claimed:', ' '.join(n['property_id'] for n in na))


if __name__ == '__main__':
    main()
