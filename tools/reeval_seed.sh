#!/bin/sh
# usage: tools/reeval_seed.sh <seed-id e.g. C13-B> [check-id ...]
# Re-runs checks against an already filed seeded change (seeded/<id>/patch.diff)
# and updates its meta.json 'checks_run' and check_*.out files.
ID="$1"; shift
PROP="${ID%-*}"
CHECKS="${*:-$PROP}"
HERE="$(cd "$(dirname "$0")/.." && pwd)"
OUT="$HERE/seeded/$ID"
D="$(mktemp -d /tmp/vfseed.XXXXXX)"
trap 'rm -rf "$D"' EXIT
cp -r /repo/. "$D/" && rm -rf "$D/.git"
( cd "$D" && patch -p1 -s < "$OUT/patch.diff" ) || { echo "PATCH-FAILED"; exit 3; }
RES=""
cd "$HERE"
for id in $CHECKS; do
  VERIF_REPO="$D" VERIF_NO_EVIDENCE=1 ./check "$id" > "$D/out.$id" 2>&1; rc=$?
  KEY="$(grep -m1 'key:' "$D/out.$id" | sed 's/^ *key: *//')"
  RES="$RES$id:exit=$rc:$(grep -c '^VIOLATION' "$D/out.$id")viol:[$KEY]; "
  cp "$D/out.$id" "$OUT/check_$id.out"
done
echo "$ID checks: $RES"
/venv/bin/python - "$OUT" "$RES" <<'PY'
import json, sys
out, res = sys.argv[1:3]
m = json.load(open(out + '/meta.json'))
prev = m.get('checks_run', '')
m.setdefault('earlier_runs', [])
if prev and prev != res.strip():
    m['earlier_runs'].append(prev)
m['checks_run'] = res.strip()
json.dump(m, open(out + '/meta.json', 'w'), indent=1)
PY
