#!/usr/bin/env python3
"""Fill what_was_changed / needs_to_manifest in seeded/*/meta.json and
regenerate seeded/INDEX.md from the metadata and the recorded check runs."""
import glob
import json
import os

HERE = os.path.dirname(os.path.dirname(os.path.abspath(__file__)))
NEEDS = {
 'C01-A': ('read_packet refill loop asks for length minus the size of the LAST chunk only', 'a frame body split over three or more reads with the next frame already available'),
 'C01-B': ('data-length prefix chosen with >= threshold while the body is compressed only when > threshold', 'uncompressed frame length exactly equal to the threshold'),
 'C03-A': ('VARINT_SIZE_TABLE entry 2**63 moved to 2**64', 'an integer with bit 63 set'),
 'C03-B': ('over-long check hoisted out of the decode loop', 'more than max_bytes+1 consecutive continuation bytes'),
 'C05-A': ('Position.send_with_context uses protocol_earlier_eq(443) for the old layout', 'protocol 443 only, y and z not both zero'),
 'C05-B': ('SpawnObjectPacket.write_fields tests data != 0, read tests data > 0', 'protocol 4, 5 or 47 and a negative data value'),
 'C09-A': ('status fallback widened from EOFError to (EOFError, socket.error)', 'multi-version connect() and a server replying exactly {}'),
 'C09-B': ('truthiness test on the reported protocol number', 'a server reporting protocol 0'),
 'C11-A': ('VarInt.read returns signed values, VarInt.send still rejects negatives', 'a keep-alive (protocol < 339) or teleport id whose wire VarInt has bit 31 set'),
 'C11-B': ('frame-body loop re-reads the full length after a short read', 'a large frame whose first read comes up short with later packets already queued behind it'),
 'C12-A': ('_pop_packet pops before taking the write lock; _run no longer holds the lock across the batch', "disconnect() landing between the networking thread's popleft and its write"),
 'C12-B': ('compressed frame length uses the VarInt width of the compressed size', 'compression on and a packet >= 128 bytes raw that compresses below 128 bytes'),
 'C16-A': ('_check_connection looks at networking_thread before new_networking_thread', 'a listener doing disconnect(); connect() still running when a second caller connects'),
 'C16-B': ('_outgoing_packet_queue reset moved after socket.connect()', 'connect, disconnect, late write_packet, refused connect, disconnect'),
 'C02-A': ('trailing % 256 dropped from Angle.send', 'an angle in [359.296875, 360) modulo a turn'),
 'C02-B': ('VarIntPrefixedByteArray.read without the struct length check', 'a truncated encoding'),
 'C04-A': ('Position.read_with_context treats 443 as the old layout', 'protocol 443 only'),
 'C04-B': ('sign conversion uses > instead of >=', 'a coordinate exactly at its field minimum'),
 'C06-A': ('RespawnPacket id boundary 721 -> 712', 'protocols 712-719'),
 'C06-B': ('shared module-level set mutated in place by get_packets', 'a table for protocol >= 385 requested before one for < 385 in the same process'),
 'C07-A': ('Join Game dimension Int from 107 instead of 108', 'protocol 107 (1.9) only'),
 'C07-B': ('two ladder branches in the wrong order, one unreachable', 'protocol 335 (1.12) only'),
 'C08-A': ('PROTOCOL_VERSION_INDICES rebound instead of updated in place', 'run-time record extension, initglobals(True), then a comparison with a new number'),
 'C08-B': ('duplicate suppression looks at the last element only', 'protocol 754, used by non-adjacent supported versions'),
 'C10-A': ('PluginResponsePacket id boundary protocol_later(391)', 'protocol 391 and a plugin request'),
 'C10-B': ('disconnect message extraction narrowed to except ValueError', 'a disconnect reason that is a bare JSON string or array'),
 'C13-A': ('call_packet calls back once per matching registered type', 'a listener registered with two types that both match'),
 'C13-B': ('per-class listener cache invalidated only for the exact classes registered', 'a listener registered mid-connection on a superclass after a packet of the subclass was dispatched'),
 'C14-A': ('handler type filters evaluated once against the original exception', 'an earlier handler raising a different type and a later handler that tells the two apart'),
 'C14-B': ('post-exception close skipped when connected is already False', 'queued replies, a Disconnect packet in the same batch, and the flush inside disconnect() failing'),
 'C15-A': ('EncryptedFileObjectWrapper.read tops up short reads in a loop that only tests the first read for emptiness', 'encryption on and end of stream inside a frame body after at least one byte of it'),
 'C15-B': ('frame-body loop breaks on end of stream instead of raising', 'end of stream inside a frame of unknown type or ending in a trailing byte array'),
 'C17-A': ('sign taken from the first non-zero byte of the digest', 'a digest starting 00 followed by a byte >= 0x80 (about 1 in 512)'),
 'C17-B': ('server id hashed as ISO-8859-1', 'a non-ASCII server id'),
 'C18-A': ('forced write queues when the outgoing queue is not empty', 'a non-forced packet in flight when the encryption request is handled'),
 'C18-B': ('socket and file wrappers get separate decryptors in LoginReactor', 'reading through both connection.socket.recv and connection.file_object.read after a login'),
 'C19-A': ('generated client token stored on the object before posting', 'no stored client token, invalidate_previous=False and an error reply'),
 'C19-B': ('malformed-body branch raises YggdrasilError(message) only', 'an error reply whose body is not a full error object'),
 'C20-A': ('re-add of a known UUID refreshes in place without display_name', 'an add for a UUID already in the list with a different display_name'),
 'C20-B': ('MutableRecord.__hash__ over repr', 'equal records with fields that are == but print differently (1 vs 1.0)'),
 # round 2
 'C01-2A': ('one shared placeholder Packet object returned for every unknown id', 'two unknown ids and a consumer that keeps the packets'),
 'C01-2B': ('forced write from the networking thread skips the write lock', 'a listener on the networking thread and a user thread both forcing a write'),
 'C01-2C': ('play-state Set Compression class kept until protocol 107', 'protocol 107 and an incoming id 0x46'),
 'C05-2A': ('one scratch PacketBuffer per thread, not emptied when write_fields raises', 'a failed write() followed by another write() on the same thread'),
 'C05-2B': ('MapPacket writes the display-name flag with "is not None" and the string under "if name"', "protocol >= 364 and an icon whose display name is ''"),
 'C05-2C': ('VarInt.read became a staticmethod using VarInt.max_bytes', 'a VarLong of 2**42 or more'),
 'C09-2A': ('_version_mismatch lets the number looked up from the name replace the reported number', 'a reported (number, name) pair where the name denotes another protocol'),
 'C09-2B': ('allowed versions kept as a sorted list with duplicates', 'one protocol listed more than once (two names, name + number)'),
 'C09-2C': ('latency measured with time.time()', 'a backwards step of the wall clock during the ping'),
 'C10-2A': ('_outgoing_packet_queue no longer reset per connection', 'a login that dies with a packet still queued, then connect() on the same object'),
 'C10-2B': ('reader decides "compressed?" from decompressed_size > threshold', 'a server frame of exactly threshold uncompressed bytes sent compressed'),
 'C10-2C': ('one shared PluginResponsePacket object for every default reply', 'several plugin requests in one read batch'),
 'C11-2A': ('PlayerPositionAndLookPacket id boundary 352 -> 353', 'protocol 352 only'),
 'C11-2B': ('_pop_packet writes queue[0] and pops only after the write succeeded', 'a reply write failing on the dead peer, then the disconnect packet read in the same lap'),
 'C11-2C': ('socket.settimeout(5) left on the socket', 'parts of a frame arriving more than the timeout apart'),
 'C12-2A': ('_outgoing_packet_queue created in __init__, not reset by _connect', 'queue, disconnect(immediate=True), connect again'),
 'C12-2B': ('disconnect() flushes through the 300-packet batch helper', 'more than 300 packets queued at a non-immediate disconnect'),
 'C12-2C': ('socket.settimeout(30) left on the socket while send() results are ignored', 'a short write'),
 'C13-2A': ('register_packet_listener builds a new list and swaps it in', 'two threads registering into the same group at overlapping times'),
 'C13-2B': ('except IgnorePacket moved from _write_packet into _pop_packet', 'a forced write from inside incoming dispatch with an outgoing listener that ignores it'),
 'C13-2C': ('repeat registrations of the same callable merged into one listener', 'the same callable registered twice in one group'),
 'C14-2A': ('status-phase built-in handler swallows IOError as well as EOFError', 'multi-version connect() and an IOError in the status phase (empty status object)'),
 'C14-2B': ('a handler that matched but raised still counts as caught', 'a matching handler that raises, nothing later catching the replacement, no final handler'),
 'C14-2C': ("write lock dropped around the dying thread's networking_thread = None", 'connect() from a second thread exactly while the failed thread exits'),
 'C15-2A': ('handle_proto_version narrows the allowed set only when the chosen version is already in it', 'default version outside the allowed set and every status query unanswered'),
 'C15-2B': ('StatusReactor swallows EOFError once the ping has been written', 'end of stream after the complete status response of a status() with ping'),
 'C15-2C': ('EOF after a failed write pass treated as a graceful disconnect', 'the write pass hitting the closed socket before the read pass sees the EOF'),
 'C16-2A': ('disconnect() calls shutdown(SHUT_WR) instead of SHUT_RDWR', 'the networking thread blocked inside a frame body when disconnect() arrives'),
 'C16-2B': ('fresh-thread branch of _start_network_thread placed before the reuse-pending-successor branch', 'connect, reconnect from a listener, user disconnect, user status() in the hand-over window'),
 'C16-2C': ('except socket.error around shutdown() narrowed to ConnectionError', 'a refused TCP connect, then disconnect()'),
 'C02-2A': ('VarInt.read became a staticmethod using VarInt.max_bytes', 'a VarLong of 2**42 or more (7+ bytes)'),
 'C02-2B': ('VarInt.send fills a module-level scratch bytearray', 'two threads inside VarInt.send with a switch between the first buffer write and the final copy'),
 'C02-2C': ('String.send length guard applied to the UTF-8 byte count', 'a string of <= 32767 characters whose UTF-8 form exceeds 32767 bytes'),
 'C03-2A': ('VarInt.send adds 2**32 to negatives instead of raising', 'a negative integer below -2**32 (encoder never terminates)'),
 'C03-2B': ('32-bit range check added to the decoder VarLong inherits', 'a VarLong of 2**32 or more'),
 'C03-2C': ('VarInt.size memoised per bit_length // 7 bucket', 'two queries in one bucket from either side of a 7k/7k+1 bit-length boundary, in that order'),
 'C04-2A': ('write_packet keeps a context the packet already has', 'one packet object written to two connections either side of the 1.14 layout switch'),
 'C04-2B': ('Position.read_with_context rewritten with 22-bit constants for z in the new-layout branch', 'protocol >= 443 and |z| >= 2**21'),
 'C04-2C': ('ConnectionContext.protocol_later_eq memoised, cache cleared by a protocol_version setter', 'a thread missing the cache while another assigns a version across the layout switch'),
 'C06-2A': ('PROTOCOL_VERSION_INDICES assigned for every record, not only first occurrences', 'protocol 754 (the one non-adjacent duplicate number)'),
 'C06-2B': ('protocol_later_eq memo is a class attribute shared by all contexts', 'two live contexts of different versions used alternately with no construction in between'),
 'C06-2C': ('one id chain compares protocol numbers numerically', 'one of the six supported PRE-flagged versions'),
 'C07-2A': ('Packet.id / definition memoised per context object', 'a context used at one version and then re-assigned to another (negotiation, reconnect)'),
 'C07-2B': ('String.read rejects a length prefix above 32767', 'a legal string of <= 32767 characters whose UTF-8 form exceeds 32767 bytes'),
 'C07-2C': ('VarInt.read returns signed values, send still rejects negatives', 'protocol 47-338 and a keep-alive id with bit 31 set'),
 'C08-2A': ('index lookup written "INDICES.get(pv) or len(INDICES)"', 'a comparison involving protocol number 0 (index 0)'),
 'C08-2B': ('SUPPORTED_MINECRAFT_VERSIONS not cleared by initglobals(True)', 'a supported record inserted before the end, or un-supported, then a rebuild'),
 'C08-2C': ('single-pass rebuild fills the release tables beside, not inside, the supported test', 'run-time extension with an unsupported release-named version, then initglobals(True)'),
 'C17-2A': ("hand-written two's complement tests the carry after the increment", 'a negative digest whose last byte is 00 or 01'),
 'C17-2B': ('Connection memoises the session hash per (server id, public key)', 'a second login on the same Connection object to the same server'),
 'C17-2C': ('sign test written b[0] > 0x80', 'a digest whose first byte is exactly 0x80'),
 'C18-2A': ('EncryptedFileObjectWrapper.read tops up short reads without decrypting the continuation', 'encryption on and a body arriving in more than one segment'),
 'C18-2B': ('connect() keeps an existing LoginReactor, which caches its secret', 'a login that ends in the login state after the encryption request, then another login'),
 'C18-2C': ('file_object lookup hoisted out of the read loop in _run', "the server's first encrypted packet already readable when the loop comes round after the encryption request"),
 'C19-2A': ('join() guards on access token and profile instead of authenticated', 'a token with profile and access token but no username (restored token after refresh)'),
 'C19-2B': ('refresh() keeps the client token it sent', 'a refresh reply whose clientToken differs from the one posted'),
 'C19-2C': ('error-object test no longer checks the body is a JSON object', 'an error reply whose body is null, a number, a string or an array'),
 'C20-2A': ('MutableRecord._all_slots cached through an inherited class attribute', 'a parent record class compared/printed before a subclass with extra slots is first used'),
 'C20-2B': ('MapPacket.apply_to_map copies len(pixels) // width whole rows', 'a pixel array that is not a whole number of rows'),
 'C20-2C': ('angles wrapped only on the relative path', 'an absolute yaw or pitch outside [0, 360)'),
 # round 3
 'C01-3A': ('file_object fetched once per read batch in _run', "the server's first encrypted frame already readable right after the encryption request was answered"),
 'C01-3B': ('compression state reset in disconnect() instead of _connect()', 'a compressed session ending abnormally, a handler that only calls connect(), a second session without compression'),
 'C01-3C': ('frame assembly buffer is a class attribute of PacketReactor', 'two Connections in one process, a frame of one split across reads with a frame of the other in between'),
 'C02-3A': ('scalar types pack through an lru_cache keyed by (format, value)', '0.0 then -0.0 (or 0) with the same type'),
 'C02-3B': ('String.read decodes with utf-8-sig', 'a string starting with U+FEFF'),
 'C02-3C': ('byte-array formats in a 64-entry table, oldest evicted without a lock', 'more than 64 distinct lengths seen, then two threads missing at once'),
 'C03-3A': ('VarInt.send builds its output in a module-level buffer', 'two threads encoding at overlapping times'),
 'C03-3B': ('bit-offset table memoised lazily on the class, VarLong inherits VarInt\'s', 'a VarInt decoded before the first VarLong, then a VarLong of 2**42 or more'),
 'C03-3C': ('peek fast path for buffered streams', 'an io.BufferedReader whose buffer ends inside a multi-byte number'),
 'C04-3A': ('Position.send_with_context packs into a class-level bytearray handed to send()', 'two threads encoding positions, or a transport that looks at the buffer later'),
 'C04-3B': ('PrefixedArray keeps its context-bound element codec; one RecordArray shared either side of 741', 'two sessions in one process on both sides of protocol 741'),
 'C04-3C': ('layout decided by membership in a set built from SUPPORTED instead of KNOWN versions', 'one of ten known-but-unsupported post-1.14 versions'),
 'C05-3A': ('packet ids remembered per ConnectionContext', 'one context used to write a class under two versions with different ids'),
 'C05-3B': ('class-level table of definitions filled in place after setdefault', 'two threads making the first use of a (class, version) pair at once'),
 'C05-3C': ('String.read rejects a length prefix above 32767', 'a string whose UTF-8 form exceeds 32767 bytes'),
 'C06-3A': ('reactor tables cached per (state, version), empty dict installed before it is filled', 'two connections entering the same state at the same version for the first time at once'),
 'C06-3B': ('clientbound play get_packets memoised per context object', 'one context used for the play state at two versions'),
 'C06-3C': ('PluginResponsePacket given the constant id 0x02', 'protocols 385-390, serverbound login'),
 'C07-3A': ('one scratch PacketBuffer per thread, reset only around the socket write', 'a write failing during field serialisation, then another write on that thread'),
 'C07-3B': ('ServerDifficultyPacket id boundary 721 -> 741', 'protocols 735 and 736: clashes with Chat Message'),
 'C07-3C': ("version record '1.15-pre5' given protocol 573", 'protocol 573 (1.15) Join Game'),
 'C08-3A': ('ConnectionContext remembers its chronological index', 'a context that outlives initglobals(True) after a record was inserted before its version'),
 'C08-3B': ('initglobals(True) skips records whose id was already seen', 'a run-time record re-listing a known id with another flag or number'),
 'C08-3C': ('rebuild skipped when the number of records is unchanged', 'an equal-length change of the records, or a legacy edit, then a rebuild'),
 'C09-3A': ('default version chosen by numeric max()', 'an allowed set holding a post-1.16.3 pre-release and a later release, and a fallback'),
 'C09-3B': ('status() checks for an existing connection before taking the lock', 'two user threads calling status() at overlapping times'),
 'C09-3C': ('outgoing queue created once in __init__', 'a server closing the status connection before the request was written, then the fallback login'),
 'C10-3A': ('set of answered plugin message ids never cleared', 'two logins on one Connection with the same plugin message id'),
 'C10-3B': ('file_object looked up once per read batch', "the server's first encrypted packet readable at the poll right after the encryption request"),
 'C10-3C': ('login get_packets mutates a shared module-level set', 'a login at >= 385 before a login below 385 that is disconnected during login'),
 'C11-3A': ('one TeleportConfirmPacket object reused by the reactor', 'two position-and-look packets read in one lap'),
 'C11-3B': ('compressed frames rejected when size <= threshold', 'a compressed frame of exactly the threshold size'),
 'C11-3C': ('incoming-frame buffer is a class attribute', 'two Connections, one blocked mid-frame while the other reads'),
 'C12-3A': ('queued write_packet writes directly when the lock is free', 'a queued packet behind a busy lock, then another with the lock free'),
 'C12-3B': ('networking thread detaches the whole queue each round', 'a producer preempted between loading the queue attribute and append'),
 'C12-3C': ('disconnect() resets the compression options before its flush', 'compression on and a packet still queued at a non-immediate disconnect'),
 'C13-3A': ('_react drops the packet when the reading thread is interrupted', 'a disconnect() between the early stage and the reaction of one packet'),
 'C13-3B': ('compression switched on when Set Compression is parsed', 'an early listener on SetCompressionPacket that inspects options or ignores it'),
 'C13-3C': ('_pop_packet re-queues the packet when the write fails', 'a write failing in the lap in which the server\'s Disconnect is readable'),
 'C14-3A': ('outgoing queue created once, cleared in disconnect()', 'a queued reply, a listener raising, a handler calling connect() directly'),
 'C14-3B': ('write lock held across exception handling', 'a handler waiting for another thread that calls disconnect()'),
 'C14-3C': ('deferred write error re-raised from a finally around the read loop', 'a listener exception while a write error is pending'),
 'C15-3A': ('frame buffer kept on the Connection, emptied only after a successful parse', 'end of stream inside a frame body, then another conversation on the same Connection'),
 'C15-3B': ("reactor's exception hook called unprotected", 'end of stream in the status phase and the fallback reconnection refused'),
 'C15-3C': ('successor takes over only if it saw its predecessor alive', 'a successor scheduled after the predecessor ended, then a second use'),
 'C16-3A': ('compression options reset in connect() only', 'status() after a compressed session'),
 'C16-3B': ('status() checks for an existing connection before taking the lock', "status() racing another thread's connect()"),
 'C16-3C': ('EOF fallback of the negotiation reactor guarded by reactor identity instead of connected', 'a silent server and a user disconnect() during negotiation'),
 'C17-3A': ('hash taken over the key re-serialised as canonical SPKI', 'a loadable but non-canonical key encoding'),
 'C17-3B': ('AuthenticationToken.join keeps one request dict on the token', 'two overlapping joins on one token'),
 'C17-3C': ('sha1 object as a default argument', 'a second hash call in the process'),
 'C18-3A': ('one work buffer for both directions of EncryptedSocketWrapper', 'a send and a recv overlapping on one wrapper'),
 'C18-3B': ('"last server key" cache in two module globals', 'two logins handling encryption requests at overlapping times'),
 'C18-3C': ('EINTR retry loop re-encrypts the plaintext', 'the underlying send() failing with EINTR once'),
 'C19-3A': ('error strings spliced in before str.format runs', 'an error object whose text contains a brace'),
 'C19-3B': ('authenticate sends a stored client token also with invalidate_previous', 'a token holding a client token and invalidate_previous=True'),
 'C19-3C': ('validate tests res.ok instead of 204', 'a 200 reply to /validate'),
 'C20-3A': ('Map(icons=[]) shared mutable default', 'two maps alive and a later packet with other icons'),
 'C20-3B': ('record equality skips unset fields, the hash does not', 'a record with an unset slot compared with one where it is set'),
 'C20-3C': ('multi_attribute_alias setter stores under the container keyword', 'assignment through an alias whose field names differ (feet_y)'),
 # round 4
 'C01-4A': ('_pop_packet writes queue[0] and pops afterwards', 'an outgoing listener calling disconnect() from inside the write'),
 'C01-4B': ('_react holds the lock only for the interrupt check, the reaction runs outside', 'a forced write from another thread between the encryption response and the cipher installation'),
 'C02-4A': ('FixedPoint instances interned by positional arguments, __init__ still runs', 'FixedPoint(T, fractional_bits=n) constructed after FixedPoint(T)'),
 'C02-4B': ('two-slot "last binding" memo in class_and_instancemethod.__get__', 'two threads calling *_with_context on different types with a switch between the two stores'),
 'C03-4A': ('VarInt gets static *_with_context overrides naming VarInt literally', 'VarLong.read_with_context of 2**42 or more'),
 'C03-4B': ('VarInt.send empties its per-thread buffer only after a successful send', 'a send that raises (or re-enters), then another encode on that thread'),
 'C04-4A': ('ConnectionContext(protocol_version=V) returns one shared object per version', 'two Connections constructed before either connected, negotiating versions either side of the layout switch'),
 'C04-4B': ('a version of None counts as the latest, tested by truthiness', 'protocol 0'),
 'C05-4A': ('String.read decodes with utf-8-sig', 'a string starting with U+FEFF'),
 'C05-4B': ('one (name, type) pair taken per definition entry', 'a user-defined definition entry mapping several names'),
 'C06-4A': ('PROTOCOL_VERSION_INDICES rebound by a comprehension on rebuild', 'a version added at run time, then its tables'),
 'C06-4B': ('write_packet keeps a context the packet already has', 'one packet object written on two Connections of different versions'),
 'C07-4A': ('write_packet keeps a context the packet already has', 'one packet object written on two Connections of different versions'),
 'C07-4B': ('compression options reset in connect() only', 'status() after a compressed play session on the same object'),
 'C08-4A': ('numeric comparison when neither number carries the PRE bit', 'a run-time record whose non-PRE number is out of numeric order (801 between 751 and 752)'),
 'C08-4B': ('initglobals(records=KNOWN_MINECRAFT_VERSION_RECORDS) default bound at definition', 'a new list assigned to the module attribute, then a rebuild'),
 'C09-4A': ('Connection takes its context from a per-version class-level table', 'two Connections with the same latest allowed version, one negotiating an older one'),
 'C09-4B': ('_handle_exit also requires connection.exception is None', 'a plain status() on an object whose earlier operation failed'),
 'C10-4A': ('_react runs the reaction outside the write lock', 'a forced write from another thread inside the switch to encryption'),
 'C10-4B': ('VarInt.read returns signed values', 'a login plugin request whose message id is 2**31 or more'),
 'C11-4A': ('50-packet allowance tested after read_packet consumed a frame', 'crossing the 50-read batch limit'),
 'C11-4B': ('deflated frames inflated one byte first for the id', 'compression on and a deflated unknown frame with an id of 128 or more'),
 'C12-4A': ('disconnect() flushes by iterating over the deque', 'a queued write landing between two packets of the flush'),
 'C12-4B': ('_pop_packet writes the head before removing it', 'an outgoing listener calling disconnect() from inside the write'),
 'C13-4A': ('shared helper pops early/outgoing from the kwargs dict', 'one listener() decorator object applied to two functions'),
 'C13-4B': ('bound-method callbacks held by WeakMethod', 'a bound method of an object nobody else references'),
 'C14-4A': ('handle_exception=False normalised in the constructor only', 'connection.handle_exception = False assigned after construction'),
 'C14-4B': ('early return skips the re-raise when a handler reconnected', 'a handler that reconnects and then raises, no final handler'),
 'C15-4A': ('status fallback retried with a counter kept on the reactor', 'end of stream in the status phase with the default being the newest allowed version'),
 'C15-4B': ('no fallback while a frame is being received, EOFError still swallowed', 'end of stream inside the body of the status response'),
 'C16-4A': ('non-immediate disconnect() joins the thread it interrupted', 'disconnect() from the predecessor thread with a pending successor'),
 'C16-4B': ('interrupt test of _react moved out of the write lock', 'a packet read just before disconnect(); status() from a user thread'),
 'C17-4A': ('join retried after a 403 with the hash as the new server id', 'the session service answering the first join 403 and the refresh 200'),
 'C17-4B': ('String.read decodes with utf-8-sig', 'a server id starting with U+FEFF'),
 'C18-4A': ('_react runs the reaction outside the write lock', 'a forced write from another thread inside the switch to encryption'),
 'C18-4B': ('EncryptedSocketWrapper.send holds back pieces of at most 3 bytes', 'a short last piece with no further send'),
 'C19-4A': ('authenticate/refresh extract the result before checking the status', 'an error status with a complete result object as body'),
 'C19-4B': ('validate() remembers the token it last got 204 for', 'validate, sign_out, validate on one object'),
 'C20-4A': ('flag tables cached per (module, qualname)', 'two generated flag enums with the same qualified name'),
 'C20-4B': ('MapSet(*maps) skips maps with a falsy id', 'a tracker constructed from a map with id 0'),
 # round 5 (one change each, ten connection-level properties)
 'C01-5A': ('frame buffer rewound instead of reset after inflating', 'a compressed frame longer than its plain form and a packet ending in a trailing byte array'),
 'C09-5A': ('login name captured at construction', 'a username or token profile that changes between construction and connect()'),
 'C10-5A': ('PluginResponsePacket infers successful from bool(data)', 'a handler reply with empty data and no explicit successful'),
 'C11-5A': ('except around the flush in disconnect() narrowed to BrokenPipeError', 'a reply still queued at the disconnect packet and the peer answering with a reset'),
 'C12-5A': ('disconnect(immediate=True) shuts the socket down before taking the lock', 'a writer preempted between the two sends of a frame'),
 'C13-5A': ('50-packet limit tested after the read', 'more than 50 packets handled in one lap'),
 'C14-5A': ('exception recorded early and reset by _connect()', 'a handler that reconnects and returns'),
 'C15-5A': ('failed write pass clears connected', 'the server closing the status connection before the query is written'),
 'C16-5A': ('final check-and-disconnect of _handle_exception no longer under the lock', "a user connect() in the window at the end of a failing thread's handling"),
 'C18-5A': ('cipher installed only if an "encrypted" flag is clear; the flag survives an abnormal end', 'a handler that reconnects with connect() after an encrypted session died'),
 'C02-6A': ('String.read decodes through one module-level incremental UTF-8 decoder (final=False)', 'one malformed string ending inside a multi-byte sequence, then any valid string anywhere in the process'),
 'C03-6A': ('VarInt.read stashes the progress of a read interrupted by TimeoutError/BlockingIOError in a class-level dict keyed by id(stream)', 'a timeout inside a multi-byte number, then another decode on a stream with the same identity'),
 'C04-6A': ('Position caches (context object, z-before-y flag) at class level', 'one context object used on one side of the 1.14 switch, re-assigned to the other side, used again with no other context in between'),
 'C05-6A': ('PrefixedArray.*_with_context skips the context when the element type is a Type instance', 'a user-defined packet with an array nested two deep whose leaf needs the context'),
 'C06-6A': ('Packet.id memoised per packet object while the context object stays the same', 'a packet whose id was looked at, then its context re-assigned to another version, then the packet used again'),
 'C07-6A': ('protocol_earlier/_eq look indices up through a module-level one-entry memo (_last_version, _last_index)', 'two threads comparing different versions with a switch inside the memo update'),
 'C08-6A': ('three-way compare helper short-cuts equality with `is`, else answers by index order without an equal case', 'two equal protocol numbers above 256 held as distinct int objects'),
 'C17-6A': ('LoginReactor strips the server id before the offline test and hashes the stripped id', 'an encryption request whose server id has leading or trailing whitespace'),
 'C19-6A': ('Profile.to_dict() builds its dictionary once and keeps it', 'join, then a refresh/authenticate that changes the profile, then join again'),
 'C20-6A': ('MapPacket.apply_to_map fast path for full-width updates assigns pixels[start:] without an end bound', 'a 128-column update at x offset 0 that ends above the last row'),
}


def main():
    rows = []
    for d in sorted(glob.glob(os.path.join(HERE, 'seeded', 'C*-*'))):
        k = os.path.basename(d)
        mp = os.path.join(d, 'meta.json')
        if not os.path.exists(mp):
            continue
        m = json.load(open(mp))
        what, needs = NEEDS.get(k, (m.get('what_was_changed', ''),
                                    m.get('needs_to_manifest', '')))
        m['what_was_changed'], m['needs_to_manifest'] = what, needs
        json.dump(m, open(mp, 'w'), indent=1)
        c = m['confirmed']
        first = (m.get('earlier_runs') or [m['checks_run']])[0]
        if m.get('status', '').startswith('moot'):
            needs += ' — ' + m['status'].split(':')[0]
        rows.append((k, what, needs, c['demo_on_clean_tree_exit'],
                     c['demo_with_patch_exit'],
                     c['pinned_suite_with_patch'].split(' in ')[0],
                     first, m['checks_run']))
    with open(os.path.join(HERE, 'seeded', 'INDEX.md'), 'w') as f:
        f.write('# Independently seeded breaking changes\n\n'
                'Each directory holds `patch.diff` (applies to /repo HEAD '
                'with `patch -p1`), `demo.py` (exit 0 on the clean tree, 1 '
                'with the patch), `meta.json` (what it breaks, what it needs, '
                'what was run) and the output of the checks run against it. '
                'Written by sub-agents that saw only the property text and a '
                'scratch worktree; confirmed with `tools/eval_seed.sh`; '
                're-run with `tools/reeval_seed.sh <id> [checks]`. '
                '"first run" is the result when the seed arrived, "now" '
                'after the machinery was extended (exit=1 means caught).\n\n'
                '| id | change | needs | demo clean/patched | suite with '
                'patch | first run | now |\n|---|---|---|---|---|---|---|\n')
        for r in rows:
            def short(x):
                import re
                return re.sub(r':\d+viol:\[[^\]]*\]', '', x).strip()
            f.write('| %s | %s | %s | %s/%s | %s | %s | %s |\n'
                    % (r[0], r[1], r[2], r[3], r[4], r[5], short(r[6]),
                       short(r[7])))
    print(len(rows), 'seeds indexed')


if __name__ == '__main__':
    main()
