#!/bin/sh
# Build step after a fresh restore: everything is interpreted; this only
# self-tests the trusted base and prepares cached artefacts under out/.
HERE="$(cd "$(dirname "$0")" && pwd)"
cd "$HERE" || exit 1
export PYTHONDONTWRITEBYTECODE=1 PYTHONPATH="$HERE"
mkdir -p out/replays evidence
/venv/bin/python -m vf.selfcheck || exit 1
echo setup ok
