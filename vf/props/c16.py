"""C16 - connection lifecycle: one active thread, clean refusal, always reusable.

(a) Histories: breadth-first search over call histories on the real
    Connection (canonical schedule), a state being the history that reaches
    it; successors are computed by replaying the history on a fresh world;
    states are deduplicated on the canonical form of the whole system
    (vf.statehash) plus the reference model's state.
(b) Schedules: preemption-bounded exploration (vf.explore) of two user
    threads issuing lifecycle calls, from several quiescent start states.

Oracle: a small reference model of "is a conversation active" decides what
each call must do (succeed / InvalidState / ConnectionRefusedError; disconnect
never raises), and invariants are monitored throughout: at most one
networking thread inside its I/O loop, TCP connections opened == calls that
were allowed to proceed, a live play conversation keeps answering keep-alives,
every ended conversation leaves no thread behind, and the object can connect
again at the end.
"""
import os

from vf import harness, explore, statehash, pysched
from vf.refproto import framing
from vf.runner import ToolError, REPO, h64

LEVEL = 'model_checking'
RULE = ('(a) BFS over histories of ops {connect, status, disconnect, '
        'disconnect(immediate), settle (wait for quiescence), server sends '
        'keep-alive 99 (a listener then calls disconnect()+connect() from the '
        'networking thread), server kicks, server sends garbage} up to depth '
        '5 (quick) / 6 (thorough) x server plans (kind of the i-th TCP '
        'connection: ok / refuse / kick after join / disconnect during login '
        '/ garbage after join / stalls inside a frame / sets compression) x '
        'exception handler that reconnects or not; '
        'dedup on canonical system state + model state.  (b) all schedules '
        'with <= 2 (quick) / 3 (thorough) preemptions of two user threads '
        'issuing one or two lifecycle calls each, from start states {fresh, '
        'in play, after disconnect, after refused connect}, plus a server '
        'trigger (kick / garbage / keep-alive 99) racing user calls from '
        'the play state, plus disconnect / disconnect(immediate) racing the '
        'networking thread from {version negotiation in flight, encryption '
        'request in flight}; judged additionally on real-time order: a '
        'disconnect called after every accepted start returned must leave '
        'nothing alive, an accepted connect called after every disconnect '
        'returned must yield a live play connection; further start states '
        '{status() in flight, negotiation query unanswered by a silent server, '
        'login / compression switch in flight, in play '
        'with a reconnecting exception handler, in play after a negotiated '
        'connect} with user disconnect(); connect() racing the networking '
        'thread and the server closing / kicking / sending garbage.  states = '
        'distinct canonical states (BFS) + distinct hashed scheduler states; '
        'transitions = ops applied + scheduling points; traces = histories '
        'and schedules executed on the real code.')
ASSUMPTIONS = ['canonical schedule for (a): a call issued without an '
               'intervening settle runs before the networking thread takes '
               'another step',
               'single bytecodes are atomic (CPython GIL); nothing claimed '
               'beyond the preemption bound in (b)']

V = 757
CANON = statehash.Canon(REPO, (__file__,))
KINDS = ('ok', 'refuse', 'kick', 'loginkick', 'garbage', 'stall', 'compress')
PLANS = [('ok',), ('refuse', 'ok'), ('ok', 'refuse', 'ok'), ('kick', 'ok'),
         ('loginkick', 'ok'), ('garbage', 'ok'), ('ok', 'kick', 'refuse'),
         ('stall', 'ok'), ('ok', 'stall'), ('compress', 'ok')]
OPS = ('connect', 'status', 'disc', 'disc_imm', 'settle', 'ka99', 'kick',
       'garbage')
MAX_HANDLER_RECONNECTS = 2
RECONNECT_ON = ('LoginDisconnect', 'error', 'ConnectionRefusedError')
NOISE = ('ValueError', 'EOFError', 'OSError', 'BrokenPipeError')


def install_run_monitor(C):
    """Count networking threads inside their I/O loop (_run)."""
    NT = C.NetworkingThread
    if getattr(NT, '_vf_run_wrapped', False):
        return
    orig = NT._run

    def _run(self):
        S = pysched.cur()
        S.in_run = getattr(S, 'in_run', 0) + 1
        S.max_in_run = max(getattr(S, 'max_in_run', 0), S.in_run)
        try:
            return orig(self)
        finally:
            S.in_run -= 1
    NT._run = _run
    NT._vf_run_wrapped = True


class Model(object):
    """Reference: is a conversation active, and what a settle will do."""

    def __init__(self, plan, handler_reconnects):
        self.plan, self.hr = plan, handler_reconnects
        self.tcp = 0                # TCP connection attempts so far
        self.active = False
        self.call = None            # 'connect' | 'status' of the active one
        self.kind = None            # server kind of the active conversation
        self.in_play = False        # settled in play state
        self.handler_budget = MAX_HANDLER_RECONNECTS
        self.errors = 0             # errors that must have been reported
        self.exits = 0

    def key(self):
        return (self.tcp, self.active, self.call, self.kind, self.in_play,
                self.handler_budget)

    def next_kind(self):
        return self.plan[min(self.tcp, len(self.plan) - 1)]

    def start(self, call):
        """-> 'invalid' | 'refused' | 'ok' for a user call connect/status."""
        if self.active:
            return 'invalid'
        kind = self.next_kind()
        self.tcp += 1
        self.in_play = False
        if kind == 'refuse':
            return 'refused'
        self.active, self.call, self.kind = True, call, kind
        return 'ok'

    def stop(self):
        self.active, self.call, self.kind, self.in_play = \
            False, None, None, False

    def error_path(self):
        """An exception reached the handlers inside the networking thread."""
        self.errors += 1
        self.stop()
        while self.hr and self.handler_budget > 0:
            self.handler_budget -= 1
            r = self.start('connect')      # the handler calls connect()
            if r == 'ok':
                return self.process()
            # refused: connect() raised inside the handler: the exception
            # replaces the original, is offered to later handlers (there
            # are none) and is then re-raised from the networking thread
            return

    def process(self):
        """Everything that happens until the next quiescence."""
        if not self.active:
            return
        if self.call == 'status':
            self.exits += 1
            return self.stop()
        k = self.kind
        if k in ('ok', 'compress'):
            self.in_play = True
        elif k == 'stall':
            self.in_play = False    # alive, but stuck inside a frame
        elif k == 'kick':
            self.exits += 1
            self.stop()
        elif k in ('loginkick', 'garbage'):
            self.error_path()

    def listener_reconnect(self):
        """keep-alive 99: the listener calls disconnect(); connect()."""
        self.stop()
        r = self.start('connect')
        if r == 'ok':
            return self.process()
        self.error_path()               # ConnectionRefusedError in listener


def enabled_ops(m, settled):
    ops = ['connect', 'status', 'disc', 'disc_imm']
    if not settled:
        ops.append('settle')
    if m.in_play and settled:
        ops += ['ka99', 'kick', 'garbage']
    return ops


def body(W, plan, hr, history, final_probe=True, racing=False):
    """racing=True: the scheduler's window is open while the history's
    'settle' ops run, so which of several live networking threads continues
    at each blocking point becomes a choice the explorer enumerates."""
    S, C = W.S, W.C
    install_run_monitor(C)
    S.in_run = S.max_in_run = 0
    m = Model(plan, hr)
    viol = []
    errs, exits = [], []
    from minecraft.exceptions import InvalidState
    from minecraft.networking.packets import clientbound

    def endpoint(conn):
        i = len(W.net.conns) - 1 + W.net.refused
        kind = plan[min(i, len(plan) - 1)] if not W.force_ok else 'ok'
        login = {'ok': [('success',)], 'kick': [('success',)],
                 'compress': [('compress', 64), ('success',)],
                 'garbage': [('success',)], 'stall': [('success',)],
                 'loginkick': [('disconnect', '{"text":"no"}')]}[kind]
        play = {'kick': [('disconnect', '{"text":"bye"}')],
                'garbage': [('raw', 0x21, b'\x01')]}.get(kind, [])
        from vf.refserver import RefServer, status_json
        from vf import protoids
        srv = RefServer(conn, protoids.ids, W.rank, login=login,
                        play_script=play,
                        status={'json': status_json(protocol=V,
                                                    name='1.18.1')})
        srv.kind = kind
        if kind == 'stall':
            # announces a 9-byte frame, sends 3 bytes of it and goes quiet:
            # the networking thread ends up blocked inside a frame body
            srv.play_script = [('rawbytes', b'\x09\x21\x00\x00')]
        W.servers.append(srv)
        return srv
    W.force_ok = False

    def resolve():
        i = len(W.net.conns) + W.net.refused
        return 'ok' if W.force_ok else plan[min(i, len(plan) - 1)]

    class PlanEndpoints(dict):
        def get(self, key, default=None):
            return 'refuse' if resolve() == 'refuse' else endpoint
    W.net.endpoints = PlanEndpoints()

    budget = [MAX_HANDLER_RECONNECTS]

    def on_exc(exc, info):
        name = type(exc).__name__
        errs.append(name)
        S.event('error', name)
        # the reconnecting handler reacts to failures of the conversation,
        # not to the noise a user-side disconnect() produces in the
        # networking thread (ValueError / EOFError / OSError on the closed
        # transport - allowed by every listed property)
        if hr and budget[0] > 0 and name in RECONNECT_ON:
            budget[0] -= 1
            conn.connect()

    conn = W.connection(allowed_versions={V}, handle_exit=lambda:
                        exits.append(1))
    conn.register_exception_handler(on_exc)

    def on_ka(p):
        if p.keep_alive_id == 99:
            conn.disconnect()
            conn.connect()
    conn.register_packet_listener(on_ka, clientbound.play.KeepAlivePacket)
    statuses = []
    probe = [1000]
    settled = True
    stats = {'max_racing': 0}
    if racing:
        S.state_fn = statehash.make_state_fn(
            W, CANON, [conn], extra=lambda: (errs, exits, m.key(), plan, hr,
                                             history))

    def check_invariants(where):
        if getattr(S, 'max_in_run', 0) > 1:
            viol.append(('two-threads-in-io-loop', '%d networking threads '
                         'were inside their I/O loop at the same time (%s)'
                         % (S.max_in_run, where)))
        att = len(W.net.conns) + W.net.refused
        if att != m.tcp:
            viol.append(('tcp-count', 'after %s the client has attempted %d '
                         'TCP connections, the reference model says %d'
                         % (where, att, m.tcp)))

    def probe_play(where):
        """A live play conversation must keep answering keep-alives."""
        srv = W.servers[-1]
        n = probe[0]        # a constant id: no history-dependent residue
        before = len(srv.play_rx)
        srv.play(('keepalive', n))
        W.settle()
        got = [r for r in srv.play_rx[before:] if r == ('keepalive', n)]
        if len(got) != 1:
            viol.append(('conversation-disturbed', 'after %s the active '
                         'conversation does not answer keep-alive %d '
                         '(received %r, server errors %r, client errors %r)'
                         % (where, n, srv.play_rx[before:], srv.errors,
                            errs)))

    def quiescent_checks(where):
        check_invariants(where)
        live = S.live()
        if m.active and m.in_play:
            if len(live) != 1:
                viol.append(('thread-count', 'after %s the model is in play '
                             'but live threads are %r' % (where, live)))
            else:
                probe_play(where)
        elif m.active and m.kind == 'stall' and m.call == 'connect':
            if len(live) != 1:
                viol.append(('thread-count', 'after %s the client should be '
                             'waiting inside a frame, live threads are %r'
                             % (where, live)))
        elif not m.active:
            if live:
                viol.append(('thread-survives', 'after %s no conversation is '
                             'active but these threads are alive: %r '
                             '(stuck: %r)' % (where, live, S.stuck())))
        real = [e for e in errs if e not in NOISE]
        if len(real) != m.errors:
            viol.append(('error-count', 'after %s these errors were reported '
                         '%r, the reference model expects %d (transport '
                         'noise after a user disconnect not counted)'
                         % (where, errs, m.errors)))

    for i, op in enumerate(history):
        where = 'op %d (%s) of %r' % (i, op, list(history))
        if op in ('connect', 'status'):
            want = m.start(op)
            try:
                if op == 'connect':
                    conn.connect()
                else:
                    conn.status(handle_status=statuses.append,
                                handle_ping=False)
                got = 'ok'
            except InvalidState:
                got = 'invalid'
            except ConnectionRefusedError:
                got = 'refused'
            except Exception as e:
                got = 'raised %s: %s' % (type(e).__name__, e)
            if got != want:
                viol.append(('call-result', '%s: %s() -> %s, expected %s'
                             % (where, op, got, want)))
                break
            settled = False
            check_invariants(where)
        elif op in ('disc', 'disc_imm'):
            m.stop()
            try:
                conn.disconnect(immediate=(op == 'disc_imm'))
            except Exception as e:
                viol.append(('disconnect-raised', '%s: disconnect() raised '
                             '%s: %s' % (where, type(e).__name__, e)))
                break
            settled = False
        elif op == 'settle':
            m.process()
            nlive = len([a for a in S.live() if a.state != 'parked'])
            stats['max_racing'] = max(stats['max_racing'], nlive)
            S.window = racing
            try:
                W.settle()
            finally:
                S.window = False
            settled = True
            quiescent_checks(where)
        elif op in ('ka99', 'kick', 'garbage'):
            srv = W.servers[-1]
            if op == 'ka99':
                m.listener_reconnect()
                srv.play(('keepalive', 99))
            elif op == 'kick':
                m.exits += 1
                m.stop()
                srv.play(('disconnect', '{"text":"bye"}'))
            else:
                m.error_path()
                srv.play(('raw', 0x21, b'\x01'))
            W.settle()
            settled = True
            quiescent_checks(where)
        if viol:
            break
    state = None
    if not viol:
        state = h64(repr(abstract_state(W, conn, m, settled, budget[0])))
    en, mk = enabled_ops(m, settled), m.key()
    if final_probe and not viol:
        # whatever happened: disconnect, everything ends, and the same object
        # connects again
        where = 'final disconnect after %r' % (list(history),)
        try:
            conn.disconnect()
        except Exception as e:
            viol.append(('disconnect-raised', '%s: disconnect() raised %s: %s'
                         % (where, type(e).__name__, e)))
        else:
            m.stop()
            W.settle()
            for s in W.servers:
                s.close()
            W.settle()
            if S.live():
                viol.append(('thread-survives', '%s: threads still alive: %r'
                             % (where, S.live())))
            else:
                W.force_ok = True
                hr_saved, budget[0] = budget[0], 0
                try:
                    conn.connect()
                except Exception as e:
                    viol.append(('not-reusable', 'after %r the connection '
                                 'cannot connect again: %s: %s'
                                 % (list(history), type(e).__name__, e)))
                else:
                    W.settle()
                    m.active, m.in_play = True, True
                    m.tcp += 1
                    if type(conn.reactor).__name__ != 'PlayingReactor':
                        viol.append(('not-reusable', 'after %r a new '
                                     'connect() did not reach the play state '
                                     '(reactor %s, errors %r)'
                                     % (list(history),
                                        type(conn.reactor).__name__, errs)))
                    else:
                        probe_play('the final reconnect')
            check_invariants(where)
    return {'outcome': (tuple(errs), len(exits), len(W.net.conns),
                        W.net.refused, mk),
            'violations': viol, 'state': state,
            'enabled': en, 'mkey': mk, 'max_racing': stats['max_racing']}


def abstract_state(W, conn, m, settled, budget):
    """Canonical form used to merge histories in the BFS.  Two histories are
    merged when the reference model, every attribute of the Connection
    (generic walk; transport objects reduced to open/closed, threads to
    alive/interrupted), every live thread's scheduler state and every TCP
    connection that is still open look the same.  Dropped on purpose:
    descriptor numbers, byte counters and closed connections (they cannot
    influence the future), and the exception object kept for inspection."""
    S = W.S

    def ab(x, depth=3):
        t = type(x)
        if x is None or t in (int, float, str, bytes, bool):
            return x
        if t in (list, tuple) or t.__name__ in ('deque', 'CDeque'):
            return tuple(ab(v, depth) for v in x)
        if t is dict:
            if x and all(isinstance(v, type) for v in x.values()):
                return ('typemap', len(x))
            return tuple(sorted((repr(ab(k, depth)), ab(v, depth))
                                for k, v in x.items()))
        if t in (set, frozenset):
            return tuple(sorted(repr(ab(v, depth)) for v in x))
        n = t.__name__
        if n == 'CRLock':
            return ('lock', x.owner is not None, x.count)
        if n == 'VSocket':
            return ('sock', x.closed, x.close_requested)
        if n == 'VFile':
            return ('file', x.closed)
        if n == 'NetworkingThread':
            a = getattr(x, '_vf_agent', None)
            return ('nt', a.state if a is not None else None,
                    getattr(x, 'interrupt', None),
                    ab(getattr(x, 'previous_thread', None), 1)
                    if depth > 1 else None)
        if isinstance(x, BaseException):
            return ('exc', n)
        if isinstance(x, type):
            return ('type', n)
        if callable(x) and not hasattr(x, '__dict__'):
            return ('fn', getattr(x, '__qualname__', n))
        if n.endswith('Packet'):
            return ('pkt', n)
        mod = t.__module__ or ''
        if mod.startswith('vf'):
            return ('vf', n)
        if depth <= 0:
            return ('obj', n)
        d = getattr(x, '__dict__', None)
        if d is None:
            return ('obj', n)
        return ('obj', n, tuple(sorted(
            (k, ab(v, depth - 1)) for k, v in d.items()
            if k not in ('exception', 'exc_info'))))

    agents = tuple((a.name, a.state, a.kind, getattr(a.obj, 'interrupt', None))
                   for a in S.agents[1:] if a.state != 'done')
    conns = tuple((getattr(c.server, 'kind', None), c.server.state,
                   c.eof_pending, c.s2c_eof, len(c.s2c), len(c.outbox),
                   c.wr_shutdown, c.rd_shutdown, c.sock_closed,
                   c.file_closed)
                  for c in W.net.conns
                  if not (c.sock_closed and c.file_closed))
    mk = (min(m.tcp, len(m.plan) - 1),) + m.key()[1:]
    return (mk, settled, budget, ab(conn), agents, conns)


def run_history(plan, hr, history, final_probe=True):
    return harness.run(lambda W: body(W, plan, hr, history, final_probe),
                       horizon=100000)


def w_level(ctx, task):
    """Run a batch of histories; report states, violations, successors."""
    out = []
    for plan, hr, history in task:
        x = run_history(plan, hr, history)
        ctx.count()
        ctx.traces += 1
        ctx.transitions += len(history)
        res = x.result or {}
        viol = list(res.get('violations', ()))
        if x.failure is not None:
            viol.append((x.failure[0], '%s: %s' % x.failure))
        for key, what in viol:
            ctx.violation('history %s' % key, what,
                          {'part': 'history', 'plan': list(plan), 'hr': hr,
                           'history': list(history)})
        ctx.outcome('errs=%s exits=%s' % (res.get('outcome', ('?',))[0:2]))
        if not viol:
            out.append((plan, hr, history, res['state'], res['enabled'],
                        res['max_racing']))
    ctx.extra['lvl'] = out


RACY = []      # histories with >= 2 runnable threads at a settle
RACY_DEPTH = [7]


def bfs(ctx, depth, dedup=True, label='bfs'):
    """dedup=False: every history up to the depth is executed (no state
    abstraction is trusted); dedup=True: histories are merged on
    abstract_state() and the search runs towards a fixpoint."""
    seen = set()
    frontier = [(plan, hr, ()) for plan in PLANS for hr in (False, True)]
    for d in range(depth + 1):
        tasks = [frontier[i:i + 16] for i in range(0, len(frontier), 16)]
        sub = ctx.fork()
        sub.pmap(w_level, tasks)
        lvl = sub.extra.pop('lvl', [])
        sub.extra.pop('lvl', None)
        ctx.absorb(sub)
        if ctx.violations:
            return
        nxt = []
        for plan, hr, history, state, enabled, racing in sorted(lvl):
            if racing >= 2 and (not dedup or len(history) <= RACY_DEPTH[0]):
                RACY.append((plan, hr, history))
            key = (plan, hr, state) if dedup else (plan, hr, history)
            if key in seen:
                continue
            seen.add(key)
            ctx.state((plan, hr, state))
            ctx.note((plan, hr, history))
            if d < depth:
                for op in enabled:
                    nxt.append((plan, hr, history + (op,)))
        ctx.cls('%s depth %d: histories=%d successors=%d'
                % (label, d, len(frontier), len(nxt)))
        frontier = nxt
        if not frontier:
            if d < depth:
                ctx.extra[label + '_fixpoint_at_depth'] = d
            break
    ctx.extra[label + '_depth'] = depth
    ctx.extra[label + '_distinct'] = len(seen)


# ---------------------------------------------------------------------------
# (b) schedules

STARTS = ('fresh', 'play', 'disconnected', 'refused')
# extra start state used by a few programs only: a multi-version connect()
# has been issued and its status query is in flight
NEGOTIATING = 'negotiating'
ENCRYPTING = 'encrypting'      # connect() issued, server will ask for encryption
STATUSING = 'statusing'        # status() issued, reply not yet processed
PLAY_MULTI = 'play_multi'      # in play, every connect() negotiates the version
SILENT = 'negotiating_silent'  # as NEGOTIATING, the first server never answers
PLAY_HR = 'play_hr'            # in play; the exception handler reconnects
LOGGING_IN = 'logging_in'      # connect() issued, login success not yet processed
COMPRESSING = 'compressing'    # connect() issued, server will set compression
PROGS = {
    'connect||connect': ([('connect',)], [('connect',)]),
    'connect||disc': ([('connect',)], [('disc',)]),
    'connect||status': ([('connect',)], [('status',)]),
    'disc||disc': ([('disc',)], [('disc_imm',)]),
    'disc,connect||disc': ([('disc',), ('connect',)], [('disc',)]),
    'connect,disc||connect': ([('connect',), ('disc',)], [('connect',)]),
    # the networking thread ends (server kick / decoder error) while a user
    # thread calls in: only from the 'play' start state
    'kick||connect': ([('srv_kick',), ('connect',)], []),
    'garbage||connect': ([('srv_garbage',), ('connect',)], []),
    'kick||disc,connect': ([('srv_kick',), ('disc',), ('connect',)], []),
    # a listener reconnects from the networking thread (disconnect();
    # connect()) while a user thread calls in
    'ka99||status': ([('srv_ka99',), ('status',)], []),
    'ka99||disc,status': ([('srv_ka99',), ('disc',), ('status',)], []),
}
SERVER_PROGS = ('kick||connect', 'garbage||connect', 'kick||disc,connect',
                'ka99||status', 'ka99||disc,status')


def sched_body(W, start, prog):
    S, C = W.S, W.C
    install_run_monitor(C)
    S.in_run = S.max_in_run = 0
    from minecraft.exceptions import InvalidState
    errs, exits = [], []
    results = {}
    refuse_first = start == 'refused'
    state = {'n': 0}

    class Ep(dict):
        def get(self, key, default=None):
            i = len(W.net.conns) + W.net.refused
            if refuse_first and i == 0:
                return 'refuse'
            return factory
    from vf.refserver import RefServer, status_json
    from vf import protoids

    # (from the multi-version play state the server runs the OLDER allowed
    # version: a fallback to the default version then shows)
    SRV_V, SRV_NAME = (340, '1.12.2') \
        if start in (PLAY_MULTI, NEGOTIATING, SILENT) \
        else (V, '1.18.1')

    def factory(conn):
        login = [('success',)]
        if start == ENCRYPTING and not W.servers:
            login = [('encrypt', 'srv', b'\x01\x02\x03\x04'), ('success',)]
        if start == COMPRESSING and not W.servers:
            login = [('compress', 64), ('success',)]
        srv = RefServer(conn, protoids.ids, W.rank, login=login,
                        rsa=harness.rsa_key(),
                        status={'json': status_json(protocol=SRV_V,
                                                    name=SRV_NAME),
                                'silent': start == SILENT and
                                not W.servers})
        W.servers.append(srv)
        return srv
    W.net.endpoints = Ep()
    conn = W.connection(allowed_versions={V, 340}
                        if start in (NEGOTIATING, PLAY_MULTI, SILENT)
                        else {V},
                        handle_exception=lambda e, i: on_error(e),
                        handle_exit=lambda: exits.append(1))
    from minecraft.networking.packets import clientbound

    def on_error(e):
        errs.append(type(e).__name__)
        # from PLAY_HR the final exception handler reconnects (once) when the
        # conversation failed - from the dying networking thread, while user
        # threads call in
        if start == PLAY_HR and type(e).__name__ in RECONNECT_ON and \
                'H0:connect' not in results:
            # (logged like a user call: it is one, made by user code)
            S.event('call', 'H0:connect')
            try:
                conn.connect()
                results['H0:connect'] = 'ok'
            except InvalidState:
                results['H0:connect'] = 'invalid'
            except ConnectionRefusedError:
                results['H0:connect'] = 'refused'
            S.event('ret', 'H0:connect', results['H0:connect'])

    def on_ka(p):
        if p.keep_alive_id == 99:
            try:
                conn.disconnect()
                conn.connect()
                results['listener:reconnect'] = 'ok'
            except InvalidState:
                results['listener:reconnect'] = 'invalid'
    conn.register_packet_listener(on_ka, clientbound.play.KeepAlivePacket)
    if start in ('play', 'disconnected', PLAY_MULTI, PLAY_HR):
        conn.connect()
        W.settle()
        if start == 'disconnected':
            conn.disconnect()
            W.settle()
    elif start == 'refused':
        try:
            conn.connect()
        except ConnectionRefusedError:
            pass
    elif start in (NEGOTIATING, ENCRYPTING, LOGGING_IN, COMPRESSING):
        conn.connect()          # first packets sent, reply not yet processed
    elif start == SILENT:
        conn.connect()
        W.settle()              # request delivered; the thread waits for a reply
    elif start == STATUSING:
        conn.status(handle_status=lambda s: None, handle_ping=lambda ms: None)
    viol = []

    def do(tid, i, op):
        tag = '%s%d:%s' % (tid, i, op[0])
        S.event('call', tag)
        try:
            if op[0] == 'connect':
                conn.connect()
            elif op[0] == 'status':
                conn.status(handle_status=lambda s: None, handle_ping=False)
            elif op[0] == 'disc':
                conn.disconnect()
            elif op[0] == 'disc_imm':
                conn.disconnect(immediate=True)
            elif op[0] == 'srv_kick':
                W.servers[-1].play(('disconnect', '{"text":"bye"}'))
            elif op[0] == 'srv_garbage':
                W.servers[-1].play(('raw', 0x21, b'\x01'))
            elif op[0] == 'srv_close':
                W.servers[-1].play(('close',))
            elif op[0] == 'srv_ka99':
                W.servers[-1].play(('keepalive', 99))
            results[tag] = 'ok'
        except InvalidState:
            results[tag] = 'invalid'
        except ConnectionRefusedError:
            results[tag] = 'refused'
        except Exception as e:
            results[tag] = 'raised %s' % type(e).__name__
            if op[0].startswith('disc'):
                viol.append(('disconnect-raised', 'disconnect() raised %s: '
                             '%s' % (type(e).__name__, e)))
            else:
                viol.append(('call-raised', '%s() raised %s: %s'
                             % (op[0], type(e).__name__, e)))
        S.event('ret', tag, results[tag])

    def runner(tid, ops):
        def f():
            for i, op in enumerate(ops):
                do(tid, i, op)
        return f

    S.state_fn = statehash.make_state_fn(W, CANON, [conn],
                                         extra=lambda: (results, errs, exits))
    base_tcp = len(W.net.conns) + W.net.refused
    S.window = True
    a = S.spawn(runner('A', PROGS[prog][0]), name='userA')
    b = S.spawn(runner('B', PROGS[prog][1]), name='userB')
    S.join(a)
    S.join(b)
    S.wait_quiescent()
    S.window = False
    W.settle()
    if S.max_in_run > 1:
        viol.append(('two-threads-in-io-loop', '%d networking threads were '
                     'inside their I/O loop at the same time'
                     % S.max_in_run))
    # the last thing any caller asked for was a disconnect (and no listener
    # reconnects in this program): the connection must end up dead
    # Calls that overlap in time may take effect in either order, so only
    # real-time order is judged: a disconnect CALLED after every accepted
    # connect()/status() had RETURNED (and followed by no further start)
    # must win; likewise an accepted connect() called after every
    # disconnect had returned must survive.
    evs = [(i, ev) for i, ev in enumerate(S.log)
           if ev[0] in ('call', 'ret')]
    calls = {ev[1]: i for i, ev in evs if ev[0] == 'call'}
    retsd = {ev[1]: (i, ev[2]) for i, ev in evs if ev[0] == 'ret'}

    def kind(tag):
        return tag.split(':')[1]
    starts_ok = [t for t in retsd if kind(t) in ('connect', 'status')
                 and retsd[t][1] == 'ok']
    discs = [t for t in retsd if kind(t) in ('disc', 'disc_imm')]
    last_disc = max(discs, key=lambda t: calls[t]) if discs else None
    rets = []
    if last_disc is not None and retsd[last_disc][1] == 'ok' and all(
            retsd[t][0] < calls[last_disc] for t in starts_ok) and not any(
            calls[t] > calls[last_disc] for t in calls
            if kind(t) in ('connect', 'status')):
        rets = [('ret', last_disc, 'ok')]
    last_conn = max((t for t in starts_ok if kind(t) == 'connect'),
                    key=lambda t: calls[t], default=None)
    conn_last = last_conn is not None and all(
        retsd[t][0] < calls[last_conn] for t in discs) and not any(
        calls[t] > calls[last_conn] for t in calls
        if kind(t) in ('disc', 'disc_imm', 'status', 'connect'))
    if rets and 'ka99' not in prog:
        if S.live():
            viol.append(('disconnect-lost', 'the last call was %s and it '
                         'returned normally, yet afterwards the connection '
                         'is alive: threads %r, reactor %s'
                         % (rets[-1][1], S.live(),
                            type(conn.reactor).__name__)))
    if conn_last and 'ka99' not in prog and not viol:
        rets = [('ret', last_conn, 'ok')]
        # the last call was an accepted connect(): that connection must be
        # up (nobody asked for it to end)
        srv_l = W.servers[-1] if W.servers else None
        alive = bool(S.live()) and \
            type(conn.reactor).__name__ == 'PlayingReactor'
        if alive:
            srv_l.play(('keepalive', 4141))
            W.settle()
            alive = ('keepalive', 4141) in srv_l.play_rx
        if alive and start in (PLAY_MULTI, NEGOTIATING, SILENT) and \
                srv_l.version != SRV_V:
            # observed, not judged (C16 says nothing about versions and C09
            # does not quantify over schedules, see DESIGN.md 9.3): the end
            # of stream of the OLD status connection is handed to the NEW
            # connection's negotiation reactor, which falls back to the
            # default version although its own server answered
            errs.append('observation: stale end of stream made the new '
                        'connection fall back to the default version')
        if not alive:
            viol.append(('connect-lost', 'the last call was %s, it was '
                         'accepted, nobody disconnected afterwards, yet the '
                         'connection is not a live play connection (threads '
                         '%r, reactor %s, errors %r)'
                         % (rets[-1][1], S.live(),
                            type(conn.reactor).__name__, errs)))
    opened = len(W.net.conns) + W.net.refused - base_tcp
    okcalls = sum(1 for k, v in results.items()
                  if v == 'ok' and k.split(':')[1] in ('connect', 'status',
                                                       'reconnect'))
    # (server-side triggers 'srv_*' are not calls of the client API)
    if opened != okcalls and start not in (NEGOTIATING, PLAY_MULTI, SILENT):
        viol.append(('tcp-count', '%d TCP connections were opened by %d '
                     'accepted connect()/status() calls (%r)'
                     % (opened, okcalls, results)))
    # a refusal must be justified: some other call was active at the time.
    # With two threads and one connection object at least one of two
    # simultaneous starts on an idle connection must succeed.
    starts = [v for k, v in results.items()
              if k.split(':')[1] in ('connect', 'status')]
    if starts and start in ('fresh', 'disconnected', 'refused') and \
            'ok' not in starts and 'refused' not in starts:
        viol.append(('all-refused', 'every connect()/status() on an idle '
                     'connection was refused: %r' % (results,)))
    # finally: disconnect ends everything and the object is reusable
    try:
        conn.disconnect()
    except Exception as e:
        viol.append(('disconnect-raised', 'final disconnect() raised %s: %s'
                     % (type(e).__name__, e)))
    W.settle()
    for s in W.servers:
        s.close()
    W.settle()
    if S.live():
        viol.append(('thread-survives', 'after the final disconnect these '
                     'threads are alive: %r (stuck %r)'
                     % (S.live(), S.stuck())))
    elif not viol:
        refuse_first = False
        try:
            conn.connect()
            W.settle()
            srv = W.servers[-1]
            srv.play(('keepalive', 4242))
            W.settle()
            if ('keepalive', 4242) not in srv.play_rx:
                viol.append(('not-reusable', 'after the schedule a new '
                             'connection does not answer keep-alives '
                             '(reactor %s, errors %r)'
                             % (type(conn.reactor).__name__, errs)))
        except Exception as e:
            viol.append(('not-reusable', 'connect() after everything ended '
                         'raised %s: %s' % (type(e).__name__, e)))
    outcome = (tuple(sorted(results.items())), tuple(sorted(set(errs))),
               len(exits), opened)
    return {'outcome': outcome, 'violations': viol}


def factory(params):
    start, prog = params['start'], params['prog']

    def scenario(prefix, expect, visited=None, budget=0):
        return harness.run(lambda W: sched_body(W, start, prog), prefix,
                           tracing=True, expect=expect, horizon=60000,
                           visited=visited, budget=budget if budget != 'replay' else 0,
                           lenient=budget == 'replay')
    return scenario


def racing_factory(params):
    plan, hr, history = (tuple(params['plan']), params['hr'],
                         tuple(params['history']))

    def scenario(prefix, expect, visited=None, budget=0):
        return harness.run(lambda W: body(W, plan, hr, history, True, True),
                           prefix, tracing=True, expect=expect,
                           horizon=100000, visited=visited, budget=budget if budget != 'replay' else 0,
                           lenient=budget == 'replay')
    return scenario


QUICK_B = {(s, p): 1 for s in STARTS for p in PROGS
           if (p in SERVER_PROGS) == False}
QUICK_B.update({('play', p): 1 for p in SERVER_PROGS})
QUICK_B[('play', 'ka99||disc,status')] = 2
PROGS['disc'] = ([('disc',)], [])
PROGS['disc_imm'] = ([('disc_imm',)], [])
QUICK_B[(NEGOTIATING, 'disc')] = 1
QUICK_B[(NEGOTIATING, 'disc_imm')] = 1
QUICK_B[(ENCRYPTING, 'disc')] = 1
QUICK_B[(ENCRYPTING, 'disc_imm')] = 1
PROGS['disc,connect'] = ([('disc',), ('connect',)], [])
QUICK_B[(STATUSING, 'disc,connect')] = 1
QUICK_B[(STATUSING, 'disc')] = 1
QUICK_B[(NEGOTIATING, 'disc,connect')] = 1
for _s in (LOGGING_IN, COMPRESSING, ENCRYPTING):
    QUICK_B[(_s, 'disc,connect')] = 1
QUICK_B[(LOGGING_IN, 'disc')] = 1
for _p in ('disc', 'disc_imm', 'disc,connect'):
    QUICK_B[(SILENT, _p)] = 1
PROGS['close||disc,connect'] = ([('srv_close',), ('disc',), ('connect',)], [])
PROGS['garbage||disc,connect'] = ([('srv_garbage',), ('disc',), ('connect',)],
                                  [])
for _p in ('close||disc,connect', 'garbage||disc,connect',
           'kick||disc,connect'):
    QUICK_B[(PLAY_MULTI, _p)] = 1
QUICK_B[('play', 'close||disc,connect')] = 1
PROGS['garbage||disc'] = ([('srv_garbage',), ('disc',)], [])
PROGS['garbage||disc||connect'] = ([('srv_garbage',), ('disc',)],
                                   [('connect',)])
for _p in ('garbage||disc', 'garbage||connect', 'garbage||disc,connect',
           'garbage||disc||connect'):
    QUICK_B[(PLAY_HR, _p)] = 1
THOROUGH_DEEPER = {(NEGOTIATING, 'disc'), (NEGOTIATING, 'disc_imm'),
                   (COMPRESSING, 'disc,connect'), (LOGGING_IN, 'disc'),
                   (STATUSING, 'disc'), (STATUSING, 'disc,connect'),
                   (SILENT, 'disc'), (SILENT, 'disc_imm'),
                   (PLAY_HR, 'garbage||connect')}
THOROUGH_ONLY = {(ENCRYPTING, 'disc,connect'),      # (COMPRESSING covers it)
                 (PLAY_HR, 'garbage||disc'), (PLAY_HR, 'garbage||disc,connect'),
                 (PLAY_MULTI, 'close||disc,connect'),
                 (PLAY_MULTI, 'garbage||disc,connect'),
                 ('play', 'garbage||disc,connect')}
QUICK_B[(NEGOTIATING, 'close||disc,connect')] = 0
QUICK_B[('play', 'garbage||disc,connect')] = 1
QUICK_B.update({('play', 'connect||disc'): 2, ('fresh', 'connect||connect'): 2})


def run(ctx):
    import time
    t0 = time.time()

    def lap(name):
        ctx.extra['seconds_' + name] = round(time.time() - t0, 1)
    only = os.environ.get('VERIF_C16_ONLY')      # development aid
    if only:
        ex = explore.Explorer(table_bits=23)
        try:
            for (start, prog), b in sorted(QUICK_B.items()):
                if only in '%s %s' % (start, prog):
                    b += int(os.environ.get('VERIF_C16_EXTRA', '0'))
                    res = ex.explore(ctx, factory,
                                     {'start': start, 'prog': prog}, b,
                                     label='sched %s %s ' % (start, prog))
                    print('  %s %s bound=%d execs=%d pruned=%d outcomes=%d'
                          % (start, prog, b, res.execs, res.pruned,
                             len(res.outcomes)))
                    for o, n in sorted(res.outcomes.items(),
                                       key=lambda kv: repr(kv[0])):
                        print('     %6s x %s' % (n, str(o)[:300]))
        finally:
            ex.close()
        return
    # every history up to a depth, no abstraction trusted
    RACY_DEPTH[0] = 12 if ctx.thorough else 6
    bfs(ctx, 5 if ctx.thorough else 4, dedup=False, label='all_histories')
    if ctx.violations:
        return
    lap('all_histories')
    # merged on the abstract state: deeper, towards a fixpoint
    bfs(ctx, 40 if ctx.thorough else 12, dedup=True, label='merged')
    if ctx.violations:
        return
    lap('merged_bfs')
    ex = explore.Explorer(table_bits=25 if ctx.thorough else 23)
    try:
        # (c) histories in which several networking threads are runnable at
        # a settle: every order in which they can take their turns
        racy = sorted(set(RACY))
        ctx.extra['racing_histories'] = len(racy)
        for plan, hr, history in racy:
            res = ex.explore(ctx, racing_factory,
                             {'plan': list(plan), 'hr': hr,
                              'history': list(history)},
                             1 if ctx.thorough else 0,
                             label='racing %s ' % ','.join(history),
                             fresh_table=ctx.thorough)
            ctx.cls('racing histories explored')
        lap('racing')
        for (start, prog), b in sorted(QUICK_B.items()):
            if ctx.thorough:
                # one more preemption for the quiescent start states and a
                # few of the in-conversation ones (the others multiply too
                # fast: their executions cannot be cut at visited states
                # while RSA padding or many threads are in play)
                if start in STARTS or (start, prog) in THOROUGH_DEEPER:
                    b += 1
            elif (start, prog) in THOROUGH_ONLY:
                continue
            res = ex.explore(ctx, factory, {'start': start, 'prog': prog}, b,
                             label='sched %s %s ' % (start, prog))
            ctx.cls('sched %s %s bound=%d' % (start, prog, b))
            ctx.extra['sched %s %s' % (start, prog)] = {
                'preemption_bound': b, 'complete_executions': res.execs,
                'cut_at_visited_state': res.pruned,
                'distinct_outcomes': len(res.outcomes)}
            lap('sched %s %s' % (start, prog))
    finally:
        ex.close()
    ctx.sample({'history': ['connect', 'settle', 'ka99', 'disc', 'connect'],
                'plan': ['ok', 'refuse', 'ok'], 'handler_reconnects': True})
    ctx.sample({'schedule of': 'connect||disc', 'start': 'play',
                'choices': '[0, 0, 1, ...]'})


def _note_divergence(x):
    if getattr(x, 'diverged', False):
        print('  note: the recorded schedule cannot be followed on this tree '
              '(different choice points); what the execution did instead is '
              'judged below')


def replay(ctx, case):
    harness.setup()
    ctx.count()
    if case.get('part') == 'history':
        x = run_history(tuple(case['plan']), case['hr'],
                        tuple(case['history']))
        res = x.result or {}
        viol = list(res.get('violations', ()))
        if x.failure is not None:
            viol.append((x.failure[0], '%s: %s' % x.failure))
        for key, what in viol:
            ctx.violation('history %s' % key, what, case)
        return
    if 'history' in case['params']:
        scenario = racing_factory(case['params'])
        x = scenario(list(case['choices']), None, None, 'replay')
        _note_divergence(x)
        res = x.result or {}
        viol = list(res.get('violations', ()))
        if x.failure is not None:
            viol.append((x.failure[0], '%s: %s' % x.failure))
        for key, what in viol:
            ctx.violation('racing %s %s' % (
                ','.join(case['params']['history']), key), what, case)
        return
    scenario = factory(case['params'])
    x = scenario(list(case['choices']), None, None, 'replay')
    _note_divergence(x)
    res = x.result or {}
    viol = list(res.get('violations', ()))
    if x.failure is not None:
        viol.append((x.failure[0], '%s: %s' % x.failure))
    for key, what in viol:
        ctx.violation('sched %s %s %s' % (case['params']['start'],
                                          case['params']['prog'], key),
                      what, case)
