"""C15 - a server that stops mid-conversation never hangs or spins the client.

For every reference conversation and EVERY prefix length k of the server's
byte stream (per TCP connection), the server sends exactly k bytes and closes.
The real client runs over vnet under the controlled scheduler, where a
blocked read, an idle poll and a busy loop are different, visible states.
"""
import re

from vf import harness
from vf.refproto import codec
from vf.refserver import status_json
from vf.runner import ToolError

LEVEL = 'fault_enumeration'
RULE = ('Crash points: every prefix length 0..N of the server-to-client byte '
        'stream of every TCP connection of each reference conversation '
        '(plain status query with ping; connect() with status negotiation '
        'then login; login with compression; login with encryption then '
        'compression; play traffic with keep-alives, position, chat, unknown '
        'ids), followed by end-of-stream; quick = every offset with eager '
        'delivery, and byte-wise delivery (one byte per quiescence) on every '
        '3rd offset plus all offsets within 3 bytes of a frame boundary; '
        'thorough = every offset in both delivery modes.  x what follows '
        'the cut on the SAME Connection object: {nothing further; the '
        'exception handler starts the same conversation again (once); the '
        'user does, after everything has ended} for the single-connection '
        'conversations, and for the conversations with a status phase '
        '(cut in the status connection) the library\'s own next connection '
        '(fallback login with the default version, or the negotiated login '
        'after a complete response) x environment {the server accepts it; '
        'the server refuses every further TCP connection}.  Every later '
        'connection runs to its end uncut and is judged in full: the '
        'packets its listeners (early and ordinary) receive and the frames '
        'its server receives must equal those of the same conversation on a '
        'fresh Connection object.  A refused next connection must be '
        'reported as ConnectionRefusedError to the exception handler and in '
        'connection.exception, from a thread that ends without raising.  '
        'Non-trivial = the cut falls inside the '
        'stream (0 < k < N); distinct = distinct (conversation, connection, '
        'offset, delivery, what follows, refusal).  Conversations whose '
        'status queries are ALL cut (a server that never answers status): '
        'with the default version outside the allowed set, and with the '
        'default being the newest allowed version; the documented fallback '
        'is exactly one login with the default version, never a further '
        'query.')
ASSUMPTIONS = ['vnet end-of-stream semantics (read returns b"" forever, '
               'select reports readable) match real sockets '
               '(selftest/vnet_conformance)',
               'a client that performs more than 16 reads after the first '
               'empty read, or exceeds the step horizon, is spinning',
               'what a later connection must deliver and send is taken from '
               'an uncut run of the same conversation on a fresh Connection '
               '(the reference runs; their server-side decoders report no '
               'error and early and ordinary listeners agree)']

K_READS = 16
V = 757


def _chat(text):
    return codec.string('{"text":"%s"}' % text) + codec.sint(0, 1) + \
        codec.uuid_bytes('00000000-0000-0000-0000-000000000000')


PLAY = [('keepalive', 1), ('ppl', 1.5, 64.0, -2.5, 90.0, 10.0, 0, 3),
        ('named', 'play.chat', _chat('hello ' + 'x' * 90)),
        ('raw', 0x7D, b'\x01\x02\x03'), ('raw', 0x1234, b''),
        ('keepalive', 2 ** 40 + 5), ('raw', 0x7E, bytes(range(40)))]

CONVERSATIONS = {
    'status': dict(kind='status', login=None, play=()),
    'negotiate': dict(kind='connect', versions=(757, 47), login=[('success',)],
                      play=[('keepalive', 7)]),
    # the default version lies outside the allowed set, and EVERY status
    # query is cut at the same offset (a server that never answers status):
    # the documented fallback is one login with the default version
    'negotiate-outside': dict(kind='connect', versions=(757, 340),
                              initial=47, all_status=True,
                              login=[('success',)], play=[('keepalive', 7)]),
    # the same with the default version being the NEWEST allowed one (what a
    # Connection without initial_version has)
    'negotiate-newest': dict(kind='connect', versions=(757, 47), initial=757,
                             all_status=True, fallback_ref='login-newest',
                             login=[('success',)], play=[('keepalive', 7)]),
    'compress': dict(kind='connect1', login=[('compress', 64), ('success',)],
                     play=PLAY[:4]),
    'encrypt': dict(kind='connect1',
                    login=[('encrypt', 'srv', b'\x05\x06\x07\x08'),
                           ('compress', 32), ('success',)],
                    play=PLAY[:3]),
    'play': dict(kind='connect1', login=[('success',)], play=PLAY),
    # reference only (never cut): what the documented fallback - one login
    # with the default version - looks like on a fresh Connection
    'login-default': dict(kind='connect1', version=47, login=[('success',)],
                          play=[('keepalive', 7)], ref_only=True),
    'login-newest': dict(kind='connect1', version=757, login=[('success',)],
                         play=[('keepalive', 7)], ref_only=True),
}
FALLBACK_REF = 'login-default'
# what follows the cut: nothing / the exception handler starts the same
# conversation again (once) / the user does, after everything has ended
THENS = (None, 'handler', 'user')


def body(W, name, cut, bytewise, then=None, refuse=False):
    """cut = None (reference run) or (connection index, k).
    then: None | 'handler' | 'user' - who starts the conversation again on
    the same Connection after the cut.  refuse: every TCP connection after
    the cut one is refused."""
    S = W.S
    cv = CONVERSATIONS[name]
    delivered, early, errors, exits, statuses = [], [], [], [], []
    st = {'restarts': 0, 'restart_error': None}

    def per_conn(i):
        d = {}
        if cut is not None and cut[0] == i and not cv.get('all_status'):
            d['limit'] = cut[1]
        return d
    if cv.get('all_status') and cut is not None:
        from vf.refserver import RefServer
        from vf import protoids

        class CutStatus(RefServer):
            def _handle(self, pid, payload):
                first = self.handshake is None
                RefServer._handle(self, pid, payload)
                if first and self.handshake is not None and \
                        self.handshake['next'] == 1:
                    self.conn.limit = cut[1]
                    if cut[1] == 0:
                        self.conn.cut_done = True
                        self.close()

        def factory(conn):
            if len(W.net.conns) > 12:
                # a reconnect loop: stop feeding it; judged by the number
                # of TCP connections
                raise ConnectionRefusedError(111, 'Connection refused')
            srv = CutStatus(conn, protoids.ids, W.rank,
                            status={'json': status_json(protocol=V,
                                                        name='1.18.1')},
                            login=cv['login'], play_script=cv['play'])
            W.servers.append(srv)
            return srv
        W.net.listen('srv', 25565, factory)
    else:
        W.serve(status={'json': status_json(protocol=V, name='1.18.1')},
                login=cv['login'], play_script=cv['play'],
                rsa=harness.rsa_key(), per_conn=per_conn)
    if refuse:
        # the server is gone for good after the cut: it accepts no further
        # TCP connection
        if cut is None:
            raise ToolError('refuse needs a cut')
        inner = dict(W.net.endpoints)

        class Endpoints(dict):
            def get(self, key, default=None):
                if len(W.net.conns) + W.net.refused > cut[0]:
                    return 'refuse'
                return inner.get(key, default)
        W.net.endpoints = Endpoints()

    def start():
        if cv['kind'] == 'status':
            conn.status(handle_status=statuses.append,
                        handle_ping=lambda ms: statuses.append(('ping', ms)))
        else:
            conn.connect()

    def restart():
        st['restarts'] += 1
        st['mark'] = (len(delivered), len(W.net.conns))
        try:
            start()
        except Exception as e:      # observed, not judged here
            st['restart_error'] = '%s: %s' % (type(e).__name__, e)

    def on_exc(e, i):
        errors.append(type(e).__name__)
        if then == 'handler' and cut is not None and not st['restarts']:
            restart()
    kw = dict(handle_exception=on_exc,
              handle_exit=lambda: exits.append(1))
    if cv['kind'] == 'connect':
        kw['allowed_versions'] = set(cv['versions'])
        kw['initial_version'] = cv.get('initial', cv['versions'][1])
    elif cv['kind'] == 'connect1':
        kw['allowed_versions'] = {cv.get('version', V)}
    conn = W.connection(**kw)

    def desc(p):        # ping times depend on the virtual clock
        return re.sub(r'time=-?\d+', 'time=T', harness.describe(p))
    conn.register_packet_listener(lambda p: delivered.append(desc(p)),
                                  W.C.packets.Packet)
    # an early listener sees a packet before the built-in reaction (which
    # may open the next TCP connection) runs: it knows which connection the
    # packet came from
    conn.register_packet_listener(
        lambda p: early.append((len(W.net.conns) - 1, desc(p))),
        W.C.packets.Packet, early=True)
    start()
    W.settle(1 if bytewise else None)
    if cut is None:
        # reference run: the server now closes every connection, so that the
        # complete stream is followed by end-of-stream as well
        streams = [(c.pushed_total, list(_frame_ends(W, c)))
                   for c in W.net.conns]
        for s in W.servers:
            s.close()
        W.settle()
    else:
        streams = None
        # anything still open is closed so that a thread that legitimately
        # waits for more data (cut at a quiet point) sees the end of stream
        for s in W.servers:
            s.close()
        W.settle(1 if bytewise else None)
        if then == 'user' and not S.live():
            restart()
            W.settle(1 if bytewise else None)
            for s in W.servers:
                s.close()
            W.settle(1 if bytewise else None)
    live = S.live()
    return {
        'delivered': delivered, 'errors': errors, 'exits': len(exits),
        'statuses': len(statuses), 'live': [repr(a) for a in live],
        'reads_after_eof': [c.reads_after_eof for c in W.net.conns],
        'client_closed_first': [c.sock_closed and c.reads_after_eof == 0
                                for c in W.net.conns],
        'conns': len(W.net.conns), 'streams': streams,
        'handshakes': [s.handshake for s in W.servers],
        'thread_exc': [type(a.exc).__name__ for a in S.agents
                       if a.exc is not None],
        'early': early, 'sent': [_sent(s) for s in W.servers],
        'refused': W.net.refused,
        'recorded': type(conn.exception).__name__
        if conn.exception is not None else None,
        'restarts': st['restarts'], 'restart_error': st['restart_error'],
        'mark': st.get('mark'),
    }


def _sent(srv):
    """What one server received from the client, as its independent decoder
    saw it.  Left out: the RSA ciphertexts of the encryption response
    (random padding; a wrong secret or token is in srv.errors) and the
    payload of the status ping (the virtual clock)."""
    frames = []
    for f in srv.frames:
        state, pid, payload = f[0], f[1], f[2]
        if (state, pid) in (('login', 1), ('status', 1)):
            payload = b''
        frames.append((state, pid, bytes(payload).hex()) + tuple(f[3:]))
    return {'handshake': srv.handshake, 'frames': frames,
            'errors': list(srv.errors)}


def _frame_ends(W, c):
    """Offsets in the s2c stream at which each server frame ends."""
    return getattr(c, 'frame_ends', ())


def run_one(name, cut, bytewise, then='', refuse=False):
    x = harness.run(lambda W: body(W, name, cut, bytewise, then or None,
                                   refuse),
                    horizon=200000, hold=bytewise, eof_read_limit=K_READS)
    return x


def judge(name, cut, bytewise, ref, x, then='', refuse=False, fb=None):
    """-> list of (key suffix, what).  fb: reference run of the fallback
    login (conversations with a status phase)."""
    out = []
    ci, k = cut
    if x.failure is not None:
        kind, detail = x.failure
        out.append((kind, 'the client %s: %s' % (
            'busy-loops after end of stream' if kind == 'livelock'
            else 'deadlocks', detail)))
        return out
    r = x.result
    if r['live']:
        out.append(('never-terminates', 'after end of stream these threads '
                    'are still alive: %s' % r['live']))
    allowed = len(ref['streams']) * (2 if r['restarts'] else 1)
    if r['conns'] > allowed:
        out.append(('reconnect-loop', 'the client opened %d TCP connections '
                    '(the complete conversation needs %d): an unanswered '
                    'status query must lead to ONE fallback login with the '
                    'default version or to an error, not to another query'
                    % (r['conns'], allowed)))
    if max(r['reads_after_eof'] + [0]) > K_READS:
        out.append(('reads-after-eof', '%r reads after the first empty read'
                    % r['reads_after_eof']))
    # packets delivered: exactly those completely inside the prefix
    total, ends = ref['streams'][ci]
    # frames of the cut connection complete within k, plus all frames of
    # earlier connections; later connections may or may not happen
    refd = ref['delivered']
    nfull = sum(1 for e in ends if e <= k)
    base = ref['per_conn_first'][ci]
    want_min = refd[:base + nfull]
    got = r['delivered']
    if refuse:
        # (when the refused connect() is the built-in reaction to the
        # status response, ordinary listeners rightly never see that
        # packet: the early listeners are the ones to ask)
        got = [d for _, d in r['early']]
    if r['mark'] is not None:
        got = got[:r['mark'][0]]    # up to the restart by handler / user
    if got[:len(want_min)] != want_min[:len(got)] or \
            (len(got) < len(want_min) and not _closed_early(r, ci)):
        out.append(('delivery', 'packets delivered differ from the frames '
                    'completely inside the prefix: got %d %r..., expected '
                    'the first %d of the reference run'
                    % (len(got), [g[:40] for g in got[-2:]],
                       len(want_min))))
    elif len(got) > len(want_min) and not ref['fallback_ok'](ci, r):
        # more packets than the prefix holds on this connection: only
        # legitimate if they come from a later (fallback) connection
        out.append(('partial-packet-delivered',
                    'a packet that the server did not send completely was '
                    'delivered: got %d packets, the prefix of %d bytes holds '
                    '%d: %r' % (len(got), k, len(want_min),
                                [g[:60] for g in got[len(want_min):][:2]])))
    # error or documented fallback, unless the client had finished by itself
    hit_eof = r['reads_after_eof'][ci] > 0 if ci < len(
        r['reads_after_eof']) else False
    if hit_eof and not r['errors'] and not r['thread_exc']:
        fallback = (CONVERSATIONS[name]['kind'] == 'connect' and ci == 0
                    and r['conns'] >= 2)
        if not fallback:
            out.append(('silent', 'the client reached the end of the stream '
                        'but reported no error and took no fallback'))
    if refuse:
        # the fallback login (or, after a complete response, the login) is
        # refused: that error is the one to report, inside the thread
        if 'ConnectionRefusedError' not in r['errors'] or \
                r['recorded'] != 'ConnectionRefusedError':
            out.append(('refusal-not-reported', 'the server refused the '
                        'TCP connection of the login that follows the status '
                        'query (%d refused): the exception handler saw %r, '
                        'connection.exception is %r, expected '
                        'ConnectionRefusedError in both'
                        % (r['refused'], r['errors'], r['recorded'])))
        if r['thread_exc']:
            out.append(('escaped-the-thread', 'the server refused the TCP '
                        'connection of the login that follows the status '
                        'query: %r escaped from the networking thread '
                        'although a final handler is configured'
                        % (r['thread_exc'],)))
    # whatever a later connection of the same Connection object delivers
    # and sends is exactly what the same conversation delivers and sends on
    # a fresh object: nothing of the cut connection may leak into it
    exp = None if any(key == 'reconnect-loop' for key, _ in out) else \
        follow_up(name, ci, k, then, ref, fb, r)
    if exp is not None:
        first_later, exp_early, exp_deliv, exp_sent, why = exp
        later_early = [d for t, d in r['early'] if t >= first_later]
        later_deliv = r['delivered'][r['mark'][0]:] \
            if r['mark'] is not None else None
        later_sent = r['sent'][first_later:]
        bad = None
        if later_early != exp_early:
            bad = ('early listeners', later_early, exp_early)
        elif exp_deliv is not None and later_deliv != exp_deliv:
            bad = ('listeners', later_deliv, exp_deliv)
        if bad is not None:
            n = next((i for i, (a, b) in enumerate(zip(bad[1], bad[2]))
                      if a != b), min(len(bad[1]), len(bad[2])))
            out.append(('later-connection-delivery',
                        '%s: on the connection(s) after the cut %s received '
                        '%d packets, the servers sent %d complete ones; '
                        'first difference at index %d: got %r, sent %r'
                        % (why, bad[0], len(bad[1]), len(bad[2]), n,
                           (bad[1][n:n + 1] or ['nothing'])[0][:120],
                           (bad[2][n:n + 1] or ['nothing'])[0][:120])))
        elif later_sent != exp_sent:
            out.append(('later-connection-sent',
                        '%s: what the client sent on the connection(s) '
                        'after the cut differs from the same conversation '
                        'on a fresh object: %r, expected %r'
                        % (why, _brief(later_sent), _brief(exp_sent))))
    return out


def _brief(sent):
    return [(s['handshake'] and s['handshake']['protocol'],
             [(f[0], f[1], f[2][:16]) for f in s['frames'][:6]],
             s['errors'][:2]) for s in sent]


def follow_up(name, ci, k, then, ref, fb, r):
    """What connections after the cut one must look like: None (not
    judged), or (index of the first later connection, packets early
    listeners get, packets ordinary listeners get after the restart mark or
    None, what each later server receives, description)."""
    cv = CONVERSATIONS[name]
    if then:
        if not r['restarts']:
            # (the handler never ran: the conversation ended by itself)
            return (ci + 1, [], None, [], 'no error, nothing restarted')
        if r['restart_error']:
            return None
        return (r['mark'][1], [d for _, d in ref['early']],
                ref['delivered'], ref['sent'],
                'the %s started the same conversation again on the same '
                'Connection' % ('exception handler' if then == 'handler'
                                else 'user'))
    if cv['kind'] == 'connect' and ci == 0 and r['conns'] > 1:
        total, ends = ref['streams'][0]
        if k < ends[0]:
            return (1, [d for _, d in fb['early']], None, fb['sent'],
                    'fallback login with the default version after the '
                    'unanswered status query')
        return (1, [d for t, d in ref['early'] if t > 0], None,
                ref['sent'][1:], 'login after the complete status response')
    return (ci + 1, [], None, [], 'no later connection')


def _closed_early(r, ci):
    """The client stopped reading connection ci before its end of stream:
    it closed the socket, or (an error reported; the exception handler has
    started a new connection, which leaves the old transport alone) the
    restart happened without any read having met the end of the stream."""
    if ci >= len(r['client_closed_first']):
        return False
    return r['client_closed_first'][ci] or (
        r['mark'] is not None and r['reads_after_eof'][ci] == 0)


def reference(name):
    x = run_one(name, None, False)
    if x.failure or x.result['live'] is None:
        raise ToolError('reference run of %s failed: %r' % (name, x.failure))
    r = x.result
    if any(s['errors'] for s in r['sent']):
        raise ToolError('reference run of %s: server-side decode errors %r'
                        % (name, r['sent']))
    # how many packets were delivered before the first frame of each
    # connection: connections are used one after the other
    per = []
    n = 0
    for total, ends in r['streams']:
        per.append(n)
        n += len(ends)
    r['per_conn_first'] = per
    if [t for t, _ in r['early']] != [i for i, (_, ends) in enumerate(
            r['streams']) for _ in ends] or \
            [d for _, d in r['early']] != r['delivered']:
        raise ToolError('reference run of %s: early listeners saw %r, '
                        'ordinary listeners %r, frames per connection %r'
                        % (name, r['early'], r['delivered'], r['streams']))
    r['fallback_ok'] = lambda ci, rr: (
        CONVERSATIONS[name]['kind'] == 'connect' and ci == 0
        and rr['conns'] >= 2)
    return r


def get_ref(name):
    ref = REFS.get(name)
    if ref is None:
        ref = REFS[name] = reference(name)
    return ref


def offsets(ctx, total, ends, quick_stride):
    if ctx.thorough or quick_stride == 1:
        return list(range(0, total + 1))
    near = set()
    for e in [0, total] + list(ends):
        near.update(range(max(0, e - 3), min(total, e + 3) + 1))
    near.update(range(0, total + 1, quick_stride))
    return sorted(near)


def w_cut(ctx, task):
    name, ci, k, bytewise, then, refuse = task
    ref = get_ref(name)
    fb = get_ref(CONVERSATIONS[name].get('fallback_ref', FALLBACK_REF)) \
        if CONVERSATIONS[name]['kind'] == 'connect' else None
    x = run_one(name, (ci, k), bytewise, then, refuse)
    ctx.count()
    total = ref['streams'][ci][0]
    if 0 < k < total:
        ctx.note((name, ci, k, bytewise, then, refuse))
    on_boundary = k in ref['streams'][ci][1] or k in (0, total)
    variant = (' then=%s' % then if then else '') + \
        (' next-connection-refused' if refuse else '')
    ctx.cls('%s conn%d %s %s%s' % (name, ci, 'bytewise' if bytewise
                                   else 'eager',
                                   'boundary' if on_boundary else 'mid-frame',
                                   variant))
    if x.failure is None:
        r = x.result
        ctx.outcome('%s: errors=%s exits=%d conns=%d%s' % (
            name, ','.join(sorted(set(r['errors']))) or '-', r['exits'],
            r['conns'], variant))
        if r['conns'] > ci + 1 and not on_boundary:
            ctx.cls('a later connection followed a cut inside a frame: %s%s'
                    % (name, variant))
        if refuse and r['refused']:
            ctx.cls('a connection after the cut was refused: %s' % name)
        if r['restart_error']:
            ctx.outcome('%s: restart by the %s failed: %s'
                        % (name, then, r['restart_error']))
    else:
        ctx.outcome('%s: %s' % (name, x.failure[0]))
    for key, what in judge(name, (ci, k), bytewise, ref, x, then, refuse, fb):
        ctx.violation('%s conn%d %s%s %s' % (
            name, ci, 'mid-frame' if not on_boundary else 'boundary',
            variant, key),
            '%s: server stream of connection %d cut after %d of %d bytes '
            '(%s delivery%s%s): %s' % (
                name, ci, k, total, 'byte-wise' if bytewise else 'eager',
                '; afterwards the %s starts the conversation again'
                % ('exception handler' if then == 'handler' else 'user')
                if then else '',
                '; the server accepts no further TCP connection'
                if refuse else '', what),
            {'name': name, 'conn': ci, 'k': k, 'bytewise': bytewise,
             'then': then, 'refuse': refuse})


REFS = {}


def run(ctx):
    # reference runs happen inside workers too (the parent must not run
    # scenario threads before forking, see vf/explore.py)
    tasks = []
    sub = ctx.fork()
    sub.pmap(w_ref, sorted(CONVERSATIONS))
    refs = dict(sub.extra.get('refs', []))
    need = []
    for name in sorted(CONVERSATIONS):
        cv = CONVERSATIONS[name]
        if cv.get('ref_only'):
            continue
        streams = refs[name]
        for ci, (total, ends) in enumerate(streams):
            if cv.get('all_status') and ci > 0:
                continue        # only the status stream is cut here
            eager = offsets(ctx, total, ends, 1)
            bytew = [min(k, total) for k in offsets(ctx, total, ends, 3)]
            for k in eager:
                tasks.append((name, ci, k, False, '', False))
            for k in bytew:
                tasks.append((name, ci, k, True, '', False))
            if cv['kind'] in ('status', 'connect1'):
                # the same Connection is used again after the cut
                for then in THENS[1:]:
                    for k in eager:
                        tasks.append((name, ci, k, False, then, False))
                    for k in bytew:
                        tasks.append((name, ci, k, True, then, False))
                    need.append('a later connection followed a cut inside '
                                'a frame: %s then=%s' % (name, then))
            elif ci == 0:
                # status phase of a connect(): the login that follows (the
                # fallback or the negotiated one) is refused
                for k in eager:
                    tasks.append((name, ci, k, False, '', True))
                for k in bytew:
                    tasks.append((name, ci, k, True, '', True))
                need.append('a connection after the cut was refused: %s'
                            % name)
                need.append('a later connection followed a cut inside a '
                            'frame: %s' % name)
        ctx.extra['stream_bytes_' + name] = [t for t, _ in streams]
    tasks = sorted(set(tasks))
    ctx.pmap(w_cut, tasks, chunksize=4)
    ctx.sample({'conversation': 'encrypt', 'connection': 0, 'cut_after': 37,
                'delivery': 'eager'})
    ctx.sample({'conversation': 'play', 'connection': 0, 'cut_after': 120,
                'delivery': 'eager', 'then': 'user'})
    ctx.sample({'conversation': 'play', 'streams(bytes,frame ends)':
                refs['play']})
    if not ctx.violations:
        for n in need:
            if not ctx.classes.get(n):
                raise ToolError('vacuity guard: class %r was never hit' % n)


def w_ref(ctx, name):
    r = reference(name)
    ctx.extra['refs'] = [(name, r['streams'])]


def replay(ctx, case):
    REFS.clear()
    w_cut(ctx, (case['name'], case['conn'], case['k'], case['bytewise'],
                case.get('then') or '', bool(case.get('refuse'))))
