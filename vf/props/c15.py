"""C15 - a server that stops mid-conversation never hangs or spins the client.

For every reference conversation and EVERY prefix length k of the server's
byte stream (per TCP connection), the server sends exactly k bytes and closes.
The real client runs over vnet under the controlled scheduler, where a
blocked read, an idle poll and a busy loop are different, visible states.
"""
import re

from vf import harness
from vf.refproto import codec
from vf.refserver import status_json
from vf.runner import ToolError

LEVEL = 'fault_enumeration'
RULE = ('Crash points: every prefix length 0..N of the server-to-client byte '
        'stream of every TCP connection of each reference conversation '
        '(plain status query with ping; connect() with status negotiation '
        'then login; login with compression; login with encryption then '
        'compression; play traffic with keep-alives, position, chat, unknown '
        'ids), followed by end-of-stream; quick = every offset with eager '
        'delivery, and byte-wise delivery (one byte per quiescence) on every '
        '3rd offset plus all offsets within 3 bytes of a frame boundary; '
        'thorough = every offset in both delivery modes.  Non-trivial = the cut falls inside the '
        'stream (0 < k < N); distinct = distinct (conversation, connection, '
        'offset, delivery).')
ASSUMPTIONS = ['vnet end-of-stream semantics (read returns b"" forever, '
               'select reports readable) match real sockets '
               '(selftest/vnet_conformance)',
               'a client that performs more than 16 reads after the first '
               'empty read, or exceeds the step horizon, is spinning']

K_READS = 16
V = 757


def _chat(text):
    return codec.string('{"text":"%s"}' % text) + codec.sint(0, 1) + \
        codec.uuid_bytes('00000000-0000-0000-0000-000000000000')


PLAY = [('keepalive', 1), ('ppl', 1.5, 64.0, -2.5, 90.0, 10.0, 0, 3),
        ('named', 'play.chat', _chat('hello ' + 'x' * 90)),
        ('raw', 0x7D, b'\x01\x02\x03'), ('raw', 0x1234, b''),
        ('keepalive', 2 ** 40 + 5), ('raw', 0x7E, bytes(range(40)))]

CONVERSATIONS = {
    'status': dict(kind='status', login=None, play=()),
    'negotiate': dict(kind='connect', versions=(757, 47), login=[('success',)],
                      play=[('keepalive', 7)]),
    # the default version lies outside the allowed set, and EVERY status
    # query is cut at the same offset (a server that never answers status):
    # the documented fallback is one login with the default version
    'negotiate-outside': dict(kind='connect', versions=(757, 340),
                              initial=47, all_status=True,
                              login=[('success',)], play=[('keepalive', 7)]),
    'compress': dict(kind='connect1', login=[('compress', 64), ('success',)],
                     play=PLAY[:4]),
    'encrypt': dict(kind='connect1',
                    login=[('encrypt', 'srv', b'\x05\x06\x07\x08'),
                           ('compress', 32), ('success',)],
                    play=PLAY[:3]),
    'play': dict(kind='connect1', login=[('success',)], play=PLAY),
}


def body(W, name, cut, bytewise):
    """cut = None (reference run) or (connection index, k)."""
    S = W.S
    cv = CONVERSATIONS[name]
    delivered, errors, exits, statuses = [], [], [], []

    def per_conn(i):
        d = {}
        if cut is not None and cut[0] == i and not cv.get('all_status'):
            d['limit'] = cut[1]
        return d
    if cv.get('all_status') and cut is not None:
        from vf.refserver import RefServer
        from vf import protoids

        class CutStatus(RefServer):
            def _handle(self, pid, payload):
                first = self.handshake is None
                RefServer._handle(self, pid, payload)
                if first and self.handshake is not None and \
                        self.handshake['next'] == 1:
                    self.conn.limit = cut[1]
                    if cut[1] == 0:
                        self.conn.cut_done = True
                        self.close()

        def factory(conn):
            if len(W.net.conns) > 12:
                # a reconnect loop: stop feeding it; judged by the number
                # of TCP connections
                raise ConnectionRefusedError(111, 'Connection refused')
            srv = CutStatus(conn, protoids.ids, W.rank,
                            status={'json': status_json(protocol=V,
                                                        name='1.18.1')},
                            login=cv['login'], play_script=cv['play'])
            W.servers.append(srv)
            return srv
        W.net.listen('srv', 25565, factory)
    else:
        W.serve(status={'json': status_json(protocol=V, name='1.18.1')},
                login=cv['login'], play_script=cv['play'],
                rsa=harness.rsa_key(), per_conn=per_conn)
    kw = dict(handle_exception=lambda e, i: errors.append(type(e).__name__),
              handle_exit=lambda: exits.append(1))
    if cv['kind'] == 'connect':
        kw['allowed_versions'] = set(cv['versions'])
        kw['initial_version'] = cv.get('initial', cv['versions'][1])
    elif cv['kind'] == 'connect1':
        kw['allowed_versions'] = {V}
    conn = W.connection(**kw)
    conn.register_packet_listener(
        lambda p: delivered.append(re.sub(r'time=-?\d+', 'time=T',
                                          harness.describe(p))),
        W.C.packets.Packet)      # ping times depend on the virtual clock
    if cv['kind'] == 'status':
        conn.status(handle_status=statuses.append,
                    handle_ping=lambda ms: statuses.append(('ping', ms)))
    else:
        conn.connect()
    W.settle(1 if bytewise else None)
    if cut is None:
        # reference run: the server now closes every connection, so that the
        # complete stream is followed by end-of-stream as well
        streams = [(c.pushed_total, list(_frame_ends(W, c)))
                   for c in W.net.conns]
        for s in W.servers:
            s.close()
        W.settle()
    else:
        streams = None
        # anything still open is closed so that a thread that legitimately
        # waits for more data (cut at a quiet point) sees the end of stream
        for s in W.servers:
            s.close()
        W.settle(1 if bytewise else None)
    live = S.live()
    return {
        'delivered': delivered, 'errors': errors, 'exits': len(exits),
        'statuses': len(statuses), 'live': [repr(a) for a in live],
        'reads_after_eof': [c.reads_after_eof for c in W.net.conns],
        'client_closed_first': [c.sock_closed and c.reads_after_eof == 0
                                for c in W.net.conns],
        'conns': len(W.net.conns), 'streams': streams,
        'handshakes': [s.handshake for s in W.servers],
        'thread_exc': [type(a.exc).__name__ for a in S.agents
                       if a.exc is not None],
    }


def _frame_ends(W, c):
    """Offsets in the s2c stream at which each server frame ends."""
    return getattr(c, 'frame_ends', ())


def run_one(name, cut, bytewise):
    x = harness.run(lambda W: body(W, name, cut, bytewise), horizon=200000,
                    hold=bytewise, eof_read_limit=K_READS)
    return x


def judge(name, cut, bytewise, ref, x):
    """-> list of (key suffix, what)."""
    out = []
    ci, k = cut
    if x.failure is not None:
        kind, detail = x.failure
        out.append((kind, 'the client %s: %s' % (
            'busy-loops after end of stream' if kind == 'livelock'
            else 'deadlocks', detail)))
        return out
    r = x.result
    if r['live']:
        out.append(('never-terminates', 'after end of stream these threads '
                    'are still alive: %s' % r['live']))
    if r['conns'] > len(ref['streams']):
        out.append(('reconnect-loop', 'the client opened %d TCP connections '
                    '(the complete conversation needs %d): an unanswered '
                    'status query must lead to ONE fallback login with the '
                    'default version or to an error, not to another query'
                    % (r['conns'], len(ref['streams']))))
    if max(r['reads_after_eof'] + [0]) > K_READS:
        out.append(('reads-after-eof', '%r reads after the first empty read'
                    % r['reads_after_eof']))
    # packets delivered: exactly those completely inside the prefix
    total, ends = ref['streams'][ci]
    # frames of the cut connection complete within k, plus all frames of
    # earlier connections; later connections may or may not happen
    refd = ref['delivered']
    nfull = sum(1 for e in ends if e <= k)
    base = ref['per_conn_first'][ci]
    want_min = refd[:base + nfull]
    got = r['delivered']
    if got[:len(want_min)] != want_min[:len(got)] or \
            (len(got) < len(want_min) and not _closed_early(r, ci)):
        out.append(('delivery', 'packets delivered differ from the frames '
                    'completely inside the prefix: got %d %r..., expected '
                    'the first %d of the reference run'
                    % (len(got), [g[:40] for g in got[-2:]],
                       len(want_min))))
    elif len(got) > len(want_min) and not ref['fallback_ok'](ci, r):
        # more packets than the prefix holds on this connection: only
        # legitimate if they come from a later (fallback) connection
        out.append(('partial-packet-delivered',
                    'a packet that the server did not send completely was '
                    'delivered: got %d packets, the prefix of %d bytes holds '
                    '%d: %r' % (len(got), k, len(want_min),
                                [g[:60] for g in got[len(want_min):][:2]])))
    # error or documented fallback, unless the client had finished by itself
    hit_eof = r['reads_after_eof'][ci] > 0 if ci < len(
        r['reads_after_eof']) else False
    if hit_eof and not r['errors'] and not r['thread_exc']:
        fallback = (CONVERSATIONS[name]['kind'] == 'connect' and ci == 0
                    and r['conns'] >= 2)
        if not fallback:
            out.append(('silent', 'the client reached the end of the stream '
                        'but reported no error and took no fallback'))
    return out


def _closed_early(r, ci):
    return ci < len(r['client_closed_first']) and r['client_closed_first'][ci]


def reference(name):
    x = run_one(name, None, False)
    if x.failure or x.result['live'] is None:
        raise ToolError('reference run of %s failed: %r' % (name, x.failure))
    r = x.result
    # how many packets were delivered before the first frame of each
    # connection: connections are used one after the other
    per = []
    n = 0
    for total, ends in r['streams']:
        per.append(n)
        n += len(ends)
    r['per_conn_first'] = per
    r['fallback_ok'] = lambda ci, rr: (
        CONVERSATIONS[name]['kind'] == 'connect' and ci == 0
        and rr['conns'] >= 2)
    return r


def offsets(ctx, total, ends, quick_stride):
    if ctx.thorough or quick_stride == 1:
        return list(range(0, total + 1))
    near = set()
    for e in [0, total] + list(ends):
        near.update(range(max(0, e - 3), min(total, e + 3) + 1))
    near.update(range(0, total + 1, quick_stride))
    return sorted(near)


def w_cut(ctx, task):
    name, ci, k, bytewise, refpack = task
    ref = REFS.get(name)
    if ref is None:
        ref = REFS[name] = reference(name)
    x = run_one(name, (ci, k), bytewise)
    ctx.count()
    total = ref['streams'][ci][0]
    if 0 < k < total:
        ctx.note((name, ci, k, bytewise))
    on_boundary = k in ref['streams'][ci][1] or k in (0, total)
    ctx.cls('%s conn%d %s %s' % (name, ci, 'bytewise' if bytewise
                                 else 'eager',
                                 'boundary' if on_boundary else 'mid-frame'))
    if x.failure is None:
        r = x.result
        ctx.outcome('%s: errors=%s exits=%d conns=%d' % (
            name, ','.join(sorted(set(r['errors']))) or '-', r['exits'],
            r['conns']))
    else:
        ctx.outcome('%s: %s' % (name, x.failure[0]))
    for key, what in judge(name, (ci, k), bytewise, ref, x):
        ctx.violation('%s conn%d %s %s' % (
            name, ci, 'mid-frame' if not on_boundary else 'boundary', key),
            '%s: server stream of connection %d cut after %d of %d bytes '
            '(%s delivery): %s' % (name, ci, k, total,
                                   'byte-wise' if bytewise else 'eager',
                                   what),
            {'name': name, 'conn': ci, 'k': k, 'bytewise': bytewise})


REFS = {}


def run(ctx):
    # reference runs happen inside workers too (the parent must not run
    # scenario threads before forking, see vf/explore.py)
    tasks = []
    sub = ctx.fork()
    sub.pmap(w_ref, sorted(CONVERSATIONS))
    refs = dict(sub.extra.get('refs', []))
    for name in sorted(CONVERSATIONS):
        streams = refs[name]
        for ci, (total, ends) in enumerate(streams):
            if CONVERSATIONS[name].get('all_status') and ci > 0:
                continue        # only the status stream is cut here
            for k in offsets(ctx, total, ends, 1):
                tasks.append((name, ci, k, False, None))
            for k in offsets(ctx, total, ends, 3):
                tasks.append((name, ci, min(k, total), True, None))
        ctx.extra['stream_bytes_' + name] = [t for t, _ in streams]
    tasks = sorted(set(tasks))
    ctx.pmap(w_cut, tasks, chunksize=4)
    ctx.sample({'conversation': 'encrypt', 'connection': 0, 'cut_after': 37,
                'delivery': 'eager'})
    ctx.sample({'conversation': 'play', 'streams(bytes,frame ends)':
                refs['play']})


def w_ref(ctx, name):
    r = reference(name)
    ctx.extra['refs'] = [(name, r['streams'])]


def replay(ctx, case):
    ref = reference(case['name'])
    REFS[case['name']] = ref
    w_cut(ctx, (case['name'], case['conn'], case['k'], case['bytewise'],
                None))
