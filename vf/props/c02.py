"""C02 - primitive wire types encode and decode exactly as the protocol
prescribes (scalars, strings, byte arrays, UUID, angle, fixed point,
length-prefixed arrays, the class/instance dispatch of *_with_context)."""
import math
import random
import sys
from fractions import Fraction

from vf.runner import use_repo, ToolError, h64, Ctx
from vf.refproto import codec as ref
from vf.refproto import position as refpos
from vf import explore, interleave

LEVEL = 'exploration'
RULE = (
    'Every case runs the real Type.send into a PacketBuffer (bytes compared '
    'with the struct-free reference codec) and the real Type.read on the '
    'reference bytes followed by the 2 sentinel bytes a5 5a (value and cursor '
    'compared), through the plain entry points and again through '
    'send_with_context/read_with_context.  Exhaustive: Boolean, all 256 '
    'Byte/UnsignedByte, all 65536 Short/UnsignedShort, all 256 Angle wire '
    'bytes, all raw values of FixedPoint over Byte and Short (5 and 12 '
    'fractional bits; grid values exact, in-between values raw+1/4, +1/2, '
    '+3/4 within one quantum; quick: for Short only the in-between values '
    'within 512 raw steps of min, 0 and max), every angle k/16 '
    'degree (thorough: k/64) in [-720, 720] plus all 1024 exact ties in '
    'that range and 256 seed-derived angles on the 1/1024 grid.  Structured '
    'alphabets: '
    'Integer/Long/UnsignedLong and FixedPoint over Integer: min, max, every '
    '+-2^k and +-2^k+-1, every pattern with one byte set to 1..255 and its '
    'complement, 64 seed-derived values; Float/Double: every sign x every '
    'exponent x 8 mantissa patterns as bit patterns plus 64 seed-derived '
    'patterns; String: every UTF-8 width (boundary code points of each '
    'width) padded to byte lengths B-1, B, B+1 for B in 0, 1, 127, 128, '
    '16383, 16384; 26 code points that codecs treat specially (U+FEFF, '
    'U+FFFE, U+FFFF and the other plane-end non-characters, U+0000, U+FFFD, '
    'line breaks, the first and last code point of every UTF-8 width) each '
    'alone, doubled, first, last, in the middle, first and last, and every '
    'ordered pair of U+FEFF, U+FFFE, U+FFFF, U+0000, U+FFFD at the start, at '
    'the end and around a text (encode and decode judged exactly); '
    'plus strings within the 32767-character limit whose UTF-8 '
    'form exceeds 32767 bytes (16384 two-byte, 10923 three-byte, 8192 '
    'four-byte, 32767 three-byte characters; thorough: 32767 characters '
    'of every width); Var/Short-prefixed byte '
    'arrays at lengths 0, 1, 2, 126..129, 255..257, 16383..16385, 32766, '
    '32767 (VarInt prefix also 32768, 65535, 65536; thorough: 2097151 and '
    '2097152); UUID boundary '
    'patterns; TrailingByteArray; PrefixedArray over VarInt/Short/Integer '
    'lengths x 9 element types x element counts 0, 1, 3, pool, 127..129, '
    '255..257 (Byte elements also 16383 and 16384 under a VarInt length; '
    'thorough: under every length type, and 32767), nested arrays over all 9 '
    'length-type pairs, arrays of Position through the context entry points '
    'at protocols 340 and 578; scripted dispatch scenarios.  Then every '
    'strict prefix of every encoding of a self-delimiting type must raise: '
    'all cuts for encodings up to 1024 bytes (thorough: 20000, arrays '
    '4096); for longer ones every cut within the first 8 and the last 8 '
    'bytes plus 16 evenly spaced cuts.  Values are enumerated without '
    'repetition per type (distinct by construction); prefixes are '
    'de-duplicated per type.  '
    'At most 3 failing inputs (the smallest) are reported per failure class; '
    'the total per class is in the evidence.  Concurrency: every pair of '
    '21 encode/decode operations (VarInt, VarLong, String, byte array, '
    'arrays, UUID, Angle, FixedPoint, Position, Long, Double; sends and '
    'reads), and for each of 28 types (the 10 scalars, VarInt, VarLong, '
    'String, UUID, Angle, 3 FixedPoints, Position at 340/340, 340/578 and '
    '578/578, the 3 byte-array types, 4 arrays) the SAME operation twice '
    'with two different values (two sends; two reads), '
    'is run by two threads under the controlled scheduler with every '
    'source line of types/basic.py, types/utility.py, types/enum.py and '
    'packet_buffer.py a scheduling point, all schedules with at most 1 '
    '(thorough: 2) preemptions; each thread must observe what the operation '
    'gives alone, also afterwards.  A send is observed twice: the bytes the '
    'PacketBuffer copied at each socket.send() call, and the objects passed '
    'to send() read when the operation has returned (a transport may '
    'consume a buffer later).  History: every pair of the 4 kinds of '
    'byte-array operation (Var/Short-prefixed, send/read; the same kind '
    'twice included; thorough: every pair of 8 operations) is run after a '
    'warm-up history of 70 distinct sizes (1..70) through both byte-array '
    'types and String, encode and decode, with operand lengths the history '
    'never used and that differ between the two threads, each execution in '
    'a fresh fork of a worker that has executed no codec before, with every '
    'BYTECODE INSTRUCTION of the four modules a scheduling point, all '
    'schedules with at most 1 preemption (thorough: additionally line '
    'points with at most 2 on the quick pairs).  Context dispatch: '
    'minecraft/utility.py (the descriptor behind every inherited '
    '*_with_context) is among the modules with scheduling points; 6 pairs '
    '(thorough: all 27 pairs of 8 operations on different types) of '
    'T.send_with_context / T.read_with_context calls on two DIFFERENT types, '
    'looked up on the class (Integer, Short, String, VarLong; the Byte '
    'elements of an array) or on an instance (a FixedPoint, '
    'UnsignedShort()), are run by two threads with every bytecode '
    'instruction a scheduling point, at most 1 preemption (thorough: also '
    'line points with at most 2 on the quick pairs), each execution in a '
    'fresh fork; both threads must observe the reference result, and so '
    'must three single-threaded calls afterwards: both operations again, '
    'in either order (each type gets to be the first to meet what the race '
    'left behind), then a third type (thorough: also third type first).  '
    'Construction histories: for FixedPoint over Byte, Short and Integer '
    'and for PrefixedArray, every sequence of 3 constructions (repetitions '
    'included, 216 each) out of 6 parameterisations (FixedPoint: (B), '
    '(B, 12), (B, fractional_bits=12), (B, fractional_bits=3), '
    '(integer_type=B, fractional_bits=8), (another base, 12); '
    'PrefixedArray: positional, keyword and mixed spellings over 3 length '
    'types and Byte/Short/String/nested elements); after every step '
    '(second variant: only after the last; thorough: after every subset of '
    'the first two) EVERY object made so far encodes and decodes 3..10 '
    'values through both entry points and is judged against the reference '
    'for its own parameters.  Failure and re-entrancy histories: for every '
    'ordered pair (A, B) of 14 representatives (Boolean, Byte, Integer, '
    'Long, Double, VarInt, String, UUID, Angle, FixedPoint(Short,12), '
    'Position, both byte arrays, PrefixedArray(Short,String)): A is sent '
    'into a sink whose send() raises BrokenPipeError / InterruptedError / '
    'KeyError at its call k = 1, 2 (thorough: 3), or read from a stream '
    'whose read() raises ConnectionResetError / InterruptedError / KeyError '
    'or hits the end of the stream at call k; or A is sent into a sink '
    'whose send() encodes B into the buffer before forwarding each chunk '
    '(the buffer must hold <B><chunk> for every chunk the sink received '
    'and the chunks must be A\'s encoding); then B (another value) is sent '
    '/ read through both entry points and A again: all as the reference '
    'says.  Histories run 8 (constructions; thorough: 1) / 23 (failures) '
    'after the other in a fresh fork of a process that has only imported '
    'the library; a reported case names the histories that ran before it '
    'in its process.')
ASSUMPTIONS = [
    'non-termination of an encoder is judged by a horizon of 2,000,000 traced '
    'line events per send (the largest enumerated case, a 32767-element '
    'array through send_with_context, needs about 590,000)',
    'Angle encoding is judged against the nearest 1/256-turn step with a full '
    'turn wrapping to 0 (refproto.angle_byte, the rounding pyCraft '
    'documents); on exact ties (and within 1e-9 step of one) either '
    'neighbour is accepted',
    'FixedPoint encoding of a value that is not a multiple of 2^-n may round '
    'either way (only |result - value| <= one quantum is required)',
    'bytes other than 00/01 for Boolean, negative Short length prefixes and '
    'values outside a type\'s range are outside the protocol and not judged',
    'FixedPoint is not used as a PrefixedArray element type (pyCraft never '
    'does); a hang inside C code (struct, BytesIO) cannot be detected',
    'thread switches are explored at source-line granularity (at bytecode '
    'granularity for the byte-array pairs after the warm-up history and '
    'for the context-dispatch pairs); a '
    'warm-up of 70 sizes fills size-bounded caches of up to 70 entries',
    'after a failed send or read only the later operations are judged '
    '(what reached the failing sink is not)',
]

HORIZON = 2000000
SENT = b'\xa5\x5a'
CAP = 3
EPS = Fraction(1, 10 ** 9)
QUANTUM = Fraction(360, 256)

INTS = {'Byte': (1, True), 'UnsignedByte': (1, False), 'Short': (2, True),
        'UnsignedShort': (2, False), 'Integer': (4, True), 'Long': (8, True),
        'UnsignedLong': (8, False)}
BYTES_T = ('VarIntPrefixedByteArray', 'ShortPrefixedByteArray',
           'TrailingByteArray')
PROTO_A, PROTO_B = 340, 578          # Position layouts x|y|z and x|z|y


class Horizon(BaseException):
    pass


def bounded(fn, *args):
    """Run fn under a line-event horizon; Horizon => did not terminate."""
    n = [0]

    def tracer(frame, event, arg):
        n[0] += 1
        if n[0] > HORIZON:
            raise Horizon()
        return tracer
    old = sys.gettrace()
    sys.settrace(tracer)
    try:
        return fn(*args)
    finally:
        sys.settrace(old)


# -- implementation under test ------------------------------------------------

class _Env(object):
    pass


_ENV = None
_BUILT = {}
_CTX = {}


def env():
    global _ENV
    if _ENV is None:
        use_repo()
        from minecraft.networking import types as T
        from minecraft.networking.packets import PacketBuffer
        from minecraft.networking.connection import ConnectionContext
        e = _Env()
        e.T, e.PacketBuffer, e.ConnectionContext = T, PacketBuffer, \
            ConnectionContext
        _ENV = e
    return _ENV


def context(proto):
    proto = proto or PROTO_A
    if proto not in _CTX:
        _CTX[proto] = env().ConnectionContext(protocol_version=proto)
    return _CTX[proto]


def tup(spec):
    return tuple(tup(s) for s in spec) if isinstance(spec, (list, tuple)) \
        else spec


def name(spec):
    if isinstance(spec, str):
        return spec
    if spec[0] == 'FixedPoint':
        return 'FixedPoint(%s)' % spec[1] if spec[2] is None else \
            'FixedPoint(%s,%d)' % (spec[1], spec[2])
    return 'PrefixedArray(%s,%s)' % (name(spec[1]), name(spec[2]))


def family(spec):
    if spec == 'FixedPointInteger':
        return 'FixedPoint'
    return spec if isinstance(spec, str) else spec[0]


def needs_ctx(spec):
    if spec == 'Position':
        return True
    return not isinstance(spec, str) and spec[0] == 'PrefixedArray' \
        and needs_ctx(spec[2])


def fixed_of(spec):
    """(integer type name, fractional bits) of a FixedPoint spec, or None"""
    if spec == 'FixedPointInteger':
        return 'Integer', 5
    if not isinstance(spec, str) and spec[0] == 'FixedPoint':
        return spec[1], 5 if spec[2] is None else spec[2]
    return None


def build(spec):
    if spec in _BUILT:
        return _BUILT[spec]
    T = env().T
    if isinstance(spec, str):
        t = getattr(T, spec)
    elif spec[0] == 'FixedPoint':
        it = getattr(T, spec[1])
        t = T.FixedPoint(it) if spec[2] is None else T.FixedPoint(it, spec[2])
    elif spec[0] == 'PrefixedArray':
        t = T.PrefixedArray(build(spec[1]), build(spec[2]))
    else:
        raise ToolError('bad spec %r' % (spec,))
    _BUILT[spec] = t
    return t


def exc_name(e):
    t = type(e)
    return t.__name__ if t.__module__ == 'builtins' else \
        '%s.%s' % (t.__module__, t.__name__)


def do_send(T, v, mode, cctx):
    """('bytes', b) | ('raise', exc name, text) | ('horizon',)"""
    buf = env().PacketBuffer()
    try:
        if mode == 'ctx':
            bounded(T.send_with_context, v, buf, cctx)
        else:
            bounded(T.send, v, buf)
    except Horizon:
        return ('horizon',)
    except Exception as e:
        return ('raise', exc_name(e), str(e)[:120])
    return ('bytes', buf.get_writable())


def do_read(T, data, mode, cctx):
    """('value', v, consumed) | ('raise', exc name, text)"""
    buf = env().PacketBuffer()
    buf.send(data)
    buf.reset_cursor()
    try:
        if mode == 'ctx':
            got = T.read_with_context(buf, cctx)
        else:
            got = T.read(buf)
    except Exception as e:
        return ('raise', exc_name(e), str(e)[:120])
    return ('value', got, len(data) - len(buf.read()))


def _eq(a, b):
    return a == b or repr(a) == repr(b)


def both(fn, T, x, spec, proto, what):
    """[(via, result)]: the plain entry point, plus the *_with_context entry
    point when it behaves differently (or alone when the type needs one)."""
    cctx = context(proto)
    if needs_ctx(spec):
        return [('', fn(T, x, 'ctx', cctx))]
    a = fn(T, x, 'plain', cctx)
    b = fn(T, x, 'ctx', cctx)
    return [('', a)] if _eq(a, b) else \
        [('', a), (' via %s_with_context' % what, b)]


# -- reference ------------------------------------------------------------------

def ref_encode(spec, v, proto=None):
    if isinstance(spec, str):
        if spec in INTS:
            w, s = INTS[spec]
            return ref.sint(v, w) if s else ref.uint(v, w)
        if spec == 'Boolean':
            return ref.boolean(v)
        if spec == 'Float':
            return ref.f32(v)
        if spec == 'Double':
            return ref.f64(v)
        if spec == 'VarInt':
            return ref.varnum(v)
        if spec == 'String':
            return ref.string(v)
        if spec == 'UUID':
            return ref.uuid_bytes(v)
        if spec == 'VarIntPrefixedByteArray':
            return ref.var_bytes(v)
        if spec == 'ShortPrefixedByteArray':
            return ref.short_bytes(v)
        if spec == 'TrailingByteArray':
            return bytes(v)
        if spec == 'Position':
            x, y, z = v
            pack = refpos.pos_xzy if (proto or PROTO_A) >= 443 \
                else refpos.pos_xyz
            return ref.uint(pack(x, y, z), 8)
    fx = fixed_of(spec)
    if fx:
        return ref.sint(ref.fixed_raw(v, fx[1]), INTS[fx[0]][0])
    if spec[0] == 'PrefixedArray':
        return ref_encode(spec[1], len(v)) + \
            b''.join(ref_encode(spec[2], e, proto) for e in v)
    raise ToolError('no reference for %r' % (spec,))


def ref_crosscheck(spec, v, want):
    """The reference decoder must read back what the reference encoder wrote
    (guards the oracle itself; scalar types only)."""
    r = ref.Reader(want)
    if spec in INTS:
        w, s = INTS[spec]
        back = r.sint(w) if s else r.uint(w)
    elif spec == 'UUID':
        back = r.uuid()
    elif spec == 'VarIntPrefixedByteArray':
        back = r.var_bytes()
    elif spec == 'Boolean':
        back = r.boolean()
    else:
        return
    if back != v or r.left:
        raise ToolError('reference codec does not round-trip %r %r' %
                        (spec, v))


def feq(a, b):
    if a != a or b != b:
        return a != a and b != b
    return a == b and math.copysign(1.0, a) == math.copysign(1.0, b)


def same(spec, got, exp):
    if isinstance(spec, str):
        if spec in INTS or spec in ('VarInt', 'VarLong'):
            return isinstance(got, int) and not isinstance(got, bool) \
                and got == exp
        if spec == 'Angle':         # (only used with exact grid values)
            return isinstance(got, (int, float)) and \
                not isinstance(got, bool) and math.isfinite(got) and \
                abs(Fraction(got) - Fraction(exp)) <= EPS
        if spec == 'Boolean':
            return isinstance(got, (bool, int)) and got == exp
        if spec in ('Float', 'Double'):
            return isinstance(got, float) and feq(got, exp)
        if spec in ('String', 'UUID'):
            return isinstance(got, str) and got == exp
        if spec in BYTES_T:
            return isinstance(got, (bytes, bytearray)) and bytes(got) == exp
        if spec == 'Position':
            try:
                return tuple(got) == tuple(exp)
            except TypeError:
                return False
    if fixed_of(spec):
        return isinstance(got, (int, float)) and not isinstance(got, bool) \
            and got == exp          # int/float comparison is exact
    if spec[0] == 'PrefixedArray':
        return isinstance(got, (list, tuple)) and len(got) == len(exp) and \
            all(same(spec[2], g, e) for g, e in zip(got, exp))
    raise ToolError('no comparison for %r' % (spec,))


def short(v):
    r = repr(v)
    if len(r) <= 48:
        return r
    try:
        n = len(v)
    except TypeError:
        n = -1
    return '%s..(len=%d,#%08x)' % (r[:24], n, h64(r) & 0xffffffff)


# -- failure bookkeeping --------------------------------------------------------

class Rec(object):
    """Collects failures per class; only the CAP smallest (rank, ident) of
    each class become violations (decided after merging, order-independent)."""

    def __init__(self, ctx, direct=False):
        self.ctx, self.direct, self.f = ctx, direct, {}

    def fail(self, cls, rank, ident, what, case):
        if self.direct:
            self.ctx.violation('%s [%s]' % (cls, ident), what, case)
            return
        e = self.f.setdefault(cls, [0, []])
        e[0] += 1
        e[1].append((rank, ident, what, case))
        if len(e[1]) > 8 * CAP:
            e[1].sort(key=lambda it: it[:2])
            del e[1][CAP:]

    def flush(self):
        out = []
        for cls, (n, items) in self.f.items():
            items.sort(key=lambda it: it[:2])
            out.append((cls, n, items[:CAP]))
        if out:
            self.ctx.extra.setdefault('_fails', []).extend(out)
        self.f = {}


def report(ctx):
    by = {}
    for cls, n, items in ctx.extra.pop('_fails', []):
        e = by.setdefault(cls, [0, []])
        e[0] += n
        e[1] += items
    per = {}
    for cls in sorted(by):
        n, items = by[cls]
        items.sort(key=lambda it: it[:2])
        per[cls] = n
        for rank, ident, what, case in items[:CAP]:
            ctx.violation('%s [%s]' % (cls, ident),
                          '%s  (%d failing input(s) in class "%s"; the '
                          'smallest %d are reported)'
                          % (what, n, cls, min(n, CAP)), case)
    if per:
        ctx.extra['failing_inputs_per_class'] = per


# -- single-case checks ---------------------------------------------------------

def judge_send(R, spec, res_list, want, rank, ident, case, shown, fam=None,
               nm=None):
    fam, nm = fam or family(spec), nm or name(spec)
    for via, res in res_list:
        R.ctx.outcome('enc-' + (res[0] if res[0] != 'raise'
                                else 'raise:' + res[1]))
        if res[0] == 'horizon':
            R.fail('%s encode%s: does not terminate' % (fam, via), rank,
                   ident, '%s.send(%s) exceeded the horizon of %d line events'
                   % (nm, shown, HORIZON), case)
        elif res[0] == 'raise':
            R.fail('%s encode%s: raises %s' % (fam, via, res[1]), rank, ident,
                   '%s.send(%s)%s raised %s: %s; the value is in the type\'s '
                   'domain, expected bytes %s'
                   % (nm, shown, via, res[1], res[2], hexs(want)), case)
        elif want is not None and res[1] != want:
            R.fail('%s encode%s: wrong bytes' % (fam, via), rank, ident,
                   '%s.send(%s)%s wrote %s, the protocol prescribes %s'
                   % (nm, shown, via, hexs(res[1]), hexs(want)), case)


def hexs(b):
    if b is None:
        return '?'
    return b.hex() if len(b) <= 40 else '%s..(%d bytes)' % (b[:32].hex(),
                                                            len(b))


def check_value(R, spec, v, proto=None, rank=None, obj=None):
    """Encode v and decode the reference encoding of v.  -> reference bytes.
    obj: {'T': the type object to use instead of build(spec), 'tag': text
    appended to the failure class, 'where': text appended to the identity,
    'case': the replayable case}."""
    T = obj['T'] if obj else build(spec)
    fam, nm = family(spec), name(spec)
    want = ref_encode(spec, v, proto)
    if isinstance(spec, str):
        ref_crosscheck(spec, v, want)
    if rank is None:
        rank = len(want)
    shown = short(v)
    at = '@%d' % (proto or PROTO_A) if needs_ctx(spec) else ''
    ident = '%s%s %s' % (nm, at, shown)
    case = {'op': 'value', 'spec': spec, 'value': v, 'proto': proto}
    if obj:
        fam += obj['tag']
        ident += obj['where']
        nm += obj['where']
        case = obj['case']
    judge_send(R, spec, both(do_send, T, v, spec, proto, 'send'), want, rank,
               ident, case, shown, fam, nm)
    for via, res in both(do_read, T, want + SENT, spec, proto, 'read'):
        R.ctx.outcome('dec-' + (res[0] if res[0] != 'raise'
                                else 'raise:' + res[1]))
        if res[0] == 'raise':
            R.fail('%s decode%s: raises %s' % (fam, via, res[1]), rank, ident,
                   '%s.read(%s + sentinel)%s raised %s: %s, expected %s'
                   % (nm, hexs(want), via, res[1], res[2], shown), case)
        elif not same(spec, res[1], v):
            R.fail('%s decode%s: wrong value' % (fam, via), rank, ident,
                   '%s.read(%s)%s returned %s, expected %s'
                   % (nm, hexs(want), via, short(res[1]), shown), case)
        elif res[2] != len(want):
            R.fail('%s decode%s: wrong cursor' % (fam, via), rank, ident,
                   '%s.read(%s + sentinel a55a)%s consumed %d bytes, the '
                   'encoding has %d' % (nm, hexs(want), via, res[2],
                                        len(want)), case)
    return want


def check_prefix(R, spec, data, total, proto=None):
    """data is a strict prefix of a valid encoding: decoding must raise."""
    T = build(spec)
    mode = 'ctx' if needs_ctx(spec) else 'plain'
    res = do_read(T, data, mode, context(proto))
    R.ctx.outcome('prefix-' + (res[0] if res[0] != 'raise'
                               else 'raise:' + res[1]))
    if res[0] == 'value':
        at = '@%d' % (proto or PROTO_A) if needs_ctx(spec) else ''
        R.fail('%s truncated decode: returns a value' % family(spec),
               len(data), '%s%s %s' % (name(spec), at, short(data.hex())),
               '%s.read of the %d-byte strict prefix %s of a %s-byte '
               'encoding returned %s (consumed %d) instead of raising'
               % (name(spec), len(data), hexs(data), total, short(res[1]),
                  res[2]),
               {'op': 'prefix', 'spec': spec, 'data': data, 'total': total,
                'proto': proto})


def cuts(n, long_at):
    if n <= long_at:
        return range(n)
    s = set(range(8)) | set(range(n - 8, n)) | \
        {n * i // 17 for i in range(1, 17)}
    return sorted(s)


def prefixes(R, seen, spec, want, proto=None):
    long_at = 1024
    if R.ctx.thorough:      # decoding an array prefix costs O(elements)
        long_at = 4096 if family(spec) == 'PrefixedArray' else 20000
    R.ctx.cls('prefixes: all cuts' if len(want) <= long_at
              else 'prefixes: sampled cuts (long encoding)')
    tag = (name(spec), proto if needs_ctx(spec) else None)
    for k in cuts(len(want), long_at):
        p = want[:k]
        key = (tag, p if len(p) <= 64 else h64(p))
        if key in seen:
            continue
        seen.add(key)
        R.ctx.count()
        R.ctx.note_distinct(1)
        check_prefix(R, spec, p, len(want), proto)


def angle_accept(v):
    exact = Fraction(v) * 256 / 360
    fl = math.floor(exact)
    frac = exact - fl
    if abs(frac - Fraction(1, 2)) <= EPS:
        return {fl % 256, (fl + 1) % 256}, True
    return {math.floor(exact + Fraction(1, 2)) % 256}, False


def circle(a, b):
    d = (Fraction(a) - Fraction(b)) % 360
    return min(d, 360 - d)


def check_angle(R, v):
    ctx = R.ctx
    T = build('Angle')
    accept, tie = angle_accept(v)
    if ref.angle_byte(v) not in accept:
        raise ToolError('angle reference disagrees with exact arithmetic '
                        'for %r' % (v,))
    resid = Fraction(v) % 360
    if tie:
        ctx.cls('angle exact tie')
    if resid >= Fraction(45 * 511, 64):
        ctx.cls('angle rounds up to a full turn (wraps to 0)')
    if v < 0:
        ctx.cls('angle negative')
    rank = int(abs(v) * 1024) + (10 ** 9 if v < 0 else 0)
    ident = 'v=%r' % (v,)
    case = {'op': 'angle', 'v': v}
    exp = '/'.join('%02x' % b for b in sorted(accept))
    for via, res in both(do_send, T, v, 'Angle', None, 'send'):
        ctx.outcome('enc-' + (res[0] if res[0] != 'raise'
                              else 'raise:' + res[1]))
        if res[0] == 'horizon':
            R.fail('Angle encode%s: does not terminate' % via, rank, ident,
                   'Angle.send(%r) exceeded the horizon' % (v,), case)
            continue
        if res[0] == 'raise':
            R.fail('Angle encode%s: raises %s' % (via, res[1]), rank, ident,
                   'Angle.send(%r)%s raised %s: %s; expected the single byte '
                   '%s (nearest 1/256-turn step, a full turn wraps to 0)'
                   % (v, via, res[1], res[2], exp), case)
            continue
        out = res[1]
        if len(out) != 1 or out[0] not in accept:
            R.fail('Angle encode%s: wrong byte' % via, rank, ident,
                   'Angle.send(%r)%s wrote %s, the nearest 1/256-turn step '
                   'is %s' % (v, via, hexs(out), exp), case)
            continue
        back = do_read(T, out + SENT, 'plain', None)
        ok = back[0] == 'value' and isinstance(back[1], (int, float)) and \
            math.isfinite(back[1]) and circle(back[1], v) <= QUANTUM + EPS
        if not ok:
            R.fail('Angle roundtrip%s: more than one quantum' % via, rank,
                   ident, 'Angle.read(Angle.send(%r)) = %r: more than '
                   '360/256 degree away on the circle' % (v, back[1:]), case)


def check_angle_dec(R, b):
    T = build('Angle')
    exp = Fraction(45 * b, 32)
    case = {'op': 'angle_dec', 'b': b}
    ident = 'byte=%02x' % b
    for via, res in both(do_read, T, bytes([b]) + SENT, 'Angle', None,
                         'read'):
        R.ctx.outcome('dec-' + (res[0] if res[0] != 'raise'
                                else 'raise:' + res[1]))
        if res[0] == 'raise':
            R.fail('Angle decode%s: raises %s' % (via, res[1]), b, ident,
                   'Angle.read(%02x) raised %s: %s' % (b, res[1], res[2]),
                   case)
        elif not (isinstance(res[1], (int, float)) and
                  not isinstance(res[1], bool) and math.isfinite(res[1]) and
                  abs(Fraction(res[1]) - exp) <= EPS):
            R.fail('Angle decode%s: wrong value' % via, b, ident,
                   'Angle.read(%02x)%s = %r, expected 360*%d/256 = %s'
                   % (b, via, res[1], b, float(exp)), case)
        elif res[2] != 1:
            R.fail('Angle decode%s: wrong cursor' % via, b, ident,
                   'Angle.read consumed %d bytes, expected 1' % res[2], case)


def check_fixed_between(R, spec, num):
    """v = num / 2^(n+2), num not a multiple of 4: strictly between two
    representable neighbours that are both in range."""
    tname, n = fixed_of(spec)
    w = INTS[tname][0]
    T = build(spec)
    v = math.ldexp(num, -(n + 2))
    if Fraction(v) != Fraction(num, 1 << (n + 2)):
        raise ToolError('inexact fixed-point test value')
    raw = num // 4
    rank = abs(raw) * 8 + num % 4
    ident = '%s v=%r' % (name(spec), v)
    case = {'op': 'fixed', 'spec': spec, 'num': num}
    res = do_send(T, v, 'plain', None)
    R.ctx.outcome('enc-' + (res[0] if res[0] != 'raise'
                            else 'raise:' + res[1]))
    if res[0] != 'bytes':
        judge_send(R, spec, [('', res)], None, rank, ident, case, repr(v))
        return
    out = res[1]
    e = ref.Reader(out).sint(w) if len(out) == w else None
    if e is None or abs(Fraction(e) - Fraction(num, 4)) > 1:
        R.fail('FixedPoint encode: more than one quantum off', rank, ident,
               '%s.send(%r) wrote %s = raw %r; the value is %s quanta, so '
               'raw must be %d or %d' % (name(spec), v, hexs(out), e,
                                         Fraction(num, 4), raw, raw + 1),
               case)


def check_float(R, tname, bits):
    """-> the encoding (for the prefix pass)"""
    ctx = R.ctx
    T = build(tname)
    w, dec, enc = (4, ref.bits_f32, ref.f32_bits) if tname == 'Float' \
        else (8, ref.bits_f64, ref.f64_bits)
    ebits, mbits = (8, 23) if w == 4 else (11, 52)
    data = bits.to_bytes(w, 'big')
    exp = dec(bits)
    e = (bits >> mbits) & ((1 << ebits) - 1)
    m = bits & ((1 << mbits) - 1)
    nan = exp != exp
    if nan:
        ctx.cls('float NaN')
    elif e == (1 << ebits) - 1:
        ctx.cls('float infinity')
    elif e == 0:
        ctx.cls('float subnormal' if m else 'float zero %s'
                % ('-' if bits >> (8 * w - 1) else '+'))
    if not nan and enc(exp) != bits:
        raise ToolError('reference float codec does not round-trip %x' % bits)
    ident = '%s bits=%0*x' % (tname, 2 * w, bits)
    case = {'op': 'float', 'type': tname, 'bits': bits}
    rank = bits
    for via, res in both(do_read, T, data + SENT, tname, None, 'read'):
        ctx.outcome('dec-' + (res[0] if res[0] != 'raise'
                              else 'raise:' + res[1]))
        if res[0] == 'raise':
            R.fail('%s decode%s: raises %s' % (tname, via, res[1]), rank,
                   ident, '%s.read(%s) raised %s: %s' % (tname, data.hex(),
                                                         res[1], res[2]),
                   case)
        elif not same(tname, res[1], exp):
            R.fail('%s decode%s: wrong value' % (tname, via), rank, ident,
                   '%s.read(%s)%s = %r, IEEE-754 says %r'
                   % (tname, data.hex(), via, res[1], exp), case)
        elif res[2] != w:
            R.fail('%s decode%s: wrong cursor' % (tname, via), rank, ident,
                   '%s.read consumed %d bytes, expected %d'
                   % (tname, res[2], w), case)
    sends = both(do_send, T, exp, tname, None, 'send')
    if not nan:
        judge_send(R, tname, sends, data, rank, ident, case, repr(exp))
    else:
        for via, res in sends:
            ok = res[0] == 'bytes' and len(res[1]) == w
            if ok:
                g = int.from_bytes(res[1], 'big')
                ok = (g >> mbits) & ((1 << ebits) - 1) == (1 << ebits) - 1 \
                    and g & ((1 << mbits) - 1) != 0
            if not ok:
                R.fail('%s encode%s: NaN not encoded as a NaN'
                       % (tname, via), rank, ident,
                       '%s.send(nan) -> %r, expected a %d-byte NaN pattern'
                       % (tname, res[1:], w), case)
    return data


def check_trailing(R, lead, data):
    """TrailingByteArray: writes the bytes as they are, reads the rest."""
    T = build('TrailingByteArray')
    ident = 'lead=%d %s' % (len(lead), short(data))
    case = {'op': 'trailing', 'lead': lead, 'data': data}
    judge_send(R, 'TrailingByteArray',
               both(do_send, T, data, 'TrailingByteArray', None, 'send'),
               data, len(data), ident, case, short(data))
    for mode in ('plain', 'ctx'):
        buf = env().PacketBuffer()
        buf.send(lead + data)
        buf.reset_cursor()
        buf.read(len(lead))
        try:
            got = T.read(buf) if mode == 'plain' else \
                T.read_with_context(buf, context(None))
        except Exception as e:
            R.fail('TrailingByteArray decode: raises %s' % exc_name(e),
                   len(data), ident, 'TrailingByteArray.read raised %r' % e,
                   case)
            continue
        left = len(buf.read())
        if not same('TrailingByteArray', got, data) or left:
            R.fail('TrailingByteArray decode: wrong value', len(data), ident,
                   'TrailingByteArray.read (%s) after %d consumed bytes '
                   'returned %s and left %d bytes, expected the remaining '
                   '%d bytes' % (mode, len(lead), short(got), left,
                                 len(data)), case)


# -- dispatch scenarios ---------------------------------------------------------

def scenarios():
    """name -> (thunk, expectation).  expectation: ('raise', exc name) |
    ('raise-any',) | ('value', v)"""
    E = env()
    Ty = E.T
    marker = context(PROTO_B)

    def buf(data=b''):
        b = E.PacketBuffer()
        b.send(data)
        b.reset_cursor()
        return b

    class CtxOnly(Ty.Type):             # like Position: static *_with_context
        __slots__ = ()

        @staticmethod
        def read_with_context(f, ctx):
            return ('ctxonly', ctx is marker, f.read(1))

        @staticmethod
        def send_with_context(v, s, ctx):
            s.send(b'C' + (b'+' if ctx is marker else b'-') + v)

    class InstCtx(Ty.Type):             # like PrefixedArray: instance methods
        __slots__ = ('k',)

        def __init__(self, k):
            self.k = k

        def read_with_context(self, f, ctx):
            return ('instctx', self.k, ctx is marker, f.read(1))

        def send_with_context(self, v, s, ctx):
            s.send(bytes([self.k]) + v)

    class Inst(Ty.Type):                # like FixedPoint: instance read/send
        __slots__ = ('k',)

        def __init__(self, k):
            self.k = k

        def read(self, f):
            return ('inst', self.k, f.read(1))

        def send(self, v, s):
            s.send(bytes([self.k]) + v)

    class Cls(Ty.Type):                 # like VarInt: classmethods
        __slots__ = ()

        @classmethod
        def read(cls, f):
            return ('cls', cls.__name__, f.read(1))

        @classmethod
        def send(cls, v, s):
            s.send(cls.__name__.encode() + v)

    class Cls2(Cls):
        __slots__ = ()

    def sent(fn, *a):
        b = E.PacketBuffer()
        fn(*(a[:1] + (b,) + a[1:]))
        return b.get_writable()

    PA = Ty.PrefixedArray
    pos8 = bytes(8)
    S = {
        'Position.read': (lambda: Ty.Position.read(buf(pos8)),
                          ('raise', 'TypeError')),
        'Position.send': (lambda: sent(Ty.Position.send, (1, 2, 3)),
                          ('raise', 'TypeError')),
        'PrefixedArray(VarInt,Position).read':
            (lambda: PA(Ty.VarInt, Ty.Position).read(buf(b'\x01' + pos8)),
             ('raise', 'TypeError')),
        'PrefixedArray(VarInt,Position).send':
            (lambda: sent(PA(Ty.VarInt, Ty.Position).send, [(1, 2, 3)]),
             ('raise', 'TypeError')),
        'static-ctx-only.read': (lambda: CtxOnly.read(buf(b'x')),
                                 ('raise', 'TypeError')),
        'static-ctx-only.send': (lambda: sent(CtxOnly.send, b'v'),
                                 ('raise', 'TypeError')),
        'static-ctx-only.read_with_context':
            (lambda: CtxOnly.read_with_context(buf(b'x'), marker),
             ('value', ('ctxonly', True, b'x'))),
        'static-ctx-only.send_with_context':
            (lambda: sent(CtxOnly.send_with_context, b'v', marker),
             ('value', b'C+v')),
        'instance-ctx-only.read': (lambda: InstCtx(3).read(buf(b'x')),
                                   ('raise', 'TypeError')),
        'instance-ctx-only.send': (lambda: sent(InstCtx(3).send, b'v'),
                                   ('raise', 'TypeError')),
        'instance-ctx-only.read_with_context':
            (lambda: InstCtx(3).read_with_context(buf(b'x'), marker),
             ('value', ('instctx', 3, True, b'x'))),
        'instance.read_with_context':
            (lambda: Inst(7).read_with_context(buf(b'x'), marker),
             ('value', ('inst', 7, b'x'))),
        'instance.send_with_context':
            (lambda: sent(Inst(7).send_with_context, b'v', marker),
             ('value', b'\x07v')),
        'class.read_with_context':
            (lambda: Cls.read_with_context(buf(b'x'), marker),
             ('value', ('cls', 'Cls', b'x'))),
        'subclass.read_with_context':
            (lambda: Cls2.read_with_context(buf(b'x'), marker),
             ('value', ('cls', 'Cls2', b'x'))),
        'subclass-instance.read_with_context':
            (lambda: Cls2().read_with_context(buf(b'x'), marker),
             ('value', ('cls', 'Cls2', b'x'))),
        'subclass.send_with_context':
            (lambda: sent(Cls2.send_with_context, b'v', marker),
             ('value', b'Cls2v')),
        'array-of-instances.read_with_context':
            (lambda: PA(Ty.VarInt, Inst(9)).read_with_context(
                buf(b'\x02ab'), marker),
             ('value', [('inst', 9, b'a'), ('inst', 9, b'b')])),
        'nested-array.context-propagation.read':
            (lambda: PA(Ty.VarInt, PA(Ty.Short, CtxOnly)).read_with_context(
                buf(b'\x02\x00\x01a\x00\x02bc'), marker),
             ('value', [[('ctxonly', True, b'a')],
                        [('ctxonly', True, b'b'), ('ctxonly', True, b'c')]])),
        'nested-array.context-propagation.send':
            (lambda: sent(PA(Ty.VarInt, PA(Ty.Short, CtxOnly))
                          .send_with_context, [[b'a'], [b'b', b'c']], marker),
             ('value', b'\x02\x00\x01C+a\x00\x02C+bC+c')),
        'Type.read': (lambda: Ty.Type.read(buf(b'x')), ('raise-any',)),
        'Type.send': (lambda: sent(Ty.Type.send, b'v'), ('raise-any',)),
    }
    return S


def check_dispatch(R, sname):
    thunk, expect = scenarios()[sname]
    try:
        got = ('value', bounded(thunk))
    except Horizon:
        got = ('horizon',)
    except RecursionError:
        got = ('recursion',)
    except Exception as e:
        got = ('raise', exc_name(e))
    R.ctx.outcome('dispatch-' + ':'.join(str(g) for g in got[:2])
                  if got[0] != 'value' else 'dispatch-value')
    ok = got == expect or (expect == ('raise-any',) and got[0] == 'raise')
    if not ok:
        R.fail('dispatch: %s' % sname, 0, 'outcome',
               'scenario %s: got %r, expected %r (a type that defines only '
               '*_with_context must answer read/send with TypeError, and '
               '*_with_context must reach read/send bound to the class or '
               'the instance it was looked up on)' % (sname, got, expect),
               {'op': 'dispatch', 'name': sname})


# -- alphabets ------------------------------------------------------------------

def int_alphabet(bits, signed, rnd):
    lo, hi = (-(1 << (bits - 1)), (1 << (bits - 1)) - 1) if signed \
        else (0, (1 << bits) - 1)
    mask = (1 << bits) - 1
    vals = {lo, hi, 0, 1}
    for k in range(bits + 1):
        for s in (1, -1):
            for d in (-1, 0, 1):
                vals.add(s * (1 << k) + d)
    pats = set()
    for i in range(bits // 8):
        for b in range(1, 256):
            pats.add(b << (8 * i))
            pats.add(~(b << (8 * i)) & mask)
    pats |= {rnd.getrandbits(bits) for _ in range(64)}
    for p in pats:
        vals.add(p - (1 << bits) if signed and p >> (bits - 1) else p)
    return sorted(v for v in vals if lo <= v <= hi)


def float_patterns(ebits, mbits):
    alt = int('01' * 32, 2) & ((1 << mbits) - 1)
    return sorted({0, 1, (1 << mbits) - 1, 1 << (mbits - 1),
                   (1 << (mbits - 1)) - 1, (1 << (mbits - 1)) + 1, alt,
                   alt ^ ((1 << mbits) - 1)})


WIDTH_CHARS = {
    1: ['a', '\x00', '\x7f'],
    2: ['\xe9', '\x80', '\u07ff'],
    3: ['\u20ac', '\u0800', '\ud7ff', '\ue000', '\uffff'],
    4: ['\U0001f600', '\U00010000', '\U0010ffff'],
}


# Code points that codecs, decoders and text layers treat specially at
# particular positions: the byte order mark / UTF-8 signature U+FEFF, the
# non-characters U+FFFE and U+FFFF, NUL, the replacement character, every
# kind of line break, and the first and last code point of every UTF-8 width
# (surrogates excluded: they are not in the domain).
SPECIAL_CPS = (0x0000, 0x0009, 0x000a, 0x000d, 0x0020, 0x007f, 0x0080, 0x0085,
               0x00a0, 0x07ff, 0x0800, 0x2028, 0x2029, 0xd7ff, 0xe000, 0xfdd0,
               0xfeff, 0xfffd, 0xfffe, 0xffff, 0x10000, 0x1fffe, 0x1ffff,
               0xe0001, 0x10fffe, 0x10ffff)


def special_strings():
    """Each special code point alone, doubled, first, last, in the middle,
    first and last; and every ordered pair of two of the BOM-like ones."""
    out = set()
    for cp in SPECIAL_CPS:
        c = chr(cp)
        out |= {c, c + c, c + 'ab', 'ab' + c, 'a' + c + 'b', c + 'ab' + c,
                c + c + 'ab', 'ab' + c + c, c + '\xe9', '\U0001f600' + c}
    bomlike = ['\ufeff', '\ufffe', '\uffff', '\x00', '\ufffd']
    for a in bomlike:
        for b in bomlike:
            out |= {a + b, a + b + 'ab', 'ab' + a + b, a + 'ab' + b}
    out |= {'\ufeff' * 3, '\ufeff' * 43, '\ufeff{"text": "hi"}',
            '\xef\xbb\xbf', '\xff\xfe', '\xfe\xff'}
    return out


def string_values(thorough):
    out = {'', 'a\xe9\u20ac\U0001f600', 'Hello, world', '\x00'}
    out |= special_strings()
    small = [0, 1, 2, 126, 127, 128, 129]
    big = [16382, 16383, 16384, 16385]
    for w, chars in WIDTH_CHARS.items():
        for L in small + big:
            use = chars if (L < 1000 or thorough) else chars[:2]
            for ch in use:
                n, pad = divmod(L, w)
                out.add(ch * n + 'a' * pad)
                out.add('a' * pad + ch * n)
                out.add(ch * (n + 1))
    mixed = 'a\xe9\u20ac\U0001f600\x7f\u07ff\uffff\U0010ffff'     # 20 bytes
    for L in (120, 140, 16380, 16400):
        out.add(mixed * (L // 20))
    # the protocol's limit of 32767 is in characters: in-domain strings
    # whose UTF-8 form is longer than 32767 bytes
    out |= {'\xe9' * 16384, '\u20ac' * 10923, '\U0001f600' * 8192,
            '\u20ac' * 32767}
    if thorough:
        out |= {'a' * 32767, '\xe9' * 32767, '\U0001f600' * 32767}
    return sorted(out, key=lambda s: (len(s), s))


def pattern(n, k=0):
    return bytes((i * 131 + 17 + k) & 0xFF for i in range(n))


def bytearray_values(kind, thorough, rnd):
    lens = [0, 1, 2, 126, 127, 128, 129, 255, 256, 257, 16383, 16384, 16385,
            32766, 32767]
    if kind == 'VarIntPrefixedByteArray':
        lens += [32768, 65535, 65536]
        if thorough:
            lens += [2097151, 2097152]
    out = set()
    for n in lens:
        out.add(pattern(n))
        if n <= 257:
            out |= {bytes(n), b'\xff' * n, b'\x80' * n}
        if n <= 32768:
            out.add(rnd.randbytes(n))
    return sorted(out, key=lambda b: (len(b), b))


def uuid_values(rnd):
    seq = bytes(range(16))
    raws = {bytes(16), b'\xff' * 16, seq,
            bytes.fromhex('123456781234567812345678123456ab'),
            bytes.fromhex('00112233445566778899aabbccddeeff')}
    for i in range(16):
        for b in (0x01, 0x80, 0xff):
            r = bytearray(16)
            r[i] = b
            raws.add(bytes(r))
        r = bytearray(b'\xff' * 16)
        r[i] = 0
        raws.add(bytes(r))
    for base in (bytes(16), b'\xff' * 16, seq):
        for nib in range(16):
            r = bytearray(base)
            r[6] = (nib << 4) | (r[6] & 0x0f)       # version nibble
            raws.add(bytes(r))
            r = bytearray(base)
            r[8] = (nib << 4) | (r[8] & 0x0f)       # variant bits
            raws.add(bytes(r))
    raws |= {rnd.randbytes(16) for _ in range(16)}
    out = []
    for r in sorted(raws):
        t = ref.uuid_text(r)
        if ref.uuid_bytes(t) != r or t != t.lower() or len(t) != 36:
            raise ToolError('reference uuid codec broken')
        out.append(t)
    return out


POOLS = {
    'Byte': [0, 1, -1, 127, -128, 5, -86],
    'UnsignedShort': [0, 1, 255, 256, 65535, 0x1234],
    'Long': [0, -1, 2 ** 63 - 1, -2 ** 63, 0x0102030405060708],
    'Boolean': [True, False, True, True],
    'VarInt': [0, 1, 127, 128, 16383, 16384, 2 ** 31 - 1],
    'Double': [0.0, -0.0, 1.5, -2.25e100, 5e-324, float('inf')],
    'String': ['', 'a', '\xe9', '\u20ac', '\U0001f600', 'a' * 127,
               '\xe9' * 64, 'mixed a\xe9\u20ac\U0001f600'],
    'UUID': ['00000000-0000-0000-0000-000000000000',
             '12345678-1234-5678-1234-5678123456ab',
             'ffffffff-ffff-ffff-ffff-ffffffffffff'],
    'VarIntPrefixedByteArray': [b'', b'\x00', b'abc', bytes(range(128))],
}
POSITIONS = [(0, 0, 0), (1, 2, 3), (-1, -1, -1),
             (2 ** 25 - 1, 2 ** 11 - 1, -2 ** 25),
             (-2 ** 25, -2 ** 11, 2 ** 25 - 1),
             (18357644, 831, -20882616)]
LENGTH_TYPES = ('VarInt', 'Short', 'Integer')


def cyc(pool, n):
    return [pool[i % len(pool)] for i in range(n)]


def array_values(pool, counts):
    out = [[], pool[:1], pool[:3], list(pool)]
    out += [cyc(pool, n) for n in counts]
    seen, uniq = set(), []
    for a in out:
        k = repr(a)
        if k not in seen:
            seen.add(k)
            uniq.append(a)
    return uniq


# -- workers ----------------------------------------------------------------------

def w_ints(R, seen, spec, lo, hi):
    ctx = R.ctx
    for v in range(lo, hi):
        check_value(R, spec, v)
    ctx.count(hi - lo)
    ctx.note_distinct(hi - lo)
    if lo < 0:
        ctx.cls('integer negative', min(hi, 0) - lo)


def w_vals(R, seen, spec, values, proto):
    ctx = R.ctx
    spec = tup(spec)
    for v in values:
        ctx.count()
        ctx.note_distinct(1)
        want = check_value(R, spec, v, proto)
        if spec in INTS and v < 0:
            ctx.cls('integer negative')
        if spec == 'String':
            raw = ref.utf8(v)
            ctx.cls('String widest char %d byte(s)' % max(
                [len(ref.utf8(c)) for c in set(v)] or [0]))
            ctx.cls('String length prefix %d byte(s)'
                    % len(ref.varnum(len(raw))))
            for cp, nm in ((0xfeff, 'U+FEFF'), (0xfffe, 'U+FFFE'),
                           (0xffff, 'U+FFFF'), (0, 'U+0000')):
                c = chr(cp)
                if v[:1] == c:
                    ctx.cls('String starts with %s' % nm)
                if v[-1:] == c:
                    ctx.cls('String ends with %s' % nm)
                if c in v[1:-1]:
                    ctx.cls('String has %s inside' % nm)
        elif spec in BYTES_T:
            ctx.cls('%s length %s' % (spec, 'small' if len(v) < 128 else
                                      'medium' if len(v) < 16384 else 'big'))
        elif not isinstance(spec, str) and spec[0] == 'PrefixedArray':
            ctx.cls('array empty' if not v else 'array non-empty')
            if not isinstance(spec[2], str):
                ctx.cls('array nested')
            if needs_ctx(spec):
                ctx.cls('array of context-requiring elements')
        if spec != 'TrailingByteArray':
            prefixes(R, seen, spec, want, proto)


def w_fixed(R, seen, spec, raws, offsets):
    ctx = R.ctx
    spec = tup(spec)
    tname, n = fixed_of(spec)
    w, _ = INTS[tname]
    lo, hi = -(1 << (8 * w - 1)), (1 << (8 * w - 1)) - 1
    if isinstance(raws, tuple):
        raws = range(*raws)
    between_all = ctx.thorough or w != 2
    for raw in raws:
        v = math.ldexp(raw, -n)
        if ref.fixed_raw(v, n) != raw:
            raise ToolError('reference fixed point not exact for %d' % raw)
        ctx.count()
        ctx.note_distinct(1)
        want = check_value(R, spec, v, None, rank=abs(raw) * 8)
        if raw < 0:
            ctx.cls('fixed point negative raw')
        if w > 2:
            prefixes(R, seen, spec, want)
        if lo <= raw < hi and (between_all or min(
                raw - lo, abs(raw), hi - raw) <= 512):
            for off in offsets:
                ctx.count()
                ctx.note_distinct(1)
                ctx.cls('fixed point value between grid points')
                check_fixed_between(R, spec, 4 * raw + off)


def w_anglegrid(R, seen, den, lo, hi):
    for k in range(lo, hi):
        check_angle(R, k / den)
    R.ctx.count(hi - lo)
    R.ctx.note_distinct(hi - lo)


def w_anglevals(R, seen, values):
    for v in values:
        R.ctx.count()
        R.ctx.note_distinct(1)
        check_angle(R, v)


def w_angledec(R, seen):
    for b in range(256):
        R.ctx.count()
        R.ctx.note_distinct(1)
        check_angle_dec(R, b)


def w_floats(R, seen, tname, sign, elo, ehi):
    ebits, mbits = (8, 23) if tname == 'Float' else (11, 52)
    for e in range(elo, ehi):
        for m in float_patterns(ebits, mbits):
            bits = (sign << (ebits + mbits)) | (e << mbits) | m
            R.ctx.count()
            R.ctx.note_distinct(1)
            data = check_float(R, tname, bits)
            prefixes(R, seen, tname, data)


def w_floatbits(R, seen, tname, bitlist):
    for bits in bitlist:
        R.ctx.count()
        R.ctx.note_distinct(1)
        data = check_float(R, tname, bits)
        prefixes(R, seen, tname, data)


def w_shortprefixes(R, seen, spec, width):
    """Every byte string shorter than a fixed-width type of <= 2 bytes."""
    spec = tup(spec)
    for n in range(width):
        for x in range(256 ** n):
            R.ctx.count()
            R.ctx.note_distinct(1)
            check_prefix(R, spec, x.to_bytes(n, 'big'), width)
    R.ctx.cls('prefixes: all cuts')


def w_trailing(R, seen):
    for lead in (b'', b'\x07\x08'):
        for data in (b'', b'\x00', b'abc', pattern(256), pattern(16384)):
            R.ctx.count()
            R.ctx.note_distinct(1)
            check_trailing(R, lead, data)


def w_dispatch(R, seen):
    for sname in sorted(scenarios()):
        R.ctx.count()
        R.ctx.note_distinct(1)
        R.ctx.cls('dispatch scenario')
        check_dispatch(R, sname)


WORK = {'ints': w_ints, 'vals': w_vals, 'fixed': w_fixed,
        'anglegrid': w_anglegrid, 'anglevals': w_anglevals,
        'angledec': w_angledec, 'floats': w_floats,
        'floatbits': w_floatbits, 'shortprefixes': w_shortprefixes,
        'trailing': w_trailing, 'dispatch': w_dispatch}


def worker(ctx, task):
    R = Rec(ctx)
    WORK[task[0]](R, set(), *task[1:])
    R.flush()


def chunks(seq, n):
    seq = list(seq)
    return [seq[i:i + n] for i in range(0, len(seq), n)]


# -- construction histories -----------------------------------------------------
# The parameterised types are objects: FixedPoint(int_type[, fractional_bits])
# and PrefixedArray(length_type, element_type).  Everywhere else each type
# object is built once (build()) and kept.  Here several objects of one kind
# are constructed one after the other - positionally and by keyword, the same
# parameters twice, before and after other objects have been used - and
# after the construction steps every object made so far, old and new, must
# still encode and decode with ITS OWN parameters.
# A parameterisation is [kind, positional arguments, keyword arguments] with
# type names for types and nested parameterisations for nested arrays.

def fixed_params(base, other):
    return [['FixedPoint', [base], {}],
            ['FixedPoint', [base, 12], {}],
            ['FixedPoint', [base], {'fractional_bits': 12}],
            ['FixedPoint', [base], {'fractional_bits': 3}],
            ['FixedPoint', [], {'integer_type': base, 'fractional_bits': 8}],
            ['FixedPoint', [other, 12], {}]]


CONSTRUCT_GROUPS = {
    'FixedPoint over Byte': fixed_params('Byte', 'Short'),
    'FixedPoint over Short': fixed_params('Short', 'Integer'),
    'FixedPoint over Integer': fixed_params('Integer', 'Short'),
    'PrefixedArray': [
        ['PrefixedArray', ['VarInt', 'Byte'], {}],
        ['PrefixedArray', ['Short', 'Byte'], {}],
        ['PrefixedArray', ['VarInt'], {'element_type': 'Short'}],
        ['PrefixedArray', [], {'length_type': 'Integer',
                               'element_type': 'Byte'}],
        ['PrefixedArray', ['VarInt', 'String'], {}],
        ['PrefixedArray', [], {'length_type': 'Short', 'element_type':
                               ['PrefixedArray', ['VarInt', 'Byte'], {}]}]],
}
PAR_NAMES = {'FixedPoint': ('integer_type', 'fractional_bits'),
             'PrefixedArray': ('length_type', 'element_type')}


def construct(par):
    kind, a, k = par
    T = env().T

    def val(x):
        if isinstance(x, str):
            return getattr(T, x)
        return construct(x) if isinstance(x, list) else x
    return getattr(T, kind)(*[val(x) for x in a],
                            **{n: val(x) for n, x in sorted(k.items())})


def par_spec(par):
    """The spec (what the reference is asked for) of a parameterisation,
    worked out from the documented signatures."""
    kind, a, k = par
    d = dict(zip(PAR_NAMES[kind], a))
    if set(d) & set(k) or set(k) - set(PAR_NAMES[kind]):
        raise ToolError('bad parameterisation %r' % (par,))
    d.update(k)
    if kind == 'FixedPoint':
        return ('FixedPoint', d['integer_type'], d.get('fractional_bits'))
    return ('PrefixedArray',) + tuple(
        par_spec(x) if isinstance(x, list) else x
        for x in (d['length_type'], d['element_type']))


def par_text(par):
    kind, a, k = par

    def t(x):
        return par_text(x) if isinstance(x, list) else str(x)
    return '%s(%s)' % (kind, ', '.join(
        [t(x) for x in a] +
        ['%s=%s' % (n, t(x)) for n, x in sorted(k.items())]))


def construct_values(spec):
    """[(value, rank)] - small, but every value tells the parameters apart"""
    fx = fixed_of(spec)
    if fx:
        w = INTS[fx[0]][0]
        hi = (1 << (8 * w - 1)) - 1
        raws = sorted({0, 1, -1, 3, 37, -86, 48, hi // 3, hi, -hi - 1})
        return [(math.ldexp(r, -fx[1]), abs(r) * 8) for r in raws
                if -hi - 1 <= r <= hi]
    el = spec[2]
    if not isinstance(el, str):
        return [(v, None) for v in ([], [[]], [[1, -2], [], [3]])]
    pool = POOLS.get(el) or [0, 1, -1, 300, -32768, 0x1234]
    return [(v, None) for v in ([], pool[:1], pool[:3], list(pool))]


def constructions(thorough):
    """[(group, [3 parameterisation indices], [use after step 1, 2, 3])]:
    every sequence of 3 constructions (repetitions included) out of the 6
    parameterisations of each group, with every object made so far used
    after every step / only after the last (thorough: every subset of the
    first two steps)."""
    masks = [[1, 1, 1], [0, 0, 1]] + ([[0, 1, 1], [1, 0, 1]] if thorough
                                      else [])
    out = []
    for g in sorted(CONSTRUCT_GROUPS):
        n = len(CONSTRUCT_GROUPS[g])
        for i in range(n):
            for j in range(n):
                for k in range(n):
                    for m in masks:
                        out.append([g, [i, j, k], m])
    return out


def run_construction(R, item, before=()):
    ctx = R.ctx
    g, idx, mask = item
    pars = [CONSTRUCT_GROUPS[g][i] for i in idx]
    case = {'op': 'construct', 'item': item, 'before': list(before)}
    hist = '%s; used after step %s' % (
        ' ; '.join(par_text(p) for p in pars),
        ','.join(str(i + 1) for i in range(3) if mask[i]))
    ctx.count()
    ctx.note_distinct(1)
    if len(set(idx)) < 3:
        ctx.cls('construction history: the same parameterisation twice')
    if any(p[2] for p in pars):
        ctx.cls('construction history: keyword arguments')
    if mask[0] or mask[1]:
        ctx.cls('construction history: an object used before a later '
                'construction')
    if not mask[0]:
        ctx.cls('construction history: two objects made before the first '
                'use of either')
    objs = []
    for step, par in enumerate(pars):
        try:
            objs.append((par, construct(par)))
        except Exception as e:
            R.fail('%s construction: raises %s' % (par[0], exc_name(e)), step,
                   hist, '%s raised %s: %s (step %d of the construction '
                   'history %s)' % (par_text(par), exc_name(e), e, step + 1,
                                    hist), case)
            return
        if not mask[step]:
            continue
        for j, (pj, Tj) in enumerate(objs):
            spec = par_spec(pj)
            obj = {'T': Tj, 'tag': ' object among others',
                   'where': ' [object %d = %s, after step %d of the '
                            'construction history %s]'
                            % (j + 1, par_text(pj), step + 1, hist),
                   'case': case}
            for v, rank in construct_values(spec):
                ctx.count()
                check_value(R, spec, v, rank=rank, obj=obj)


# -- failure and re-entrancy histories ------------------------------------------
# A codec call must not leave anything behind for the next one: not when the
# sink's send() (the stream's read()) raised in the middle of it, and not
# when the sink's send() itself encodes a value while the outer call is in
# progress (a length-prefixing or framing wrapper).  One representative of
# each type family, all ordered pairs (failing operation, next operation).

REP_SPECS = ('Boolean', 'Byte', 'Integer', 'Long', 'Double', 'VarInt',
             'String', 'UUID', 'Angle', ('FixedPoint', 'Short', 12),
             'Position', 'VarIntPrefixedByteArray', 'ShortPrefixedByteArray',
             ('PrefixedArray', 'Short', 'String'))
SEND_EXC = ('BrokenPipeError', 'InterruptedError', 'KeyError')
READ_EXC = ('ConnectionResetError', 'InterruptedError', 'KeyError',
            'TimeoutError', 'BlockingIOError', 'end of stream')


# Inputs that are NOT the encoding of any value (nor a strict prefix of one):
# what the decoder answers to them is not judged - the property is silent -
# but whatever it answers, the operations after it must be right again (a
# decoder object, buffer or table that survives the call must not keep
# anything of the bad input).
MALFORMED = (
    ('String', (
        ('text ending inside a 3-byte sequence', b'\x05abc\xe2\x82'),
        ('text ending inside a 2-byte sequence', b'\x02a\xc3'),
        ('text ending inside a 4-byte sequence', b'\x03\xf0\x9f\x98'),
        ('lone continuation bytes', b'\x02\x80\x80'),
        ('byte FF', b'\x01\xff'),
        ('over-long form of U+0000', b'\x02\xc0\x80'),
        ('encoded surrogate', b'\x03\xed\xa0\x80'),
        ('lead byte then ASCII', b'\x02\xe2a'))),
    (('PrefixedArray', 'Short', 'String'), (
        ('second element ending inside a sequence',
         b'\x00\x02\x01a\x02b\xc3'),
        ('first element ending inside a sequence',
         b'\x00\x02\x01\xe2\x01a'))),
    ('VarInt', (('six continuation bytes', b'\xff' * 6 + b'\x01'),)),
    ('VarIntPrefixedByteArray', (
        ('length 2^32-1, two bytes present', b'\xff\xff\xff\xff\x0fab'),)),
    ('Boolean', (('byte 02', b'\x02'),)),
)


def reps():
    out = []
    for want in REP_SPECS:
        t = [t for t in TWINS if tup(t[0]) == want and len(t) == 3]
        if len(t) != 1:
            raise ToolError('no representative values for %r' % (want,))
        out.append(t[0])
    return out


def make_exc(kind):
    return {'BrokenPipeError': BrokenPipeError(32, 'Broken pipe'),
            'ConnectionResetError': ConnectionResetError(
                104, 'Connection reset by peer'),
            'InterruptedError': InterruptedError(
                4, 'Interrupted system call'),
            'TimeoutError': TimeoutError('timed out'),
            'BlockingIOError': BlockingIOError(
                11, 'Resource temporarily unavailable'),
            'KeyError': KeyError('transport')}[kind]


class FaultSink(object):
    """send() raises at its k-th call, copies into a PacketBuffer otherwise"""

    def __init__(self, k, kind):
        self.pb, self.k, self.kind = env().PacketBuffer(), k, kind
        self.calls, self.failed = 0, False

    def send(self, data):
        self.calls += 1
        if self.calls == self.k:
            self.failed = True
            raise make_exc(self.kind)
        self.pb.send(data)


class FaultStream(object):
    """read() raises at its k-th call ('end of stream': returns nothing from
    then on), hands out the data otherwise"""

    def __init__(self, data, k, kind):
        self.pb = env().PacketBuffer()
        self.pb.send(data)
        self.pb.reset_cursor()
        self.k, self.kind, self.calls, self.failed = k, kind, 0, False

    def read(self, n=-1):
        self.calls += 1
        if self.calls >= self.k and self.kind == 'end of stream':
            self.failed = True
            return b''
        if self.calls == self.k:
            self.failed = True
            raise make_exc(self.kind)
        return self.pb.read(n) if n is not None and n >= 0 \
            else self.pb.read()

    def refill(self, data):
        """the same object, from now on an ordinary stream over `data`"""
        self.pb = env().PacketBuffer()
        self.pb.send(data)
        self.pb.reset_cursor()
        self.k, self.kind, self.calls = 0, None, 0


class ReSink(object):
    """A framing wrapper: before it forwards a chunk to the inner buffer it
    encodes a value of its own into it - while the outer encoder that called
    send() is still in progress."""

    def __init__(self, inner, emit):
        self.inner, self.emit, self.chunks = inner, emit, []

    def send(self, data):
        self.chunks.append(bytes(data))
        if len(self.chunks) > 4096:
            raise ValueError('more than 4096 send calls')
        self.emit(self.inner)
        self.inner.send(data)


def rep_value(spec, v):
    v = _unhex(v)
    return _tuples(spec, v) if needs_ctx(spec) else v


def send_into(spec, v, sink, mode=None):
    """-> 'ok' | 'raise <name>' | 'horizon'"""
    T = build(spec)
    mode = mode or ('ctx' if needs_ctx(spec) else 'plain')
    try:
        if mode == 'ctx':
            bounded(T.send_with_context, v, sink, context(None))
        else:
            bounded(T.send, v, sink)
        return 'ok'
    except Horizon:
        return 'horizon'
    except Exception as e:
        return 'raise ' + exc_name(e)


def read_from(spec, stream, mode=None):
    """-> ('value', v) | ('raise', name)"""
    T = build(spec)
    mode = mode or ('ctx' if needs_ctx(spec) else 'plain')
    try:
        if mode == 'ctx':
            return ('value', T.read_with_context(stream, context(None)))
        return ('value', T.read(stream))
    except Exception as e:
        return ('raise', exc_name(e))


def fault_histories(thorough):
    n = len(REP_SPECS)
    ks = (1, 2, 3) if thorough else (1, 2)
    out = []
    for a in range(n):
        for b in range(n):
            for nxt in ('send', 'read'):
                for k in ks:
                    out += [['sendfail', a, b, nxt, k, e] for e in SEND_EXC]
                    out += [['readfail', a, b, nxt, k, e] for e in READ_EXC]
            out.append(['reenter', a, b, 'send', 0, ''])
    for spec, inputs in MALFORMED:
        a = REP_SPECS.index(spec)
        for k in range(len(inputs)):
            for b in range(n):
                for nxt in ('send', 'read'):
                    out.append(['malformed', a, b, nxt, k, ''])
    return out


def run_fault(R, item, before=()):
    ctx = R.ctx
    kind, ia, ib, nxt, k, exc = item
    R_ = reps()
    sa, va, _ = R_[ia]
    sb, _, vb = R_[ib]
    sa, sb = tup(sa), tup(sb)
    va, vb = rep_value(sa, va), rep_value(sb, vb)
    ea, eb = twin_encoding(sa, va, None), twin_encoding(sb, vb, None)
    case = {'op': 'fault', 'item': item, 'before': list(before)}
    PB = env().PacketBuffer
    ctx.count()
    ctx.note_distinct(1)
    if kind == 'sendfail':
        sink = FaultSink(k, exc)
        r = send_into(sa, va, sink)
        pre = 'after %s.send(%s) into a sink whose send() raised %s at ' \
            'call %d' % (name(sa), short(va), exc, k)
        ctx.outcome('send into a failing sink: %s' % r)
        if sink.failed and r == 'raise ' + exc:
            ctx.cls('history: send failed with %s' % exc)
        if not sink.failed:
            ctx.cls('history: fault point beyond the operation')
    elif kind == 'readfail':
        st = FaultStream(ea + SENT, k, exc)
        r = read_from(sa, st)
        pre = 'after %s.read(%s) from a stream whose read() %s at call %d' \
            % (name(sa), hexs(ea), 'returned nothing' if
               exc == 'end of stream' else 'raised ' + exc, k)
        ctx.outcome('read from a failing stream: %s' % ':'.join(r[:1] + (
            r[1:] if r[0] == 'raise' else ())))
        if st.failed and r[0] == 'raise':
            ctx.cls('history: read failed with %s' % exc)
        if not st.failed:
            ctx.cls('history: fault point beyond the operation')
        # the same stream object, refilled: only its content now may matter
        st.refill(ea + SENT)
        r2 = read_from(sa, st)
        left = len(st.pb.read())
        ctx.count()
        if r2[0] != 'value' or not same(sa, r2[1], va) or left != len(SENT):
            R.fail('%s decode from the same stream object after a failed '
                   'read: wrong result' % family(sa), 0, pre,
                   '%s; the same stream object was then given the content '
                   '%s + sentinel a55a: %s.read gave %s and left %d byte(s), '
                   'expected %s and 2' % (pre, hexs(ea), name(sa),
                                          short(r2[1:]), left, short(va)),
                   case)
    elif kind == 'malformed':
        label, data = dict(MALFORMED)[REP_SPECS[ia]][k]
        buf = PB()
        buf.send(data + SENT)
        buf.reset_cursor()
        r = read_from(sa, buf)
        pre = 'after %s.read(%s) (not an encoding: %s), which %s' % (
            name(sa), hexs(data), label, 'returned %s' % short(r[1])
            if r[0] == 'value' else 'raised ' + r[1])
        ctx.outcome('read of a malformed input: %s' % r[0])
        ctx.cls('history: malformed input (%s)' % label)
    else:
        inner = PB()
        sink = ReSink(inner, lambda s: send_into(sb, vb, s))
        r = send_into(sa, va, sink)
        pre = 'after %s.send(%s) into a sink whose send() encodes %s(%s) ' \
            'into the buffer before each chunk' % (name(sa), short(va),
                                                   name(sb), short(vb))
        ctx.cls('history: re-entrant send')
        got = inner.get_writable()
        outer = b''.join(sink.chunks)
        want = b''.join(eb + c for c in sink.chunks)
        if r != 'ok' or outer != ea or got != want:
            R.fail('%s encode into a re-entrant sink: wrong bytes'
                   % family(sa), len(ea), '%s / %s' % (name(sa), name(sb)),
                   '%s.send(%s) into a sink whose send() first encodes '
                   '%s(%s) into the inner buffer and then forwards the '
                   'chunk: the call gave %s, the sink received %s (the '
                   'protocol prescribes %s), the inner buffer holds %s '
                   '(expected, for the chunks received, %s)'
                   % (name(sa), short(va), name(sb), short(vb), r,
                      hexs(outer), hexs(ea), hexs(got), hexs(want)), case)
    # the next operation, and those after it, must be right again
    modes = ['ctx'] if needs_ctx(sb) else ['plain', 'ctx']
    steps = [(nxt, sb, vb, eb, m) for m in modes]
    steps += [(d, sa, va, ea, None) for d in ('send', 'read')]
    for i, (d, spec, v, enc, mode) in enumerate(steps):
        via = ' via %s_with_context' % d if mode == 'ctx' and \
            not needs_ctx(spec) else ''
        ident = '%s: %s %s%s' % (pre, d, name(spec), via)
        ctx.count()
        if d == 'send':
            buf = PB()
            r = send_into(spec, v, buf, mode)
            got = buf.get_writable()
            ctx.outcome('send after a history: %s' % r)
            if r != 'ok' or got != enc:
                R.fail('%s encode after a %s: wrong bytes'
                       % (family(spec), FAULT_TEXT[kind]), i, ident,
                       '%s, operation %d afterwards: %s.send(%s)%s into a '
                       'fresh buffer gave %s and wrote %s, the protocol '
                       'prescribes %s' % (pre, i + 1, name(spec), short(v),
                                          via, r, hexs(got), hexs(enc)), case)
        else:
            buf = PB()
            buf.send(enc + SENT)
            buf.reset_cursor()
            r = read_from(spec, buf, mode)
            left = len(buf.read())
            ctx.outcome('read after a history: %s' % r[0])
            if r[0] != 'value' or not same(spec, r[1], v) or \
                    left != len(SENT):
                R.fail('%s decode after a %s: wrong result'
                       % (family(spec), FAULT_TEXT[kind]), i, ident,
                       '%s, operation %d afterwards: %s.read(%s + sentinel '
                       'a55a)%s from a fresh buffer gave %s and left %d '
                       'byte(s), expected %s and 2' % (
                           pre, i + 1, name(spec), hexs(enc), via,
                           short(r[1:]), left, short(v)), case)


FAULT_TEXT = {'sendfail': 'failed send', 'readfail': 'failed read',
              'malformed': 'read of a malformed input',
              'reenter': 're-entrant send'}
FORKED = {'construct': run_construction, 'fault': run_fault}
FORK_CHUNK = {'construct': 8, 'fault': 23}


def _forked_child(proto, kind, items):
    sub = Ctx(*proto)
    R = Rec(sub)
    for j, item in enumerate(items):
        FORKED[kind](R, item, items[:j])
    R.flush()
    return sub.export()


def w_forked(ctx, task):
    """task: (kind, items) - the items are executed one after the other in
    ONE fresh fork of a process that has only imported the library"""
    kind, items = task
    env()
    context(None)
    ctx.absorb(explore.in_child(
        _forked_child, (ctx.pid, ctx.tier, ctx.seed, ctx.level), kind,
        items))
    ctx.cls('histories: fresh process')


def forked_tasks(ctx):
    out = []
    for kind, items in (('construct', constructions(ctx.thorough)),
                        ('fault', fault_histories(ctx.thorough))):
        n = 1 if ctx.thorough and kind == 'construct' else FORK_CHUNK[kind]
        out += [(kind, items[i:i + n]) for i in range(0, len(items), n)]
        ctx.extra.setdefault('histories', {})[kind] = {
            'histories': len(items), 'per fresh process': n}
    return out


def build_tasks(ctx):
    rnd = random.Random(ctx.seed)
    th = ctx.thorough
    tasks = []
    # integers: exhaustive / structured
    tasks.append(('vals', 'Boolean', [False, True], None))
    tasks.append(('ints', 'Byte', -128, 128))
    tasks.append(('ints', 'UnsignedByte', 0, 256))
    for lo in range(-32768, 32768, 4096):
        tasks.append(('ints', 'Short', lo, lo + 4096))
    for lo in range(0, 65536, 4096):
        tasks.append(('ints', 'UnsignedShort', lo, lo + 4096))
    for spec, w in (('Boolean', 1), ('Byte', 1), ('UnsignedByte', 1),
                    ('Short', 2), ('UnsignedShort', 2), ('Angle', 1),
                    (('FixedPoint', 'Byte', None), 1),
                    (('FixedPoint', 'Byte', 12), 1),
                    (('FixedPoint', 'Short', None), 2),
                    (('FixedPoint', 'Short', 12), 2)):
        tasks.append(('shortprefixes', spec, w))
    alph32 = int_alphabet(32, True, rnd)
    for spec, bits, signed in (('Integer', 32, True), ('Long', 64, True),
                               ('UnsignedLong', 64, False)):
        vals = alph32 if spec == 'Integer' else int_alphabet(bits, signed, rnd)
        for c in chunks(vals, 600):
            tasks.append(('vals', spec, c, None))
    # fixed point
    for n in (None, 12):
        tasks.append(('fixed', ('FixedPoint', 'Byte', n), (-128, 128),
                      (1, 2, 3)))
        for lo in range(-32768, 32768, 4096):
            tasks.append(('fixed', ('FixedPoint', 'Short', n),
                          (lo, lo + 4096), (1, 2, 3)))
        for c in chunks(alph32, 600):
            tasks.append(('fixed', ('FixedPoint', 'Integer', n), c,
                          (1, 2, 3)))
    for c in chunks(alph32, 600):
        tasks.append(('fixed', 'FixedPointInteger', c, (1, 2, 3)))
    # angles
    tasks.append(('angledec',))
    den = 64 if th else 16
    top = 720 * den
    for lo in range(-top, top + 1, 2048):
        tasks.append(('anglegrid', den, lo, min(lo + 2048, top + 1)))
    grid = {k / den for k in range(-top, top + 1)}
    extra = set()
    for m in range(256):
        t = (2 * m + 1) * 45 / 64
        extra |= {t, t - 360, t + 360, t - 720}
    extra |= {rnd.randrange(-720 * 1024, 720 * 1024 + 1) / 1024
              for _ in range(256)}
    ints = [-720, -90, -1, 0, 45, 90, 180, 270, 359, 360, 719]
    flts = sorted(x for x in extra if x not in grid)
    tasks.append(('anglevals', ints + flts))
    # floats
    tasks.append(('floats', 'Float', 0, 0, 256))
    tasks.append(('floats', 'Float', 1, 0, 256))
    for sign in (0, 1):
        for lo in range(0, 2048, 256):
            tasks.append(('floats', 'Double', sign, lo, lo + 256))
    known32 = {0x3f800000, 0xc0200000, 0x3dcccccd, 0x7f7fffff, 0x00800000}
    known64 = {0x3ff0000000000000, 0x3fb999999999999a, 0x7fefffffffffffff,
               0x0010000000000000, 0xc000000000000000}
    tasks.append(('floatbits', 'Float', sorted(
        known32 | {rnd.getrandbits(32) for _ in range(64)})))
    tasks.append(('floatbits', 'Double', sorted(
        known64 | {rnd.getrandbits(64) for _ in range(64)})))
    # strings, byte arrays, uuids
    strs = string_values(th)
    smalls = [s for s in strs if len(s) < 1000]
    for c in chunks(smalls, 40):
        tasks.append(('vals', 'String', c, None))
    for s in strs:
        if len(s) >= 1000:
            tasks.append(('vals', 'String', [s], None))
    for kind in ('VarIntPrefixedByteArray', 'ShortPrefixedByteArray'):
        vals = bytearray_values(kind, th, rnd)
        tasks.append(('vals', kind, [b for b in vals if len(b) < 1000], None))
        for b in vals:
            if len(b) >= 1000:
                tasks.append(('vals', kind, [b], None))
    for c in chunks(uuid_values(rnd), 60):
        tasks.append(('vals', 'UUID', c, None))
    tasks.append(('trailing',))
    # arrays
    counts = [127, 128, 129, 255, 256, 257]
    for L in LENGTH_TYPES:
        for E in sorted(POOLS):
            spec = ('PrefixedArray', L, E)
            tasks.append(('vals', spec, array_values(POOLS[E], counts), None))
        big = [16383, 16384] + ([32767] if th else [])
        for n in big:
            if th or L == 'VarInt':
                tasks.append(('vals', ('PrefixedArray', L, 'Byte'),
                              [cyc(POOLS['Byte'], n)], None))
        for Li in LENGTH_TYPES:
            spec = ('PrefixedArray', L, ('PrefixedArray', Li, 'Byte'))
            vals = [[], [[]], [[], []], [[1]], [[1, 2, 3], [], [4]],
                    [cyc(POOLS['Byte'], 128), [1]],
                    [[i - 65] for i in range(130)],
                    [cyc(POOLS['Byte'], i) for i in range(20)]]
            tasks.append(('vals', spec, vals, None))
        for proto in (PROTO_A, PROTO_B):
            tasks.append(('vals', ('PrefixedArray', L, 'Position'),
                          array_values(POSITIONS, [127, 128, 129]), proto))
    for proto in (PROTO_A, PROTO_B):
        tasks.append(('vals', ('PrefixedArray', 'VarInt',
                               ('PrefixedArray', 'Short', 'Position')),
                      [[], [[]], [POSITIONS[:2], [], POSITIONS]], proto))
    tasks.append(('vals', ('PrefixedArray', 'VarInt',
                           ('PrefixedArray', 'VarInt', 'String')),
                  [[], [[]], [['a', '\xe9'], [], ['\u20ac\U0001f600', '']],
                   [POOLS['String']] * 3], None))
    tasks.append(('vals', ('PrefixedArray', 'VarInt',
                           ('PrefixedArray', 'Short',
                            ('PrefixedArray', 'Integer', 'UnsignedShort'))),
                  [[], [[[]]], [[[1, 2], []], [], [[65535]]]], None))
    tasks.append(('dispatch',))
    rnd.shuffle(tasks)
    return tasks


REQUIRED_CLASSES = [
    'integer negative', 'float NaN', 'float infinity', 'float subnormal',
    'float zero -', 'float zero +', 'angle exact tie', 'angle negative',
    'angle rounds up to a full turn (wraps to 0)',
    'fixed point negative raw', 'fixed point value between grid points',
    'String widest char 1 byte(s)', 'String widest char 2 byte(s)',
    'String widest char 3 byte(s)', 'String widest char 4 byte(s)',
    'String length prefix 1 byte(s)', 'String length prefix 2 byte(s)',
    'String length prefix 3 byte(s)',
    'String starts with U+FEFF', 'String ends with U+FEFF',
    'String has U+FEFF inside', 'String starts with U+FFFE',
    'String starts with U+FFFF', 'String ends with U+FFFF',
    'String starts with U+0000', 'String ends with U+0000',
    'array empty', 'array non-empty',
    'array nested', 'array of context-requiring elements',
    'prefixes: all cuts', 'prefixes: sampled cuts (long encoding)',
    'dispatch scenario',
    'construction history: the same parameterisation twice',
    'construction history: keyword arguments',
    'construction history: an object used before a later construction',
    'construction history: two objects made before the first use of either',
    'histories: fresh process', 'history: re-entrant send',
    'history: fault point beyond the operation',
] + ['history: send failed with %s' % e for e in SEND_EXC] \
  + ['history: read failed with %s' % e for e in READ_EXC] \
  + ['history: malformed input (%s)' % l for _, i in MALFORMED for l, _ in i]


# -- concurrent encoders / decoders ---------------------------------------------
# The codecs are meant to be pure: nothing two calls share.  Every pair of
# operations below is run by two threads under the controlled scheduler with
# every source line of the wire-type modules a scheduling point; in every
# schedule each thread must observe exactly what it observes when run alone
# (and the sequential results are the ones judged against the reference in
# the other sections).

RACE_MODULES = ('minecraft.networking.types.basic',
                'minecraft.networking.types.utility',
                'minecraft.networking.types.enum',
                'minecraft.networking.packets.packet_buffer',
                'minecraft.utility')
RACE_OPS = [
    ('send', 'VarInt', 16702650), ('send', 'VarInt', 300),
    ('send', 'VarInt', 1), ('send', 'VarLong', (1 << 40) + 3),
    ('send', 'String', 'x' * 300), ('send', 'String', 'a\xe9\u20ac'),
    ('send', 'VarIntPrefixedByteArray', 'hex:' + pattern(200).hex()),
    ('send', ('PrefixedArray', 'VarInt', 'Short'), [1, -2, 300]),
    ('send', ('PrefixedArray', 'Short', 'String'), ['ab', '', 'c' * 130]),
    ('send', 'UUID', '01234567-89ab-cdef-0123-456789abcdef'),
    ('send', 'Angle', 90.0), ('send', ('FixedPoint', 'Integer', None), 1.5),
    ('send', 'Position', [1200, 65, -420]), ('send', 'Long', -2),
    ('send', 'Double', 0.1),
    ('read', 'VarInt', 'hex:bab9fb07'), ('read', 'VarLong',
                                         'hex:8380808080200a'),
    ('read', 'String', 'hex:' + (b'\xac\x02' + b'y' * 300).hex()),
    ('read', ('PrefixedArray', 'VarInt', 'String'),
     'hex:03026162000163'),
    ('read', 'UUID', 'hex:' + bytes(range(16)).hex()),
    ('read', 'Position', 'hex:00012c3fffe5c041'),
]


# The SAME operation twice at the same time with two different values, for
# every wire type: a scratch buffer, a memo or a cached codec object that
# belongs to ONE type only shows between two calls of that type.
# (spec, value a, value b[, protocol a, protocol b])
TWINS = [
    ('Boolean', True, False), ('Byte', -2, 77), ('UnsignedByte', 200, 7),
    ('Short', -300, 0x1234), ('UnsignedShort', 65000, 258),
    ('Integer', -70000, 0x01020304), ('Long', -2, 0x0102030405060708),
    ('UnsignedLong', 2 ** 64 - 2, 0x1112131415161718),
    ('Float', 1.5, -2.25), ('Double', 0.1, -1e300),
    ('VarInt', 300, 16702650), ('VarLong', (1 << 40) + 3, (1 << 62) + 1),
    ('String', 'a\xe9€', 'x' * 130),
    ('UUID', '01234567-89ab-cdef-0123-456789abcdef',
     'fedcba98-7654-3210-fedc-ba9876543210'),
    ('Angle', 90.0, 181.40625),
    (('FixedPoint', 'Integer', None), 1.5, -20.25),
    (('FixedPoint', 'Short', 12), 0.5, -1.25),
    ('FixedPointInteger', 3.0, -0.5),
    ('Position', [1200, 65, -420], [-3, 4, 5]),
    ('Position', [1200, 65, -420], [-3, 4, 5], PROTO_A, PROTO_B),
    ('Position', [1200, 65, -420], [-3, 4, 5], PROTO_B, PROTO_B),
    ('VarIntPrefixedByteArray', 'hex:' + pattern(200).hex(),
     'hex:' + pattern(131, 9).hex()),
    ('ShortPrefixedByteArray', 'hex:' + pattern(210).hex(),
     'hex:' + pattern(140, 5).hex()),
    ('TrailingByteArray', 'hex:' + pattern(40).hex(),
     'hex:' + pattern(33, 3).hex()),
    (('PrefixedArray', 'VarInt', 'Short'), [1, -2, 300], [7, 8]),
    (('PrefixedArray', 'Short', 'String'), ['ab', '', 'c' * 130], ['€']),
    (('PrefixedArray', 'VarInt', 'Position'), [[1, 2, 3], [4, 5, 6]],
     [[-1, -2, -3]]),
    (('PrefixedArray', 'VarInt', ('PrefixedArray', 'Short', 'Byte')),
     [[1, 2], [], [3]], [[-4]]),
]

# History: the concurrent sections above start from whatever the process has
# seen.  Here the two operations run after a warm-up history of WARM distinct
# sizes through every length-keyed codec (byte arrays of both kinds and
# strings, encode and decode), so that any size-bounded cache of up to WARM
# entries is full, and they use lengths the history never used (and that
# differ from each other), so that both miss at the same time.
WARM = 70
WARM_OPS = [
    ('send', 'VarIntPrefixedByteArray', 'hex:' + pattern(200).hex()),
    ('read', 'VarIntPrefixedByteArray',
     'hex:' + ref.var_bytes(pattern(131, 9)).hex()),
    ('send', 'ShortPrefixedByteArray', 'hex:' + pattern(210).hex()),
    ('read', 'ShortPrefixedByteArray',
     'hex:' + ref.short_bytes(pattern(260, 2)).hex()),
    # second value of each kind
    ('send', 'VarIntPrefixedByteArray', 'hex:' + pattern(300, 1).hex()),
    ('read', 'VarIntPrefixedByteArray',
     'hex:' + ref.var_bytes(pattern(150, 4)).hex()),
    ('send', 'ShortPrefixedByteArray', 'hex:' + pattern(220, 6).hex()),
    ('read', 'ShortPrefixedByteArray',
     'hex:' + ref.short_bytes(pattern(170, 7)).hex()),
]


def _unhex(v):
    return bytes.fromhex(v[4:]) if isinstance(v, str) and \
        v.startswith('hex:') else v


def twin_encoding(spec, v, proto):
    spec, v = tup(spec), _unhex(v)
    if spec == 'VarLong':
        return ref.varnum(v)
    if spec == 'Angle':
        return bytes([ref.angle_byte(v)])
    if needs_ctx(spec):
        v = _tuples(spec, v)
    return ref_encode(spec, v, proto)


def twin_pairs():
    """[(op a, op b)]: for every entry of TWINS the two sends and the two
    reads (of the reference encodings)."""
    out = []
    for t in TWINS:
        spec, a, b = t[:3]
        pa, pb = (t[3], t[4]) if len(t) > 3 else (None, None)
        out.append((['send', spec, a, pa], ['send', spec, b, pb]))
        out.append((['read', spec, 'hex:' + twin_encoding(spec, a, pa).hex(),
                     pa],
                    ['read', spec, 'hex:' + twin_encoding(spec, b, pb).hex(),
                     pb]))
    return out


def warm_pairs(thorough):
    """quick: every pair of the 4 kinds of byte-array operation, the same
    kind twice included (first value against second value); thorough: every
    pair of the 8 operations."""
    quick = [(list(WARM_OPS[i]), list(WARM_OPS[4 + j]))
             for i in range(4) for j in range(i, 4)]
    if thorough:
        return quick + [(list(WARM_OPS[i]), list(WARM_OPS[j]))
                        for i in range(8) for j in range(i + 1, 8)
                        if not (i < 4 and j >= 4 + i)]
    return quick


class RaceSink(object):
    """What a transport may do with the object handed to send(): consume it
    at once (the PacketBuffer copies it), or keep the reference and consume
    it later - here when the operation has returned."""

    def __init__(self, pb):
        self.pb, self.kept = pb, []

    def send(self, data):
        self.kept.append(data)
        self.pb.send(data)

    def observed(self):
        return (self.pb.get_writable().hex(),
                b''.join(bytes(k) for k in self.kept).hex())


def race_op(op):
    kind, spec, arg = op[:3]
    proto = op[3] if len(op) > 3 else None
    spec = tup(spec)
    T = build(spec)
    cctx = context(proto)
    mode = 'ctx' if needs_ctx(spec) else 'plain'
    arg = _unhex(arg)
    if kind == 'send' and needs_ctx(spec):
        arg = _tuples(spec, arg)
    PB = env().PacketBuffer

    def send():
        sink = RaceSink(PB())
        if mode == 'ctx':
            T.send_with_context(arg, sink, cctx)
        else:
            T.send(arg, sink)
        return sink.observed()

    def read():
        buf = PB()
        buf.send(arg + SENT)
        buf.reset_cursor()
        got = T.read_with_context(buf, cctx) if mode == 'ctx' else T.read(buf)
        return repr(got), len(buf.read())
    return send if kind == 'send' else read


_WARM = {}


def warm_material(n):
    if n not in _WARM:
        _WARM[n] = [(spec, build(spec), v, ref_encode(spec, v))
                    for k in range(1, n + 1)
                    for spec, v in (
                        ('VarIntPrefixedByteArray', pattern(k, k)),
                        ('ShortPrefixedByteArray', pattern(k, k + 1)),
                        ('String', 'w' * k))]
    return _WARM[n]


def warm_up(n):
    """The history before a race: n distinct sizes through every length-keyed
    codec, encode and decode.  -> [problem text]"""
    PB = env().PacketBuffer
    warm_material(n)
    bad = []
    for spec, T, v, want in _WARM[n]:
        try:
            buf = PB()
            T.send(v, buf)
            out = buf.get_writable()
            buf = PB()
            buf.send(want + SENT)
            buf.reset_cursor()
            back = T.read(buf)
            left = len(buf.read())
        except Exception as e:
            bad.append('%s with %d bytes/characters raised %s: %s'
                       % (spec, len(v), exc_name(e), e))
            continue
        if out != want or not same(spec, back, v) or left != len(SENT):
            bad.append('%s with %d bytes/characters: wrote %s (expected '
                       '%s), read back %s leaving %d bytes'
                       % (spec, len(v), hexs(out), hexs(want), short(back),
                          left))
    return bad


# Context dispatch: T.send_with_context / T.read_with_context of every type
# that does not define its own go through ONE descriptor object
# (minecraft.utility.class_and_instancemethod) that binds the generic
# function to the class or to the instance it was looked up on.  Two threads
# doing that for two DIFFERENT types at the same time must each reach their
# own type, and so must every later single-threaded call: whatever the
# descriptor may remember is shared by all types and outlives the two calls.
# (kind, spec, value, 'class' | 'instance': what the method is looked up on)
CTX_OPS = [
    ('send', 'Integer', 258, 'class'),
    ('send', 'Short', -300, 'class'),
    ('read', 'Integer', 0x01020304, 'class'),
    ('send', ('FixedPoint', 'Short', 12), 0.5, 'instance'),
    ('send', 'String', 'h\xe9', 'class'),
    ('read', 'UnsignedShort', 513, 'instance'),
    ('send', ('PrefixedArray', 'VarInt', 'Byte'), [-2], 'instance'),
    ('read', 'VarLong', 300, 'class'),
]
CTX_THIRD = [('send', 'Long', 0x0102030405060708, 'class'),
             ('read', 'Double', 0.1, 'instance')]
# quick: class/class (send/send, send/read, read/read), class/instance,
# instance/instance, class/array element (looked up on the class)
CTX_QUICK = [(0, 1), (1, 2), (0, 3), (3, 5), (1, 6), (2, 7)]


def ctx_pairs(thorough):
    """[(op a, op b, third op, order of the three calls afterwards)]"""
    if not thorough:
        pairs = CTX_QUICK
    else:
        pairs = [(i, j) for i in range(len(CTX_OPS))
                 for j in range(i + 1, len(CTX_OPS))
                 if tup(CTX_OPS[i][1]) != tup(CTX_OPS[j][1])]
    out = []
    for n, (i, j) in enumerate(pairs):
        third = CTX_THIRD[n % 2]
        # the first call afterwards is the one that meets what the race left
        # behind (and may repair it): each of the two types gets to be first;
        # thorough: the third type too
        orders = [[0, 1, 2], [1, 0, 2]] + ([[2, 0, 1]] if thorough else [])
        out += [(list(CTX_OPS[i]), list(CTX_OPS[j]), list(third), o)
                for o in orders]
    return out


def ctx_expected(op):
    kind, spec, v = op[0], tup(op[1]), op[2]
    enc = twin_encoding(spec, v, None).hex()
    return (enc, enc) if kind == 'send' else ('ok', len(SENT))


def ctx_op(op):
    kind, spec, v, how = op[0], tup(op[1]), op[2], op[3]
    T = build(spec)
    if how == 'instance' and isinstance(T, type):
        T = T()
    cctx = context(None)
    enc = twin_encoding(spec, v, None)
    PB = env().PacketBuffer

    def send():
        sink = RaceSink(PB())
        T.send_with_context(v, sink, cctx)
        return sink.observed()

    def read():
        buf = PB()
        buf.send(enc + SENT)
        buf.reset_cursor()
        got = T.read_with_context(buf, cctx)
        return ('ok' if same(spec, got, v) else short(got), len(buf.read()))
    return send if kind == 'send' else read


def ctx_text(o):
    T = name(tup(o[1]))
    return '%s%s.%s_with_context(%s)' % (
        T, '()' if o[3] == 'instance' and isinstance(o[1], str) else '',
        o[0], short(o[2]) if o[0] == 'send' else
        hexs(twin_encoding(o[1], o[2], None)))


def dispatch_body(W, params):
    env()
    ops = list(params['ops']) + [params['third']]
    fns = [ctx_op(o) for o in ops]
    want = [('ok', ctx_expected(o)) for o in ops]
    alone = _tries(fns[:2])         # (the third type is not touched yet)
    got = interleave.race(W, fns[:2])
    viol = []
    both_ = '%s and %s' % (ctx_text(ops[0]), ctx_text(ops[1]))
    for i in (0, 1):
        if alone[i] != want[i]:
            viol.append(('before concurrent use %s_with_context of %s '
                         'differs' % (ops[i][0], name(tup(ops[i][1]))),
                         '%s alone gave %s, the reference says %s'
                         % (ctx_text(ops[i]), short(alone[i]),
                            short(want[i]))))
        if got[i] != want[i]:
            viol.append(('concurrent %s_with_context of %s differs'
                         % (ops[i][0], name(tup(ops[i][1]))),
                         '%s run concurrently with %s gave %s, the '
                         'reference says %s (a send is observed twice: the '
                         'bytes copied at each socket.send() call and the '
                         'objects passed to send() read afterwards; a read '
                         'as (value ok?, bytes left of the 2 sentinel bytes))'
                         % (ctx_text(ops[i]), ctx_text(ops[1 - i]),
                            short(got[i]), short(want[i]))))
    for n, i in enumerate(params['after']):
        res = _tries([fns[i]])[0]
        if res != want[i]:
            viol.append(('after concurrent *_with_context of %s and %s: '
                         '%s_with_context of %s differs'
                         % (name(tup(ops[0][1])), name(tup(ops[1][1])),
                            ops[i][0], name(tup(ops[i][1]))),
                         'after %s had run concurrently, single-threaded '
                         'call number %d: %s gave %s, the reference says %s'
                         % (both_, n + 1, ctx_text(ops[i]), short(res),
                            short(want[i]))))
    return {'outcome': tuple(got), 'violations': viol}


def _tries(ops):
    out = []
    for f in ops:
        try:
            out.append(('ok', f()))
        except Exception as e:
            out.append(('exc', '%s: %s' % (type(e).__name__, e)))
    return out


def op_text(o):
    at = '@%d' % o[3] if len(o) > 3 and o[3] else ''
    return '%s %s%s' % (o[0], name(tup(o[1])), at)


def race_body(W, params):
    if params.get('disp'):
        return dispatch_body(W, params)
    env()
    ops = [race_op(o) for o in params['ops']]
    alone = _tries(ops)
    viol = []
    hist = ''
    if params.get('warm'):
        # after the runs alone, so that the history is what the race meets
        hist = ' after a history of %d distinct sizes' % params['warm']
        for text in warm_up(params['warm'])[:1]:
            viol.append(('warm-up history differs', text))
    got = interleave.race(W, ops)
    again = _tries(ops)
    for i, o in enumerate(params['ops']):
        what = op_text(o)
        other = params['ops'][1 - i]
        if got[i] != alone[i]:
            viol.append(('concurrent %s differs' % what,
                         '%s(%s) run concurrently with %s(%s)%s gave %s; '
                         'alone it gives %s%s'
                         % (what, short(o[2]), op_text(other),
                            short(other[2]), hist, short(got[i]),
                            short(alone[i]),
                            ' (a send is observed twice: the bytes copied '
                            'at the moment of each socket.send() call, and '
                            'the objects passed to send() read when the '
                            'operation has returned)' if o[0] == 'send'
                            else '')))
        if again[i] != alone[i]:
            viol.append(('after concurrent use %s differs' % what,
                         '%s(%s) gives %s after the concurrent run, %s '
                         'before' % (what, short(o[2]), short(again[i]),
                                     short(alone[i]))))
    return {'outcome': tuple(got), 'violations': viol}


def race_prepare(params):
    """Once per worker process (and before the first execution anywhere):
    imports and scheduling points only, no codec is executed."""
    env()
    # armed in every worker from the start (not only where an instruction-
    # level pair happens to run first): outside windows the hooked callbacks
    # switch themselves off, which makes the warm-up histories cheap
    interleave.install(RACE_MODULES, instructions=True)
    for o in params['ops'] + ([params['third']] if 'third' in params
                              else []):
        build(tup(o[1]))
    context(None)
    if params.get('warm'):
        warm_material(params['warm'])


def race_factory(params):
    def scenario(prefix, expect, visited=None, budget=0):
        race_prepare(params)
        return interleave.run(lambda W: race_body(W, params), prefix, expect,
                              budget, modules=RACE_MODULES,
                              instructions=bool(params.get('ins')))
    scenario.prepare = lambda: race_prepare(params)
    return scenario


C_PAIR = 'concurrent pair of codec calls, all schedules'
C_TWIN = 'same operation twice with two values, all schedules'
C_WARM = 'pair of byte-array calls after a warm-up history, line points'
C_WINS = 'pair of byte-array calls after a warm-up history, instruction ' \
    'points'
C_DISP = 'pair of *_with_context calls on two types, instruction points'
C_DISL = 'pair of *_with_context calls on two types, line points'


def run_races(ctx, ex):
    bound = 2 if ctx.thorough else 1
    jobs = []
    # The pairs after a warm-up history come first and run 'cold': every
    # execution in a fresh fork of a worker that has not executed any codec
    # yet, so that whatever an execution leaves behind in module-level state
    # (that is what the history is there to provoke) cannot reach the next.
    for k, (a, b) in enumerate(warm_pairs(ctx.thorough)):
        if bound > 1 and k < 10:
            # (at bound 1 the instruction points below include every
            # schedule that line points give)
            jobs.append(({'ops': [a, b], 'warm': WARM}, bound, C_WARM, True))
        jobs.append(({'ops': [a, b], 'warm': WARM, 'ins': 1}, 1, C_WINS,
                     True))
    # Context dispatch on two types: cold as well (what a torn update leaves
    # behind persists in the process), every instruction a point
    quick = [(x[0], x[1], x[3]) for x in ctx_pairs(False)]
    for a, b, third, after in ctx_pairs(ctx.thorough):
        p = {'ops': [a, b], 'third': third, 'after': after, 'disp': 1}
        jobs.append((dict(p, ins=1), 1, C_DISP, True))
        if bound > 1 and (a, b, after) in quick:
            jobs.append((p, bound, C_DISL, True))
    for i in range(len(RACE_OPS)):
        for j in range(i + 1, len(RACE_OPS)):
            jobs.append(({'ops': [list(RACE_OPS[i]), list(RACE_OPS[j])]},
                         bound, C_PAIR, False))
    for a, b in twin_pairs():
        jobs.append(({'ops': [a, b]}, bound, C_TWIN, False))
    execs = {}
    for params, b, cls, cold in jobs:
        res = ex.explore(ctx, race_factory, params, b, label='race ',
                         cold=cold)
        execs[cls] = execs.get(cls, 0) + res.execs
        ctx.cls(cls)
    for cls in (C_PAIR, C_TWIN, C_WINS, C_DISP) + (
            (C_WARM, C_DISL) if bound > 1 else ()):
        if not ctx.classes.get(cls):
            raise ToolError('vacuity guard: class %r was never exercised'
                            % cls)
    ctx.extra['concurrent'] = {
        'operations': len(RACE_OPS),
        'pairs': {cls: sum(1 for j in jobs if j[2] == cls)
                  for cls in (C_PAIR, C_TWIN, C_WARM, C_WINS, C_DISP,
                              C_DISL)},
        'preemption_bound': bound, 'preemption_bound_instruction_points': 1,
        'warm_up_sizes': WARM,
        'schedules_executed': execs,
        'points': 'every source line (instruction points: every bytecode '
                  'instruction) of ' + ', '.join(RACE_MODULES)}


def run(ctx):
    use_repo()
    ex = explore.Explorer(memo=False)    # forks its workers before anything runs
    try:
        _run(ctx, ex)
    finally:
        ex.close()


def _run(ctx, ex):
    env()
    # histories first: their forks start from a process that has imported
    # the library and executed nothing of it
    hctx = ctx.fork()
    hctx.pmap(w_forked, forked_tasks(ctx))
    tasks = build_tasks(ctx)
    ctx.pmap(worker, tasks)
    report(ctx)
    # what the histories found is reported unless the plain cases already
    # fail (then 'X is wrong after a history' says nothing new)
    fails = hctx.extra.pop('_fails', [])
    plain_bad = bool(ctx.violations)
    ctx.absorb(hctx)
    if not plain_bad:
        ctx.extra['_fails'] = fails
        report(ctx)
    elif fails:
        ctx.extra['history_failures_not_reported'] = sum(
            n for _, n, _ in fails)
    if not ctx.violations:
        run_races(ctx, ex)
    for c in REQUIRED_CLASSES:
        if not ctx.classes.get(c):
            raise ToolError('vacuity guard: class %r was never exercised' % c)
    ctx.extra['tasks'] = len(tasks)
    ctx.sample({'type': 'String', 'value': 'a\xe9\u20ac',
                'reference': ref.string('a\xe9\u20ac')})
    ctx.sample({'type': 'Angle', 'value': 359.5,
                'reference_byte': ref.angle_byte(359.5)})
    ctx.sample({'type': 'FixedPoint(Short,12)', 'value': -1.5,
                'reference': ref.sint(ref.fixed_raw(-1.5, 12), 2)})
    ctx.sample({'type': 'PrefixedArray(Short,String)', 'value': ['a', ''],
                'reference': ref_encode(('PrefixedArray', 'Short', 'String'),
                                        ['a', ''])})
    ctx.sample({'type': 'Double', 'bits': '3fb999999999999a',
                'reference_value': ref.bits_f64(0x3fb999999999999a)})


def replay(ctx, case):
    use_repo()
    env()
    R = Rec(ctx, direct=True)
    ctx.count()
    if 'choices' in case:
        x = race_factory(case['params'])(list(case['choices']), None, None,
                                         'replay')
        res = x.result or {}
        viol = list(res.get('violations', ()))
        if x.failure is not None:
            viol.append((x.failure[0], '%s: %s' % x.failure))
        for key, what in viol:
            ctx.violation('race %s' % key, what, case)
        return
    op = case['op']
    spec = tup(case.get('spec'))
    if op in ('construct', 'fault'):
        items = list(case.get('before', ())) + [case['item']]
        for j, item in enumerate(items):
            FORKED[op](R, item, items[:j])
    elif op == 'value':
        v = case['value']
        if spec == 'Position' or needs_ctx(spec):
            v = _tuples(spec, v)
        check_value(R, spec, v, case.get('proto'))
    elif op == 'prefix':
        check_prefix(R, spec, case['data'], case.get('total', '?'),
                     case.get('proto'))
    elif op == 'angle':
        check_angle(R, case['v'])
    elif op == 'angle_dec':
        check_angle_dec(R, case['b'])
    elif op == 'fixed':
        check_fixed_between(R, spec, case['num'])
    elif op == 'float':
        check_float(R, case['type'], case['bits'])
    elif op == 'trailing':
        check_trailing(R, case['lead'], case['data'])
    elif op == 'dispatch':
        check_dispatch(R, case['name'])
    else:
        raise ToolError('unknown replay op %r' % (op,))


def _tuples(spec, v):
    if spec == 'Position':
        return tuple(v)
    return [_tuples(spec[2], e) for e in v]
