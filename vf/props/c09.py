"""C09 - status queries and version negotiation pick the right version or the
right error.

Every case is one execution of the real Connection over vnet (canonical
schedule) against an independent RefServer.  Inputs are enumerated: allowed
version sets x default version x what the server's status endpoint does x how
its bytes are delivered; constructor refusals; plain status() under all sixteen
handler-mode combinations (argument omitted / None / callable / False, for
both handlers).  The oracle is `expect_connect` / `expect_status`
below (a function of the configuration and the server behaviour only) plus what
the independent server decoded from the wire.

Objects are not only used fresh and alone: SEQUENCES of 2-4 operations are
enumerated on one re-used Connection object (after conversations that ended in
an error and after ones that ended well) and on 2-3 Connection objects that
coexist in the process (constructed up front or at first use, used
alternately, against different servers reporting different versions); every
operation of a sequence is judged by the same single-operation oracle, from
the observations of its own window (callbacks of its object, TCP connections
opened during it).
"""
import errno
import io
import itertools
import json
import random
import re
import sys

from vf import harness, protoids
from vf.refserver import RefServer
from vf.runner import use_repo

LEVEL = 'model_checking'
RULE = ('One execution per case on the real Connection over the virtual '
        'network against the independent RefServer (canonical schedule).  '
        'connect(): allowed-version sets {12 singletons, 66 pairs, 9 '
        'prefixes, the full set over R = 12 supported protocol numbers (1.7.2 '
        '... 1.18.1, two of them pre-release numbers with bit 2^30), None; '
        'every supported number and every supported name as a singleton} '
        'given as numbers / names / last alias name / mixed, x initial_version '
        '{None, numbers, names; every supported number and name once} x server '
        'behaviour {reports each member of R, with/without name; '
        'known-unsupported numbers; unknown numbers (-1, 9999, 2^31-1, 2^63 '
        '...); version object without protocol; empty version object; no '
        'version object; protocol key at top level only; {}; closes at '
        'connect / after handshake / after request; for selected sets (all '
        'non-singleton sets at thorough) each of the 250 supported and 119 '
        'known-unsupported numbers} x delivery {eager, lazy; byte-wise and '
        'failing-send variants for selected sets}; for every non-singleton '
        'set also inconsistent (number, name) replies: number in {unknown, '
        'known-unsupported, supported-but-not-allowed, allowed} x name of '
        '{an allowed, a supported-but-not-allowed, a known-unsupported '
        'version, no version} - the number alone decides; and collections '
        'with duplicates (set / list / tuple): one protocol denoted by two '
        'or all of its names, name + number, the same number 2-3 times '
        '(expected: no status query), and multi-version collections with '
        'repeated members - the expectation follows the SET of protocol '
        'numbers denoted.  Constructor: every '
        'known-unsupported number and name and unknown numbers/names as '
        'allowed member (alone, with valid ones) or as initial_version.  '
        'status(): allowed {None, singleton, pair, name} x the same server '
        'behaviours plus close after response / after pong x handle_status '
        '{omitted, None, custom, False} x handle_ping {omitted (=False), '
        'None, custom, False} x '
        'delivery.  SEQUENCES (one execution each, every operation judged '
        'by the single-operation oracle above from its own window: the '
        'callbacks of its object and the TCP connections opened between '
        'its call and quiescence; an object whose previous conversation is '
        'still open - it logged in - is disconnect()ed by the driver before '
        'it is used again, and what happens during that is not judged).  '
        'REUSE, one Connection object (allowed {47, 757}; all versions; the '
        'full R with initial_version 340; thorough four more incl. names '
        'and auth): first operation in {connect() against a server that '
        'reports an allowed non-latest / a supported-but-not-allowed / a '
        'known-unsupported / an unknown number, sends {}, sends no version '
        'object, closes at connect / after the handshake / after the '
        'request; status() (custom+custom, off+default handlers) against '
        'the latest allowed number, {}, an unknown number, close at connect '
        '/ after request / after response} x second operation in {status() '
        'answered normally x all 16 handler modes; status() against {}, '
        'close after request / response / pong x 4 handler modes (thorough '
        '16); connect() against a server reporting the latest / earliest '
        'allowed / not allowed / unsupported number, {}, no version object, '
        'close after request} x {eager, lazy}; and three operations: first '
        'x 6 second (status custom+custom, off+off, default+none closed '
        'after the request; connect refused / {} / login) x 7 third (status '
        'in 4 handler modes, status closed after the request, connect login '
        '/ refused).  OBJECTS, 2 or 3 Connection objects with the SAME '
        'allowed set (all versions; {47, 757}; R; thorough two more) and '
        'different hosts/ports, all constructed before the first operation '
        '(2 objects also: each constructed at its first use), used in the '
        'orders AB, ABA, ABC (thorough: ABAB, AAB, ABB, ABCA, ABCB); each '
        'slot in {connect() that logs in with a version that differs per '
        'object, connect() refused (unsupported number), connect() falling '
        'back (close after request), status() custom+custom, status() '
        'off+none} (all combinations) x {eager, lazy}; an object that logged '
        'in stays logged in while the others are used.  Expected outcome of '
        'an operation = that of a fresh, lone object with the same '
        'configuration, except that a connect() expected to end in a login '
        'commits the object to that version (a later operation on it is '
        'accepted against the singleton set or against the constructor\'s '
        'set).  The fallback with default = NEWEST allowed version (no '
        'initial_version, or initial_version naming it by number / name) '
        'against a server that closes at connect / after the handshake / '
        'after the request / sends no version object is enumerated for '
        'every non-singleton set x {eager, lazy}; every login outcome '
        'requires exactly one status connection followed by exactly one '
        'login connection (one login connection when a single version is '
        'allowed), counted by the independent servers (at most 4 TCP '
        'connections per operation are accepted, the 5th is refused).  '
        'All cases are distinct by construction (de-duplicated '
        'before execution) and all are non-trivial.  states = distinct '
        '(configuration class, server behaviour class, delivery, observed '
        'outcome) abstractions; transitions = protocol frames observed on the '
        'wire (both directions); traces = executions.  A violation is '
        'recorded with the position of its execution in its worker process '
        '(chunks of the deterministic case list executed before it): '
        'replay runs the case alone in a fresh process and, if it passes '
        'alone, again after repeating those earlier executions, so that a '
        'failure caused by process-wide state carried from one Connection '
        'object to the next is reproduced.  Identity: besides users and profiles fixed at construction, a username assigned and a token profile replaced AFTER construction and before the call: the login start names what the object holds when connect() is called.')
ASSUMPTIONS = [
    'publication order and the supported/known tables are read from the tree '
    'under test (minecraft.KNOWN_PROTOCOL_VERSIONS, SUPPORTED_PROTOCOL_VERSIONS,'
    ' SUPPORTED_MINECRAFT_VERSIONS); their correctness is C08\'s subject',
    'canonical thread schedule only (schedules are C12/C16\'s subject); '
    'operations of a sequence do not overlap in time: each starts at '
    'quiescence',
    'sequences: what a user-initiated disconnect() of a logged-in object '
    'does (callbacks, exceptions) is outside the windows judged here '
    '(C11/C16); a connect() that logged in leaves the object committed to '
    'the negotiated version (connection.py: handle_proto_version narrows '
    'allowed_proto_versions) - the statement does not say either way, so '
    'both readings are accepted for later operations on that object',
    'vnet models the socket API (selftest/vnet_conformance)',
    'the default print handlers of status() are observed only through their '
    'protocol effects (stdout is captured and recorded, not judged)',
]

MAXCONN = 4          # the 5th TCP connection of one execution is refused
PRE = 1 << 30
R_WANTED = (4, 47, 107, 340, 393, 477, 578, 736, PRE | 3, 754, PRE | 6, 757)
USERNAME = 'vfuser'
PROFILE = 'profuser'
ODD_NAME = 'Paper 9.9'

# (host, port, username, auth stub?)
ENVS = [
    ('srv', 25565, USERNAME, False),
    ('mc.example.org', 1, 'Other_User1', False),
    ('10.0.0.7', 65535, USERNAME, True),
    ('srv', 25566, None, True),
    ('h', 443, 'a', False),
    # identity that changes between construction and the call: the login
    # start names the user / profile as it is when connect() is called
    ('srv', 25565, '@late:Late_User9', False),
    ('srv', 25565, None, 'late'),
]


def _env(i):
    host, port, username, auth = ENVS[i]
    if username is not None and username.startswith('@late:'):
        username = username[6:]
    return host, port, username, bool(auth)


def _late_identity(conn, i):
    """Give the Connection its real identity after construction."""
    host, port, username, auth = ENVS[i]
    if username is not None and username.startswith('@late:'):
        conn.username = username[6:]
    if auth == 'late':
        conn.auth_token.profile = _Profile(PROFILE)


def _ctor_identity(kw, i):
    host, port, username, auth = ENVS[i]
    if username is not None and username.startswith('@late:'):
        kw['username'] = 'Placeholder0'
    if auth == 'late':
        kw['auth_token'] = _Token('PlaceholderProfile')


# --------------------------------------------------------------------------
# tables (data only, from the tree under test)

class Tables(object):
    def __init__(self):
        mc = use_repo()
        self.sup = list(mc.SUPPORTED_PROTOCOL_VERSIONS)
        self.supset = set(self.sup)
        self.known = list(mc.KNOWN_PROTOCOL_VERSIONS)
        self.rank = {v: i for i, v in enumerate(self.known)}
        self.name2proto = dict(mc.SUPPORTED_MINECRAFT_VERSIONS)
        self.known_names = dict(mc.KNOWN_MINECRAFT_VERSIONS)
        self.names_of = {}          # supported names per supported number
        for n, p in self.name2proto.items():
            self.names_of.setdefault(p, []).append(n)
        self.known_names_of = {}
        for n, p in self.known_names.items():
            self.known_names_of.setdefault(p, []).append(n)
        self.unsup = [v for v in self.known if v not in self.supset]
        # known names that are not supported names (their protocol number
        # may or may not be supported through another name)
        self.unsup_names = [n for n in self.known_names
                            if n not in self.name2proto]
        self.R = [v for v in R_WANTED if v in self.supset]
        self.R.sort(key=self.rank.get)

    def num(self, v):
        return self.name2proto[v] if isinstance(v, str) else v

    def latest(self, nums):
        return max(nums, key=lambda v: self.rank[v])

    def first_name(self, p):
        ns = self.names_of.get(p)
        return ns[0] if ns else None

    def last_name(self, p):
        ns = self.names_of.get(p)
        return ns[-1] if ns else None

    def reported_name(self, p):
        """A version name a server at protocol p would report."""
        ns = self.known_names_of.get(p)
        return ns[0] if ns else None


_T = []


def tables():
    if not _T:
        _T.append(Tables())
    return _T[0]


# --------------------------------------------------------------------------
# the oracle

def expect_connect(T, allowed, initial, beh):
    """(allowed members | None, initial | None, server behaviour) ->
    expected outcome.  This is the whole reference model."""
    nums = set(T.sup) if allowed is None else {T.num(v) for v in allowed}
    default = T.latest(nums) if initial is None else T.num(initial)
    if len(nums) == 1:
        return ('direct', next(iter(nums)))
    if beh[0] in ('close', 'noproto', 'emptyver', 'nover', 'novertop'):
        return ('fallback', default)
    if beh[0] == 'empty':
        return ('invalid',)
    p, name = beh[1], (beh[2] if len(beh) > 2 else None)
    if p in nums:
        return ('login', p)
    return ('mismatch', p, name, p in T.supset)


def expect_status(beh, want_ping):
    """-> ('done' | 'error', number of handler calls, number of pings)."""
    if beh[0] == 'close':
        if beh[1] in ('connect', 'handshake', 'request'):
            return ('error', 0, 0)
        if beh[1] == 'response':
            return ('error', 1, None) if want_ping else ('done', 1, 0)
    return ('done', 1, 1 if want_ping else 0)


def beh_class(T, allowed, beh):
    k = beh[0]
    if k in ('proto', 'protomin'):
        nums = set(T.sup) if allowed is None else {T.num(v) for v in allowed}
        p = beh[1]
        c = ('reports-allowed' if p in nums else
             'reports-supported-not-allowed' if p in T.supset else
             'reports-known-unsupported' if p in T.rank else
             'reports-unknown')
        if p in T.supset and p >= PRE:
            c += '-pre'
        if k == 'protomin' or beh[2] is None:
            c += '-noname'
        return c
    if k == 'close':
        return 'close-' + beh[1]
    return {'noproto': 'version-without-protocol', 'emptyver':
            'empty-version-object', 'nover': 'no-version-object',
            'novertop': 'protocol-at-top-level-only',
            'empty': 'empty-object'}[k]


def status_text(beh):
    k = beh[0]
    if k == 'empty':
        return '{}'
    if k == 'protomin':
        return json.dumps({'version': {'protocol': beh[1]}})
    d = {'description': {'text': 'vf'}, 'players': {'max': 20, 'online': 0}}
    if k == 'proto':
        v = {}
        if beh[2] is not None:
            v['name'] = beh[2]
        v['protocol'] = beh[1]
        d['version'] = v
    elif k == 'noproto':
        d['version'] = {'name': beh[1]}
    elif k == 'emptyver':
        d['version'] = {}
    elif k == 'novertop':
        d['protocol'] = beh[1]
        d['name'] = 'x'
    elif k == 'close':
        # never sent on the first connection; a sane reply for any (wrong)
        # further status query
        d['version'] = {'name': '1.18.1', 'protocol': 757}
    return json.dumps(d)


# --------------------------------------------------------------------------
# execution

class _Profile(object):
    def __init__(self, name):
        self.name = name


class _Token(object):
    """Stand-in for AuthenticationToken: a profile name and join()."""
    def __init__(self, name):
        self.profile = _Profile(name)
        self.joins = []

    def join(self, server_id):
        self.joins.append(server_id)


class _Srv(RefServer):
    """RefServer that refuses (instead of looking up packet ids for) a login
    whose handshake carries a number outside the known table."""
    def _login(self, pid, r):
        if self.version_unknown:
            self.errors.append('login handshake carries unknown protocol '
                               'number %r' % (self.version,))
            self.close()
            return
        RefServer._login(self, pid, r)


def _exc_rec(W, e):
    VM = W.mc.exceptions.VersionMismatch
    miss = '<missing>'
    sp, sv = getattr(e, 'server_protocol', miss), \
        getattr(e, 'server_version', miss)
    if not (sp is None or isinstance(sp, (int, str))):
        sp = repr(sp)
    if not (sv is None or isinstance(sv, (int, str))):
        sv = repr(sv)
    return {'vm': isinstance(e, VM), 'type': type(e).__name__,
            'str': str(e), 'sp': sp, 'sv': sv}


def _consuming(sink):
    import copy

    def handler(status):
        sink.append(copy.deepcopy(status))
        if isinstance(status, dict):
            status.clear()
        elif isinstance(status, list):
            del status[:]
    return handler


def _invoke(conn, kind, hs, hp, statuses, pings):
    """The API call of one operation (connect() or a plain status())."""
    if kind == 'connect':
        conn.connect()
        return
    skw = {}
    for arg, mode, sink in (('handle_status', hs, statuses),
                            ('handle_ping', hp, pings)):
        if mode == 'custom' and arg == 'handle_status':
            # a user handler may do what it likes with the dict it is
            # handed: this one keeps a copy and then empties the original
            # (nothing later - in this or any other query of the process -
            # may depend on that object)
            skw[arg] = _consuming(sink)
        elif mode == 'custom':
            skw[arg] = sink.append
        elif mode == 'off':
            skw[arg] = False
        elif mode == 'none':
            skw[arg] = None
        # mode 'default': argument not passed at all
        # (handle_status=None: print; handle_ping=False)
    conn.status(**skw)


def _snap_conns(W, lo):
    """What the independent servers saw on the TCP connections lo.. ."""
    cs = []
    for vc in W.net.conns[lo:]:
        srv = vc.server
        d = {'gone': bool(vc.client_gone), 'c2s': len(vc.c2s),
             's2c_frames': len(vc.frame_ends)}
        if srv is not None:
            d.update(hs=srv.handshake, login=srv.login_name,
                     req=srv.status_requests, pings=len(srv.pings),
                     errors=list(srv.errors), state=srv.state,
                     frames=[(f[0], f[1]) for f in srv.frames],
                     late=srv.bytes_after_gone)
        cs.append(d)
    return cs


def _plain_pings(ps):
    return [p if isinstance(p, (int, float)) and not isinstance(p, bool)
            else repr(p) for p in ps]


def body(W, case):
    kind = case['kind']
    host, port, username, auth = _env(case.get('env', 0))
    beh = tuple(case['beh']) if case.get('beh') else None
    obs = {'ctor': None, 'call': None, 'excs': [], 'exits': 0,
           'statuses': [], 'pings': [], 'stdout': ''}
    excs, exits = [], []

    if beh is not None:
        text = status_text(beh)
        obs['text'] = text

        def factory(vc):
            i = len(W.servers)
            if i >= MAXCONN:
                raise ConnectionRefusedError(errno.ECONNREFUSED,
                                             'vf: connection budget')
            kw = {'status': {'json': text, 'pong': True}}
            if i == 0 and beh[0] == 'close':
                kw['close_after'] = beh[1]
            srv = _Srv(vc, protoids.ids, W.rank, **kw)
            W.servers.append(srv)
            return srv
        W.net.listen(host, port, factory)

    kw = {'username': username,
          'handle_exception': lambda e, info: excs.append(e),
          'handle_exit': lambda: exits.append(1)}
    if auth:
        kw['auth_token'] = _Token(PROFILE)
    _ctor_identity(kw, case.get('env', 0))
    if case.get('allowed') is not None:
        al = case['allowed']
        coll = case.get('coll') or ('list' if case.get('aslist') else 'set')
        kw['allowed_versions'] = {'set': set, 'list': list,
                                  'tuple': tuple}[coll](al)
    if case.get('initial') is not None:
        kw['initial_version'] = case['initial']

    saved = sys.stdout
    sys.stdout = buf = io.StringIO()
    try:
        try:
            conn = W.C.Connection(host, port, **kw)
        except ValueError as e:
            obs['ctor'] = ('ValueError', str(e))
            conn = None
        except Exception as e:
            obs['ctor'] = (type(e).__name__, str(e))
            conn = None
        if conn is not None and kind != 'ctor':
            _late_identity(conn, case.get('env', 0))
            try:
                _invoke(conn, kind, case.get('hs'), case.get('hp'),
                        obs['statuses'], obs['pings'])
            except Exception as e:
                obs['call'] = (type(e).__name__, str(e))
            W.settle(1 if case.get('delivery') == 'byte' else None)
    finally:
        sys.stdout = saved
    obs['stdout'] = buf.getvalue()
    obs['excs'] = [_exc_rec(W, e) for e in excs]
    obs['exits'] = len(exits)
    obs['conn_exc'] = (None if conn is None or conn.exception is None
                       else type(conn.exception).__name__)
    obs['thread_exc'] = ['%s: %s' % (type(a.exc).__name__, a.exc)
                         for a in W.S.agents if a.exc is not None]
    obs['live'] = len(W.S.live())
    obs['nconns'] = len(W.net.conns)
    obs['refused'] = W.net.refused
    obs['conns'] = _snap_conns(W, 0)
    obs['pings'] = _plain_pings(obs['pings'])
    return obs


def body_seq(W, case):
    """Several operations, each on one of several Connection objects that
    are all constructed before the first operation (case['late']: each
    when it is first used).  Every operation gets its
    own observation record of the same shape as body() returns."""
    from vf.runner import ToolError
    objs, ops = case['objects'], case['ops']
    cur = {'beh': None, 'text': None, 'lo': 0}

    def factory(vc):
        i = vc.id - cur['lo']
        if i >= MAXCONN:
            raise ConnectionRefusedError(errno.ECONNREFUSED,
                                         'vf: connection budget')
        kw = {'status': {'json': cur['text'], 'pong': True}}
        if i == 0 and cur['beh'][0] == 'close':
            kw['close_after'] = cur['beh'][1]
        srv = _Srv(vc, protoids.ids, W.rank, **kw)
        W.servers.append(srv)
        return srv
    for o in objs:
        host, port = ENVS[o.get('env', 0)][:2]
        W.net.listen(host, port, factory)

    saved = sys.stdout
    sys.stdout = buf = io.StringIO()
    out = []
    try:
        conns, sinks = [None] * len(objs), [None] * len(objs)

        def construct(k):
            o = objs[k]
            host, port, username, auth = _env(o.get('env', 0))
            excs, exits = [], []
            kw = {'username': username,
                  'handle_exception': lambda e, info: excs.append(e),
                  'handle_exit': lambda: exits.append(1)}
            if auth:
                kw['auth_token'] = _Token(PROFILE)
            if o.get('allowed') is not None:
                kw['allowed_versions'] = set(o['allowed'])
            if o.get('initial') is not None:
                kw['initial_version'] = o['initial']
            try:
                conns[k] = W.C.Connection(host, port, **kw)
            except Exception as e:
                raise _CtorRefused('ABC'[k], type(e).__name__, str(e))
            sinks[k] = (excs, exits)
        if not case.get('late'):
            for k in range(len(objs)):
                construct(k)
        seen_exc = set()
        for op in ops:
            k = op['obj']
            if conns[k] is None:
                construct(k)        # ('late': at its first use)
            conn = conns[k]
            excs, exits = sinks[k]
            # the object's previous conversation, if still open (a login
            # that reached play, a query that was not closed), is ended by
            # the user before the object is used again
            if conn.connected or conn.networking_thread is not None or \
                    conn.new_networking_thread is not None:
                conn.disconnect()
                W.settle()
            beh = tuple(op['beh'])
            cur.update(beh=beh, text=status_text(beh), lo=len(W.net.conns))
            e0, x0, r0, o0 = len(excs), len(exits), W.net.refused, \
                len(buf.getvalue())
            obs = {'ctor': None, 'call': None, 'statuses': [], 'pings': [],
                   'text': cur['text']}
            try:
                _invoke(conn, op['op'], op.get('hs'), op.get('hp'),
                        obs['statuses'], obs['pings'])
            except ToolError:
                raise
            except Exception as e:
                obs['call'] = (type(e).__name__, str(e))
            W.settle()
            obs['stdout'] = buf.getvalue()[o0:]
            obs['excs'] = [_exc_rec(W, e) for e in excs[e0:]]
            obs['exits'] = len(exits) - x0
            obs['conn_exc'] = (None if conn.exception is None
                               else type(conn.exception).__name__)
            new = [a for a in W.S.agents
                   if a.exc is not None and id(a) not in seen_exc]
            seen_exc.update(id(a) for a in new)
            obs['thread_exc'] = ['%s: %s' % (type(a.exc).__name__, a.exc)
                                 for a in new]
            obs['live'] = len(W.S.live())
            obs['nconns'] = len(W.net.conns) - cur['lo']
            obs['refused'] = W.net.refused - r0
            obs['conns'] = _snap_conns(W, cur['lo'])
            obs['pings'] = _plain_pings(obs['pings'])
            out.append(obs)
    except _CtorRefused as e:
        return {'ctor': e.args}
    finally:
        sys.stdout = saved
    return out


class _CtorRefused(Exception):
    pass


def execute(case):
    d = case.get('delivery', 'eager')
    kw = {}
    if d in ('lazy', 'byte'):
        kw['hold'] = True
    if d == 'raise':
        kw['send_after_close'] = 'raise'
    if case['kind'] == 'seq':
        return harness.run(lambda W: body_seq(W, case), horizon=80000, **kw)
    return harness.run(lambda W: body(W, case), horizon=20000, **kw)


# --------------------------------------------------------------------------
# judging

def _num_in(msg, p, name):
    if name:
        msg = msg.replace(name, ' ')
    return re.search(r'(?<![0-9-])%s(?![0-9])' % re.escape(str(p)),
                     msg) is not None


def _check_hs(out, tag, got, proto, host, port, nxt):
    want = {'protocol': proto, 'host': host, 'port': port, 'next': nxt}
    if got != want:
        which = [k for k in ('protocol', 'host', 'port', 'next')
                 if not got or got.get(k) != want[k]]
        out.append((tag + '-' + '+'.join(which),
                    'handshake of the %s connection: expected %r, the server '
                    'decoded %r' % (tag, want, got)))


def _common(out, x, obs):
    for i, c in enumerate(obs['conns']):
        if c.get('errors'):
            out.append(('server-decode-error', 'connection %d: the '
                        'independent server could not accept what the client '
                        'sent: %r' % (i, c['errors'][:3])))
    if obs['thread_exc']:
        out.append(('thread-exception', 'an exception escaped a thread '
                    'although a final handler was installed: %r'
                    % obs['thread_exc'][:2]))
    if obs['call'] is not None:
        out.append(('call-raised', 'the API call itself raised %r'
                    % (obs['call'],)))


def judge_connect(T, case, x):
    """-> (outcome label, [(check id, text)])."""
    out = []
    allowed, initial = case['allowed'], case['initial']
    beh = tuple(case['beh'])
    host, port, username, auth = _env(case.get('env', 0))
    exp = expect_connect(T, allowed, initial, beh)
    if x.failure is not None:
        return x.failure[0], exp, [(x.failure[0], 'the client %ss: %s'
                                    % (x.failure[0], x.failure[1]))]
    obs = x.result
    if obs['ctor'] is not None:
        return 'ctor-refused', exp, [('ctor', 'constructing the Connection '
                                      'with valid versions raised %r'
                                      % (obs['ctor'],))]
    nums = set(T.sup) if allowed is None else {T.num(v) for v in allowed}
    latest = T.latest(nums)
    conns = obs['conns']
    n = obs['nconns']
    excs = obs['excs']
    login_conns = [c for c in conns if c.get('hs') and c['hs'].get('next') == 2]
    # what happened, in the oracle's vocabulary
    if excs:
        label = 'mismatch' if excs[0]['vm'] else 'error:' + excs[0]['type']
    elif login_conns:
        label = 'login@%d-conns' % n
    else:
        label = 'nothing'
    _common(out, x, obs)
    name = PROFILE if auth else username

    def status_conn(c, closed_at_connect=False):
        if closed_at_connect:
            if c.get('hs') is not None:
                _check_hs(out, 'status', c['hs'], latest, host, port, 1)
            return
        _check_hs(out, 'status', c.get('hs'), latest, host, port, 1)
        if c.get('pings'):
            out.append(('ping-in-negotiation', 'a ping was sent during '
                        'version negotiation'))
        want_req = 0 if beh == ('close', 'handshake') else 1
        if c.get('req') != want_req:
            out.append(('status-requests', 'status requests received on the '
                        'query connection: %r, expected %d'
                        % (c.get('req'), want_req)))

    def login_conn(c, proto):
        _check_hs(out, 'login', c.get('hs'), proto, host, port, 2)
        if c.get('login') != name:
            out.append(('login-name', 'login start names %r, expected %r '
                        '(username=%r, auth profile=%r)'
                        % (c.get('login'), name, username,
                           PROFILE if auth else None)))
        if c.get('req') or c.get('pings'):
            out.append(('status-on-login', 'status traffic on the login '
                        'connection'))

    kind = exp[0]
    if kind in ('direct', 'login', 'fallback'):
        if excs:
            out.append(('unexpected-error', 'expected %s, but an exception '
                        'was reported: %r' % (_exp_text(exp), excs[:2])))
        want_n = 1 if kind == 'direct' else 2
        n_login = len(login_conns)
        if n != want_n or n_login != 1:
            out.append(('tcp-connections', '%d TCP connections were opened '
                        '(%d with a login handshake, %d with a status '
                        'handshake or none), expected exactly %s (%s)'
                        % (n, n_login, n - n_login,
                           'one login connection' if kind == 'direct' else
                           'one status connection followed by one login '
                           'connection', _exp_text(exp))))
        if kind == 'direct':
            if conns:
                login_conn(conns[0], exp[1])
        else:
            if conns:
                status_conn(conns[0], beh == ('close', 'connect'))
            if len(conns) > 1:
                login_conn(conns[1], exp[1])
            elif not excs:
                out.append(('no-login', 'no login connection was made, '
                            'expected %s' % _exp_text(exp)))
    else:
        if n != 1:
            out.append(('tcp-connections', '%d TCP connections were opened, '
                        'expected 1 (%s)' % (n, _exp_text(exp))))
        if login_conns:
            out.append(('login-despite-error', 'a login handshake (protocol '
                        '%r) was sent, expected %s'
                        % (login_conns[0]['hs'].get('protocol'),
                           _exp_text(exp))))
        if conns:
            status_conn(conns[0])
        if len(excs) != 1:
            out.append(('error-count', '%d exceptions were delivered to the '
                        'handler, expected exactly one (%s): %r'
                        % (len(excs), _exp_text(exp), excs[:3])))
        elif kind == 'invalid':
            if excs[0]['vm']:
                out.append(('invalid-as-mismatch', 'an empty status object '
                            'was reported as VersionMismatch: %r'
                            % excs[0]['str']))
        else:
            e = excs[0]
            p, sname, supported = exp[1], exp[2], exp[3]
            if not e['vm']:
                out.append(('not-versionmismatch', 'expected VersionMismatch, '
                            'got %s: %s' % (e['type'], e['str'])))
            else:
                msg = e['str']
                if not _num_in(msg, p, sname):
                    out.append(('message-number', 'the message does not name '
                                'the server\'s protocol number %d: %r'
                                % (p, msg)))
                if sname is not None and sname not in msg:
                    out.append(('message-name', 'the message does not name '
                                'the server\'s version %r: %r' % (sname, msg)))
                says_unsup = 'not supported' in msg
                says_notallowed = 'not allowed' in msg and \
                    'supported' in msg and not says_unsup
                if supported and not says_notallowed or \
                        not supported and (not says_unsup
                                           or 'not allowed' in msg):
                    out.append(('message-kind', 'protocol %d is %s, but the '
                                'message says: %r' % (
                                    p, 'supported, only not allowed for this '
                                    'connection' if supported else
                                    'not supported at all', msg)))
                if e['sp'] != p or isinstance(e['sp'], bool):
                    out.append(('attr-server_protocol', 'err.server_protocol '
                                'is %r, expected %r' % (e['sp'], p)))
                if e['sv'] != sname:
                    out.append(('attr-server_version', 'err.server_version '
                                'is %r, expected %r' % (e['sv'], sname)))
    return label, exp, out


def _exp_text(exp):
    k = exp[0]
    if k == 'direct':
        return 'direct login with the only allowed version %d' % exp[1]
    if k == 'login':
        return 'login with the server\'s version %d' % exp[1]
    if k == 'fallback':
        return 'fallback login with the default version %d' % exp[1]
    if k == 'invalid':
        return 'invalid-status error'
    return 'VersionMismatch for %d (%s)' % (
        exp[1], 'supported, not allowed' if exp[3] else 'not supported')


def judge_status(T, case, x):
    out = []
    allowed = case['allowed']
    beh = tuple(case['beh'])
    host, port, username, auth = _env(case.get('env', 0))
    hs_mode, hp_mode = case['hs'], case['hp']
    # status(handle_status=None, handle_ping=False): latency is requested
    # iff handle_ping is given and is not False
    want_ping = hp_mode in ('none', 'custom')
    exp = expect_status(beh, want_ping)
    if x.failure is not None:
        return x.failure[0], exp, [(x.failure[0], 'the client %ss: %s'
                                    % (x.failure[0], x.failure[1]))]
    obs = x.result
    if obs['ctor'] is not None:
        return 'ctor-refused', exp, [('ctor', 'constructing the Connection '
                                      'with valid versions raised %r'
                                      % (obs['ctor'],))]
    nums = set(T.sup) if allowed is None else {T.num(v) for v in allowed}
    latest = T.latest(nums)
    conns, n, excs = obs['conns'], obs['nconns'], obs['excs']
    label = ('error:' + excs[0]['type']) if excs else \
        'done(status=%d,ping=%d,exit=%d)' % (
            len(obs['statuses']), len(obs['pings']), obs['exits'])
    _common(out, x, obs)
    if n != 1:
        out.append(('tcp-connections', 'a plain status query opened %d TCP '
                    'connections' % n))
    c = conns[0] if conns else {}
    at_connect = beh == ('close', 'connect')
    if not at_connect or c.get('hs') is not None:
        _check_hs(out, 'status', c.get('hs'), latest, host, port, 1)
    if not at_connect:
        want_req = 0 if beh == ('close', 'handshake') else 1
        if c.get('req') != want_req:
            out.append(('status-requests', '%r status requests received, '
                        'expected %d' % (c.get('req'), want_req)))
    parsed = json.loads(obs['text'])
    if hs_mode == 'custom':
        want = [parsed] * exp[1]
        if obs['statuses'] != want:
            out.append(('status-handler', 'handle_status was called %d '
                        'time(s) with %r; expected %d call(s) with the parsed '
                        'reply %r' % (len(obs['statuses']),
                                      obs['statuses'][:2], exp[1], parsed)))
    if exp[2] is not None and c.get('pings', 0) != exp[2] and not at_connect:
        out.append(('ping-sent', '%r ping(s) reached the server, expected %d '
                    '(handle_ping mode %s)' % (c.get('pings'), exp[2],
                                               hp_mode)))
    if exp[0] == 'done':
        if excs:
            out.append(('unexpected-error', 'an exception was reported: %r'
                        % excs[:2]))
        if hp_mode == 'custom':
            ps = obs['pings']
            if len(ps) != 1 or isinstance(ps[0], str) or not ps[0] >= 0:
                out.append(('ping-handler', 'handle_ping calls: %r; expected '
                            'exactly one non-negative latency' % (ps,)))
        if not c.get('gone'):
            out.append(('not-closed', 'the connection was not closed at the '
                        'end of the status query'))
        if obs['exits'] != 1:
            out.append(('exit-callback', 'handle_exit ran %d times, expected '
                        'once' % obs['exits']))
    else:
        if not excs:
            out.append(('silent-early-close', 'the server closed before the '
                        'query completed but no exception was reported '
                        '(exits=%d)' % obs['exits']))
        if hp_mode == 'custom' and obs['pings']:
            out.append(('ping-handler', 'handle_ping was called (%r) although '
                        'no pong was ever sent' % (obs['pings'],)))
    return label, exp, out


def judge_ctor(T, case, x):
    out = []
    if x.failure is not None:
        return x.failure[0], None, [(x.failure[0], str(x.failure[1]))]
    obs = x.result
    if obs['ctor'] is None:
        label = 'accepted'
        out.append(('accepted', 'Connection(allowed_versions=%r, '
                    'initial_version=%r) was accepted although %r is not a '
                    'supported version' % (case['allowed'], case['initial'],
                                           case['bad'])))
    elif obs['ctor'][0] != 'ValueError':
        label = 'raised:' + obs['ctor'][0]
        out.append(('wrong-exception', 'expected ValueError for %r, got %r'
                    % (case['bad'], obs['ctor'])))
    else:
        label = 'ValueError'
    if obs['nconns'] or obs['refused']:
        out.append(('tcp-at-construction', 'construction opened %d TCP '
                    'connection(s)' % (obs['nconns'] + obs['refused'])))
    return label, None, out


def bad_class(T, bad):
    if isinstance(bad, str):
        return 'known-unsupported-name' if bad in T.known_names \
            else 'unknown-name'
    return 'known-unsupported-number' if bad in T.rank else 'unknown-number'


class _OpRun(object):
    """One operation of a sequence, presented to the judges the way a
    single-operation execution is."""
    failure = None

    def __init__(self, result):
        self.result = result


def _same_set(T, a, b):
    na = None if a is None else {T.num(v) for v in a}
    nb = None if b is None else {T.num(v) for v in b}
    return na == nb


def judge_seq(T, case, x):
    """Every operation of a sequence judged by the single-operation judges,
    as if its Connection object were fresh and alone.  The only memory the
    model keeps per object: a connect() that is expected to end in a login
    (the server's version, or the fallback) commits the object to that
    version (connection.py narrows allowed_proto_versions), so a later
    operation on the object is judged against that singleton set - or,
    equally accepted, against the set given at construction.
    -> [(op, sub-case, label, exp, problems, _OpRun)]"""
    objs = case['objects']
    cands = [[o.get('allowed')] for o in objs]
    out = []
    for op, obs in zip(case['ops'], x.result):
        k = op['obj']
        o = objs[k]
        best = None
        for al in cands[k]:
            sub = {'kind': op['op'], 'allowed': al,
                   'initial': o.get('initial'), 'beh': list(op['beh']),
                   'env': o.get('env', 0), 'hs': op.get('hs'),
                   'hp': op.get('hp')}
            xi = _OpRun(obs)
            if op['op'] == 'connect':
                label, exp, probs = judge_connect(T, sub, xi)
            else:
                label, exp, probs = judge_status(T, sub, xi)
            if best is None or not probs:
                best = (op, sub, label, exp, probs, xi)
            if not probs:
                break
        out.append(best)
        if op['op'] == 'connect':
            e0 = expect_connect(T, cands[k][0], o.get('initial'),
                                tuple(op['beh']))
            if e0[0] in ('login', 'fallback'):
                cands[k] = [[e0[1]]]
                if not _same_set(T, [e0[1]], o.get('allowed')):
                    cands[k].append(o.get('allowed'))
    return out


def _op_text(T, objs, op):
    """Stable class-level description of one operation of a sequence."""
    o = objs[op['obj']]
    bc = beh_class(T, o.get('allowed'), tuple(op['beh']))
    t = '%s.%s' % ('ABC'[op['obj']], op['op'])
    if op['op'] == 'status':
        t += '(%s/%s)' % (op['hs'], op['hp'])
    return '%s<%s>' % (t, bc)


def run_seq_case(ctx, case, carry=None, note=''):
    T = tables()
    x = execute(case)
    ctx.count()
    ctx.traces += 1
    ctx.note_distinct(1)
    objs, ops = case['objects'], case['ops']
    why = case['why'] + ('-late' if case.get('late') else '')
    d = case.get('delivery', 'eager')
    ctx.cls('delivery %s' % d)
    if x.failure is not None:
        ctx.outcome('sequence: ' + x.failure[0])
        key = 'seq %s %s: %s' % (why, ' '.join(_op_text(T, objs, op)
                                              for op in ops), x.failure[0])
        ctx.violation(key, 'the client %ss: %s%s\n  case: %s'
                      % (x.failure[0], x.failure[1], note,
                         _case_text(case)), _carried(ctx, case, carry))
        return [(x.failure[0], str(x.failure[1]))]
    if isinstance(x.result, dict):
        ctx.outcome('sequence: ctor-refused')
        ctx.violation('seq %s: ctor' % why, 'constructing Connection object '
                      '%s with valid versions raised %s: %s%s\n  case: %s'
                      % (x.result['ctor'] + (note, _case_text(case))),
                      _carried(ctx, case, carry))
        return [('ctor', str(x.result['ctor']))]
    steps = judge_seq(T, case, x)
    all_probs = []
    frames = 0
    prev_exp = {}               # object -> (op kind, expected outcome)
    used = {}
    logged_in = set()
    for i, (op, sub, label, exp, probs, xi) in enumerate(steps):
        k, kind = op['obj'], op['op']
        bc = beh_class(T, objs[k].get('allowed'), tuple(op['beh']))
        ctx.outcome('%s: %s' % (kind, label))
        ctx.cls('%s expect %s' % (kind, exp[0]))
        if kind == 'status':
            ctx.cls('status handlers %s/%s' % (op['hs'], op['hp']))
        if k in prev_exp:
            pk, pe = prev_exp[k]
            if kind == 'status':
                ctx.cls('reuse: status after a %s on the same object that '
                        'ended: %s' % (pk, pe))
            else:
                ctx.cls('reuse: connect after %s on the same object'
                        % ('a status' if pk == 'status' else
                           'a connect that ended in a login'
                           if pe in ('login', 'fallback') else
                           'a connect that ended in an error'))
            if used[k] >= 2:
                ctx.cls('reuse: third operation on one object')
        if len(objs) > 1:
            if logged_in - {k}:
                ctx.cls('objects: operation on one of %d objects constructed '
                        '%s while another one is logged in'
                        % (len(objs), 'at first use' if case.get('late')
                           else 'up front'))
            if any(j != k for j in prev_exp):
                ctx.cls('objects: %s after another object\'s operation'
                        % kind)
        for c in xi.result['conns']:
            frames += len(c.get('frames', ())) + c['s2c_frames']
        ctx.state(('seq', why, kind, bc, d, label, xi.result['nconns'],
                   prev_exp.get(k), len(objs)))
        for check, text in probs:
            key = 'seq %s %s | op %d %s %s expect=%s: %s' % (
                why, ' '.join(_op_text(T, objs, o2) for o2 in ops[:i]),
                i + 1, _op_text(T, objs, op), bc, exp[0], check)
            ctx.violation(key, 'operation %d of the sequence (%s on object '
                          '%s, judged as if the object were fresh and '
                          'alone): %s%s\n  case: %s\n  observed in that '
                          'operation: %s'
                          % (i + 1, kind, 'ABC'[k], text, note,
                             _case_text(case), _obs_text(xi)),
                          _carried(ctx, case, carry))
        all_probs += probs
        logged_in.discard(k)
        if kind == 'connect' and exp[0] in ('login', 'fallback', 'direct'):
            logged_in.add(k)
        prev_exp[k] = (kind, 'login' if exp[0] == 'direct' else exp[0])
        used[k] = used.get(k, 0) + 1
    ctx.transitions += frames
    return all_probs


def run_case(ctx, case, carry=None, note=''):
    if case['kind'] == 'seq':
        return run_seq_case(ctx, case, carry, note)
    T = tables()
    x = execute(case)
    ctx.count()
    ctx.traces += 1
    ctx.note_distinct(1)
    kind = case['kind']
    if kind == 'connect':
        label, exp, probs = judge_connect(T, case, x)
        bc = beh_class(T, case['allowed'], tuple(case['beh']))
        cfg = (case['setkind'], case['form'],
               'none' if case['initial'] is None else
               'name' if isinstance(case['initial'], str) else 'num',
               case.get('env', 0))
        ctx.cls('connect expect %s' % exp[0])
        ctx.cls('connect server %s' % bc)
        ctx.cls('connect set %s/%s' % (case['setkind'], case['form']))
        b = tuple(case['beh'])
        if b[0] == 'proto' and b[2] in T.known_names and \
                T.known_names[b[2]] != b[1]:
            ctx.cls('reported name denotes another protocol; expect %s'
                    % exp[0])
        if case['form'] == 'dup':
            ctx.cls('duplicate members; expect %s' % exp[0])
        if exp[0] == 'fallback':
            nums = set(T.sup) if case['allowed'] is None else \
                {T.num(v) for v in case['allowed']}
            ctx.cls('fallback default %s allowed set'
                    % ('inside' if exp[1] in nums else 'outside'))
            if exp[1] == T.latest(nums) and bc.startswith('close-'):
                ctx.cls('fallback to default = newest allowed, %s'
                        % ('no initial_version: ' + bc
                           if case['initial'] is None else
                           'initial_version names it: server closes'))
        if exp[0] != 'direct' and case['allowed'] is not None:
            nums = {T.num(v) for v in case['allowed']}
            if max(nums) != T.latest(nums):
                ctx.cls('latest allowed differs from numeric maximum')
    elif kind == 'status':
        label, exp, probs = judge_status(T, case, x)
        bc = beh_class(T, case['allowed'], tuple(case['beh']))
        cfg = (case['hs'], case['hp'], case.get('env', 0),
               'none' if case['allowed'] is None else len(case['allowed']))
        ctx.cls('status expect %s' % exp[0])
        ctx.cls('status handlers %s/%s' % (case['hs'], case['hp']))
        if x.failure is None and x.result['stdout']:
            ctx.cls('status default handler printed')
    else:
        label, exp, probs = judge_ctor(T, case, x)
        bc = bad_class(T, case['bad'])
        cfg = (case['where'],)
        ctx.cls('ctor %s as %s' % (bc, case['where']))
    d = case.get('delivery', 'eager')
    ctx.cls('delivery %s' % d)
    ctx.outcome('%s: %s' % (kind, label))
    frames = 0
    if x.failure is None:
        for c in x.result['conns']:
            frames += len(c.get('frames', ())) + c['s2c_frames']
    ctx.transitions += frames
    ctx.state((kind, cfg, bc, d, label,
               x.result['nconns'] if x.failure is None else -1))
    for check, text in probs:
        key = '%s %s expect=%s: %s' % (kind, bc, exp[0] if exp else 'refusal',
                                       check)
        ctx.violation(key, '%s%s\n  case: %s\n  observed: %s'
                      % (text, note, _case_text(case),
                         _obs_text(x)), _carried(ctx, case, carry))
    return probs


def _carried(ctx, case, carry):
    """The case as recorded with a violation: plus the position of the
    execution in its worker process (which chunks of the deterministic case
    list the process had executed before), so that replay() can re-create
    process-wide state carried over from earlier executions."""
    if not carry or not (carry['chunks'] or carry['pos']):
        return case
    c = dict(case)
    c['carry'] = dict(carry, tier=ctx.tier, seed=ctx.seed)
    return c


def _case_text(case):
    if case['kind'] == 'seq':
        return '%s; objects (%s): ' \
            '%s; operations in order: %s; delivery=%s' % (
                case['why'], 'each constructed at its first use'
                if case.get('late') else
                'all constructed before the first operation', ', '.join(
                    '%s=Connection(%r, %r, allowed_versions=%r, '
                    'initial_version=%r)' % (
                        'ABC'[i], ENVS[o.get('env', 0)][0],
                        ENVS[o.get('env', 0)][1], o.get('allowed'),
                        o.get('initial'))
                    for i, o in enumerate(case['objects'])),
                '; '.join('%s.%s%s against a server that: %r' % (
                    'ABC'[op['obj']], op['op'],
                    '(handle_status:%s, handle_ping:%s)' % (op['hs'],
                                                            op['hp'])
                    if op['op'] == 'status' else '()', tuple(op['beh']))
                    for op in case['ops']), case.get('delivery'))
    return ', '.join('%s=%r' % (k, case[k]) for k in sorted(case)
                     if k not in ('setkind', 'form'))


def _obs_text(x):
    if x.failure is not None:
        return repr(x.failure)
    o = x.result
    return ('connections=%r exceptions=%r exits=%d' % (
        [(c.get('hs'), c.get('login'), c.get('req'), c.get('pings'))
         for c in o['conns']], [(e['type'], e['str']) for e in o['excs']],
        o['exits']))[:900]


# --------------------------------------------------------------------------
# enumeration

def lite_behaviours(T, rng, status_extra=False):
    B = []
    for p in T.R:
        B.append(('proto', p, T.reported_name(p)))
    B.append(('proto', T.R[-1], None))
    B.append(('proto', T.R[1], None))
    B.append(('protomin', T.R[2]))
    B.append(('proto', T.R[0], ODD_NAME))
    # neighbours of R members in the supported list that are not in R
    inR = set(T.R)
    for p in (T.R[1], T.R[-3], T.R[-1]):
        i = T.sup.index(p)
        for q in T.sup[max(0, i - 1):i + 2]:
            if q not in inR and ('proto', q, T.reported_name(q)) not in B:
                B.append(('proto', q, T.reported_name(q)))
    u = T.unsup
    for p in (u[0], u[3], u[4], u[len(u) // 2], u[-1]):
        B.append(('proto', p, T.reported_name(p)))
    B.append(('proto', u[1], None))
    unknown = [p for p in (-1, 9999, 2 ** 31 - 1, 758, PRE, PRE | 4,
                           2 ** 31, 2 ** 63, -2 ** 31, 48)
               if p not in T.rank]
    while len(unknown) < 12:                 # seed-derived extras
        p = rng.randrange(760, PRE)
        if p not in T.rank and p not in unknown:
            unknown.append(p)
    for i, p in enumerate(unknown):
        B.append(('proto', p, ODD_NAME if i % 2 == 0 else None))
    B += [('noproto', '1.18.1'), ('emptyver',), ('nover',),
          ('novertop', 757), ('empty',)]
    B += [('close', 'connect'), ('close', 'handshake'), ('close', 'request')]
    if status_extra:
        B += [('close', 'response'), ('close', 'pong')]
    return B


def inconsistent_behaviours(T, members):
    """(number, name) pairs in which the name denotes another protocol than
    the number: number in {unknown, known-unsupported, supported but not
    allowed, allowed} x name of {an allowed, a supported but not allowed, a
    known-unsupported version, no known version}."""
    nums = set(T.sup) if members is None else set(members)
    allowed = sorted(nums, key=T.rank.get)
    disallowed = [p for p in T.R if p not in nums] or \
        [p for p in T.sup if p not in nums]
    numbers = [5000, T.unsup[len(T.unsup) // 3], T.unsup[-1],
               allowed[0], allowed[-1]]
    if disallowed:
        numbers += [disallowed[0], disallowed[-1]]
    B = []
    for p in numbers:
        name_src = [q for q in (allowed[-1], allowed[0]) if q != p][:1]
        name_src += [q for q in reversed(disallowed) if q != p][:1]
        name_src += [q for q in (T.unsup[1], T.unsup[-2]) if q != p][:1]
        for q in name_src:
            for nm in sorted({T.reported_name(q), T.known_names_of[q][-1]}):
                B.append(('proto', p, nm))
        B.append(('proto', p, ODD_NAME))
    out = []
    for b in B:
        if b not in out:
            out.append(b)
    return out


def big_behaviours(T):
    return [('proto', p, T.reported_name(p)) for p in T.sup + T.unsup]


def as_form(T, members, form):
    if members is None:
        return None
    out = []
    for i, p in enumerate(members):
        if form == 'name' or (form == 'mixed' and i % 2 == 0):
            out.append(T.first_name(p))
        elif form == 'alias':
            out.append(T.last_name(p))
        else:
            out.append(p)
    return out


MODES = ['default', 'none', 'custom', 'off']
MODES_DIAG = [('custom', 'custom'), ('off', 'off'), ('default', 'none'),
              ('none', 'default')]


def seq_alphabets(T, mem):
    """Server behaviours by role for an object whose allowed set is `mem`
    (list of numbers; None = every supported version)."""
    nums = set(T.sup) if mem is None else set(mem)
    order = sorted(nums, key=T.rank.get)
    inR = [p for p in T.R if p in nums]
    lo, hi = (inR[3] if mem is None else order[0]), order[-1]
    mid = inR[len(inR) // 2] if mem is None else order[len(order) // 2]
    notal = [p for p in T.R if p not in nums]
    unsup = T.unsup[len(T.unsup) // 2]

    def P(p, name=True):
        return ('proto', p, T.reported_name(p) if name else None)
    A = {'lo': P(lo), 'hi': P(hi), 'mid': P(mid), 'unsup': P(unsup),
         'unknown': ('proto', 9999, None),
         'notal': P(notal[len(notal) // 2]) if notal else None}
    return A


def seq_cases(ctx, T):
    """REUSE: 2-3 operations on ONE Connection object.  OBJECTS: 2-3
    Connection objects constructed up front with the same allowed set, used
    alternately.  Every operation is judged like a single-operation case."""
    R = T.R
    th = ctx.thorough
    cases = []

    def conn_op(k, beh):
        return {'obj': k, 'op': 'connect', 'beh': list(beh)}

    def stat_op(k, beh, hs, hp):
        return {'obj': k, 'op': 'status', 'beh': list(beh), 'hs': hs,
                'hp': hp}

    def S(why, objects, ops, delivery, late=False):
        c = {'kind': 'seq', 'why': why, 'objects': objects, 'ops': ops,
             'delivery': delivery}
        if late:
            c['late'] = True
        cases.append(c)

    # ---- REUSE ----------------------------------------------------------
    configs = [{'allowed': [R[1], R[-1]], 'initial': None, 'env': 0},
               {'allowed': None, 'initial': None, 'env': 0},
               {'allowed': list(R), 'initial': 340, 'env': 1}]
    if th:
        configs += [
            {'allowed': [PRE | 3, 754], 'initial': None, 'env': 0},
            {'allowed': list(R[:6]), 'initial': None, 'env': 2},
            {'allowed': [T.first_name(R[1]), T.last_name(R[-1])],
             'initial': T.first_name(340), 'env': 3},
            {'allowed': None, 'initial': R[0], 'env': 4}]
    for ci, cfg in enumerate(configs):
        mem = None if cfg['allowed'] is None else \
            [T.num(v) for v in cfg['allowed']]
        A = seq_alphabets(T, mem)
        closes = [('close', w) for w in ('connect', 'handshake', 'request')]
        # first conversations: ending in an error, and ending well
        f_connect = [A['lo'], A['unsup'], A['unknown'], ('empty',),
                     ('nover',)] + closes
        if A['notal']:
            f_connect.append(A['notal'])
        f_status = [A['hi'], ('empty',), A['unknown'], ('close', 'connect'),
                    ('close', 'request'), ('close', 'response')]
        first = [conn_op(0, b) for b in f_connect] + \
            [stat_op(0, b, hs, hp) for b in f_status
             for hs, hp in (('custom', 'custom'), ('off', 'default'))]
        # second operations
        s_behs = [('empty',), ('close', 'request'), ('close', 'response'),
                  ('close', 'pong')]
        second = [stat_op(0, A['hi'], hs, hp) for hs in MODES
                  for hp in MODES]
        second += [stat_op(0, b, hs, hp) for b in s_behs
                   for hs, hp in ([(a, b_) for a in MODES for b_ in MODES]
                                  if th else MODES_DIAG)]
        g_connect = [A['hi'], A['lo'], A['unsup'], ('empty',),
                     ('close', 'request'), ('nover',)]
        if A['notal']:
            g_connect.append(A['notal'])
        second += [conn_op(0, b) for b in g_connect]
        for d in ('eager', 'lazy'):
            for f in first:
                for g in second:
                    S('reuse', [cfg], [f, g], d)
        # third operations
        if ci < 2 or th:
            second3 = [stat_op(0, A['hi'], 'custom', 'custom'),
                       stat_op(0, A['hi'], 'off', 'off'),
                       stat_op(0, ('close', 'request'), 'default', 'none'),
                       conn_op(0, A['unsup']), conn_op(0, ('empty',)),
                       conn_op(0, A['lo'])]
            third = [stat_op(0, A['hi'], hs, hp)
                     for hs, hp in MODES_DIAG[:3] + [('custom', 'default')]]
            third += [stat_op(0, ('close', 'request'), 'custom', 'custom'),
                      conn_op(0, A['mid']), conn_op(0, A['unsup'])]
            for d in (('eager', 'lazy') if th else ('eager',)):
                for f in first:
                    for g in second3:
                        for h in third:
                            S('reuse', [cfg], [f, g, h], d)

    # ---- OBJECTS --------------------------------------------------------
    sets2 = [None, [R[1], R[-1]], list(R)]
    sets3 = [None, list(R)]
    if th:
        sets2 += [list(R[:6]), [PRE | 3, 754]]
        sets3 += [list(R[:6])]
    envs = (0, 1, 4)

    def obj_ops(mem, k):
        """The operations object k may be given: a negotiation that ends in
        a login with a version that differs per object, one that is
        refused, one that falls back, and two plain queries."""
        A = seq_alphabets(T, mem)
        ver = [A['lo'], A['hi'], A['mid']][k]
        if mem is None:
            ver = ('proto', R[(3, 5, 1)[k]],
                   T.reported_name(R[(3, 5, 1)[k]]))
        return [conn_op(k, ver), conn_op(k, A['unsup']),
                conn_op(k, ('close', 'request')),
                stat_op(k, A['hi'], 'custom', 'custom'),
                stat_op(k, A['hi'], 'off', 'none')]
    pats2 = [(0, 1), (0, 1, 0)] + ([(0, 1, 0, 1), (0, 0, 1), (0, 1, 1)]
                                   if th else [])
    pats3 = [(0, 1, 2)] + ([(0, 1, 2, 0), (0, 1, 2, 1)] if th else [])
    for nobj, sets, pats in ((2, sets2, pats2), (3, sets3, pats3)):
        for mem in sets:
            objects = [{'allowed': mem, 'initial': None, 'env': envs[k]}
                       for k in range(nobj)]
            for pat in pats:
                for ops in itertools.product(*[obj_ops(mem, k)
                                               for k in pat]):
                    for d in ('eager', 'lazy'):
                        S('objects', objects, [dict(o) for o in ops], d)
                    if nobj == 2 or th:
                        S('objects', objects, [dict(o) for o in ops],
                          'eager', late=True)
    return cases


def enumerate_cases(ctx):
    T = tables()
    rng = random.Random(ctx.seed)
    R = T.R
    th = ctx.thorough
    cases = []

    def C(setkind, members, form, initial, beh, delivery='eager', env=0):
        cases.append({'kind': 'connect', 'setkind': setkind, 'form': form,
                      'allowed': as_form(T, members, form),
                      'initial': initial, 'beh': list(beh),
                      'delivery': delivery, 'env': env})

    singles = [('singleton', [v]) for v in R]
    pairs = [('pair', [a, b]) for a, b in itertools.combinations(R, 2)]
    prefixes = [('prefix', R[:k]) for k in range(3, len(R))]
    full = [('full', list(R))]
    none = [('none', None)]
    multi = pairs + prefixes + full + none
    lite = lite_behaviours(T, rng)
    big = big_behaviours(T)
    single_beh = [('proto', R[0], T.reported_name(R[0])), ('empty',),
                  ('proto', 9999, None)]
    pre3, v340 = PRE | 3, 340
    inits_all = [None, R[0], v340, pre3, R[-1], T.first_name(47),
                 T.last_name(pre3)]
    inits_quick = [None, v340, T.last_name(pre3)]
    p_old_new = ('pair', [R[1], R[-1]])
    p_pre = ('pair', [pre3, 754])
    adjacent = [('pair', [R[i], R[i + 1]]) for i in range(len(R) - 1)]

    # A: every set x initial versions x lite behaviours
    forms = ['num', 'name', 'alias', 'mixed'] if th else ['num']
    for form in forms:
        for sk, mem in singles + multi:
            if mem is None and form != 'num':
                continue
            behs = single_beh if sk == 'singleton' else lite
            for ini in (inits_all if th else inits_quick):
                for b in behs:
                    for d in (('eager', 'lazy') if th else ('eager',)):
                        C(sk, mem, form, ini, b, d)
    # B: lazy delivery
    for sk, mem in multi:
        for b in lite:
            C(sk, mem, 'num', None, b, 'lazy')
    # C: every supported and every known-unsupported number reported
    big_sets = multi if th else none + full + [('prefix', R[:6]),
                                               p_old_new, p_pre]
    for sk, mem in big_sets:
        for b in big:
            for d in (('eager', 'lazy') if th else ('eager',)):
                C(sk, mem, 'num', None, b, d)
    # D: names / aliases / mixed
    if not th:
        for sk, mem in singles + prefixes + full + adjacent:
            behs = single_beh if sk == 'singleton' else lite
            for form in ('name', 'mixed', 'alias'):
                for ini in (None, T.first_name(v340)):
                    for b in behs:
                        C(sk, mem, form, ini, b)
    # E: host / port / user / auth variants
    env_beh = [('proto', R[-1], T.reported_name(R[-1])), ('nover',),
               ('close', 'request'), ('proto', R[3], None), ('empty',)]
    for env in range(1, len(ENVS)):
        for sk, mem in [('singleton', [R[-1]]), ('singleton', [R[1]]),
                        p_old_new, full[0], none[0]]:
            for b in env_beh:
                for d in ('eager', 'lazy'):
                    C(sk, mem, 'num', None, b, d, env)
    # F: byte-wise delivery; sends that fail after the server closed
    for sk, mem in (multi if th else [p_old_new, p_pre, full[0], none[0]]):
        for b in lite:
            C(sk, mem, 'num', None, b, 'byte')
            if b[0] == 'close' or th:
                C(sk, mem, 'num', None, b, 'raise')
    # H: the reported name is inconsistent with the reported number (the
    #    name is a known id of ANOTHER protocol, or unknown): the number decides
    for sk, mem in multi:
        for b in inconsistent_behaviours(T, mem):
            for d in (('eager', 'lazy') if th or sk != 'pair' else ('eager',)):
                for ini in ((None, v340) if th else (None,)):
                    C(sk, mem, 'num', ini, b, d)
    # I: collections with duplicates - several members denote one protocol;
    #    behaviour follows the SET of protocol numbers denoted
    def D(setkind, al, coll, initial, beh, delivery):
        cases.append({'kind': 'connect', 'setkind': setkind, 'form': 'dup',
                      'allowed': list(al), 'coll': coll, 'initial': initial,
                      'beh': list(beh), 'delivery': delivery, 'env': 0})
    dup_single = []
    for p in T.sup:
        ns = T.names_of[p]
        if len(ns) > 1:
            dup_single.append((ns, 'set'))
            if p in R or th:
                dup_single += [([ns[0], ns[-1]], 'set'),
                               ([ns[-1], ns[0]], 'list'), (ns, 'tuple')]
        if p in R or th:
            dup_single += [([ns[0], p], 'set'), ([p, ns[-1]], 'list'),
                           ([p, p], 'list'), ([p, p], 'tuple'),
                           ([p, p, ns[0], p], 'list')]
    for al, coll in dup_single:
        me = T.num(al[0])
        other = R[0] if me != R[0] else R[1]
        for b in (('proto', me, T.reported_name(me)),
                  ('proto', other, T.reported_name(other)), ('empty',),
                  ('nover',)):
            for ini in (None, other):
                for d in ('eager', 'lazy'):
                    D('singleton-dup', al, coll, ini, b, d)
    dup_multi = []
    for sk, mem in (pairs if th else adjacent + [p_old_new, p_pre]) + \
            prefixes + full:
        a, b_ = mem[0], mem[-1]
        dup_multi += [(sk, mem + [a], 'list'), (sk, [b_] + mem + [b_], 'tuple'),
                      (sk, mem + [T.first_name(a)], 'set'),
                      (sk, [T.last_name(b_)] + mem, 'list'),
                      (sk, mem + mem, 'list')]
    for sk, al, coll in dup_multi:
        for b in lite:
            D(sk + '-dup', al, coll, None, b, 'eager')

    # G: every supported number and name is accepted and resolved
    for p in T.sup:
        C('singleton', [p], 'num', None, single_beh[1])
        cases.append({'kind': 'connect', 'setkind': 'pair', 'form': 'num',
                      'allowed': [R[1], R[-1]], 'initial': p,
                      'beh': ['nover'], 'delivery': 'eager', 'env': 0})
    for nm in T.name2proto:
        cases.append({'kind': 'connect', 'setkind': 'singleton',
                      'form': 'name', 'allowed': [nm], 'initial': None,
                      'beh': ['empty'], 'delivery': 'eager', 'env': 0})
        cases.append({'kind': 'connect', 'setkind': 'pair', 'form': 'num',
                      'allowed': [R[1], R[-1]], 'initial': nm,
                      'beh': ['close', 'request'], 'delivery': 'lazy',
                      'env': 0})

    # plain status()
    s_lite = lite_behaviours(T, random.Random(ctx.seed), status_extra=True)
    s_allowed = [None, [R[1]], [v340, pre3], [T.first_name(R[-2])]]
    modes = ['default', 'none', 'custom', 'off']
    for al in s_allowed:
        for b in s_lite + (big if th else []):
            for hs in modes:
                for hp in modes:
                    for d in (('eager', 'lazy', 'byte', 'raise') if th
                              else ('eager', 'lazy')):
                        if d == 'raise' and b[0] != 'close':
                            continue
                        cases.append({'kind': 'status', 'allowed': al,
                                      'initial': None, 'beh': list(b),
                                      'hs': hs, 'hp': hp, 'delivery': d,
                                      'env': 0})
    for env in range(1, len(ENVS)):
        for b in (s_lite[0], ('empty',), ('close', 'request')):
            for hs, hp in (('custom', 'custom'), ('none', 'none'),
                           ('off', 'off'), ('custom', 'default')):
                cases.append({'kind': 'status', 'allowed': None,
                              'initial': R[0], 'beh': list(b), 'hs': hs,
                              'hp': hp, 'delivery': 'eager', 'env': env})

    # constructor refusal
    bad_nums = list(T.unsup) + [p for p in (
        -1, 9999, 2 ** 31 - 1, 758, PRE, PRE | 4, 2 ** 31, 2 ** 63, -47, 48,
        rng.randrange(760, PRE), rng.randrange(760, PRE))
        if p not in T.rank]
    bad_names = list(T.unsup_names) + [s for s in (
        '', 'foo', '1.19', '757', '47', '1.18.2', ' 1.18.1', '1.18.1 ',
        '1.8.10', 'v1.8', '1.18.1\n', 'x%d' % rng.randrange(10 ** 6))
        if s not in T.known_names]
    good = [R[1], R[-1]]
    for bad in bad_nums + bad_names:
        for where, al, ini, aslist in (
                ('allowed-alone', [bad], None, False),
                ('allowed-with-valid', good + [bad], None, False),
                ('allowed-first', [bad] + good, R[1], True),
                ('initial-allowed-none', None, bad, False),
                ('initial-allowed-pair', good, bad, False),
                ('initial-allowed-single', [R[-1]], bad, False)):
            cases.append({'kind': 'ctor', 'allowed': al, 'initial': ini,
                          'bad': bad, 'where': where, 'aslist': aslist})

    # J: the default version is the NEWEST allowed one (no initial_version,
    #    or initial_version naming it) and the status query goes unanswered:
    #    exactly one status connection, then one login connection
    for sk, mem in multi:
        top = T.latest(set(T.sup) if mem is None else set(mem))
        for ini in (None, top, T.last_name(top)):
            for b in [('close', w) for w in ('connect', 'handshake',
                                             'request')] + [('nover',)]:
                for d in ('eager', 'lazy'):
                    C(sk, mem, 'num', ini, b, d)

    # sequences: re-used objects, several objects
    cases += seq_cases(ctx, T)

    # de-duplicate, deterministic order, seed permutes
    seen, uniq = set(), []
    for c in cases:
        k = json.dumps(c, sort_keys=True)
        if k not in seen:
            seen.add(k)
            uniq.append(c)
    rng2 = random.Random(ctx.seed * 7919 + 1)
    rng2.shuffle(uniq)
    return uniq


CHUNK = 150
_DONE_CHUNKS = []        # chunks this (worker) process has executed, in order


def w_chunk(ctx, task):
    cid, chunk = task
    for pos, case in enumerate(chunk):
        run_case(ctx, case, {'chunks': list(_DONE_CHUNKS), 'chunk': cid,
                             'pos': pos})
    _DONE_CHUNKS.append(cid)


def chunked(cases):
    return [(j, cases[i:i + CHUNK])
            for j, i in enumerate(range(0, len(cases), CHUNK))]


def run(ctx):
    T = tables()
    cases = enumerate_cases(ctx)
    ctx.pmap(w_chunk, chunked(cases))
    ctx.extra['R'] = list(T.R)
    ctx.extra['cases_by_kind'] = {
        k: sum(1 for c in cases if c['kind'] == k)
        for k in ('connect', 'status', 'ctor', 'seq')}
    ctx.extra['sequences'] = {
        '%s, %d object(s), %d operation(s)' % (w, no, nop): sum(
            1 for c in cases if c['kind'] == 'seq' and c['why'] == w
            and len(c['objects']) == no and len(c['ops']) == nop)
        for w, no, nop in sorted(set(
            (c['why'], len(c['objects']), len(c['ops']))
            for c in cases if c['kind'] == 'seq'))}
    ctx.sample({'kind': 'connect', 'allowed': [47, 757], 'initial': None,
                'server': 'reports 340 (1.12.2)', 'expected':
                'VersionMismatch: supported, but not allowed'})
    ctx.sample({'kind': 'connect', 'allowed': [47, 757], 'initial': 340,
                'server': 'closes after the status request', 'expected':
                'fallback login with 340 on a 2nd connection'})
    ctx.sample({'kind': 'sequence (reuse)', 'object':
                'Connection(allowed_versions={47, 757})', 'operations':
                'connect() against a server reporting 340; then status('
                'custom handlers) on the SAME object', 'expected':
                'VersionMismatch reported once for the first; the second '
                'judged like a fresh object: handshake 757, handler once, '
                'ping, closed, exit callback once'})
    ctx.sample({'kind': 'sequence (objects)', 'objects':
                'A, B = Connection(...) twice, all versions allowed, both '
                'constructed first', 'operations': 'A.connect() (server '
                'reports 340); B.status(); A.status()', 'expected':
                'B\'s handshake carries 757 (its own latest), A logs in '
                'with 340'})
    ctx.sample({'kind': 'status', 'handle_status': 'custom',
                'handle_ping': False, 'server': '{}', 'expected':
                'handler called once with {}, no ping, closed, exit once'})
    # vacuity guards
    need = ['connect expect direct', 'connect expect login',
            'connect expect fallback', 'connect expect mismatch',
            'connect expect invalid', 'status expect done',
            'status expect error',
            'latest allowed differs from numeric maximum',
            'fallback default outside allowed set',
            'connect server reports-supported-not-allowed',
            'connect server reports-known-unsupported',
            'connect server reports-unknown',
            'connect server reports-allowed-pre',
            'reported name denotes another protocol; expect login',
            'reported name denotes another protocol; expect mismatch',
            'duplicate members; expect direct',
            'duplicate members; expect login',
            'duplicate members; expect mismatch',
            'reuse: third operation on one object',
            'reuse: connect after a status on the same object',
            'reuse: connect after a connect that ended in a login on the '
            'same object',
            'reuse: connect after a connect that ended in an error on the '
            'same object',
            'objects: operation on one of 2 objects constructed up front '
            'while another one is logged in',
            'objects: operation on one of 3 objects constructed up front '
            'while another one is logged in',
            'objects: operation on one of 2 objects constructed at first use '
            'while another one is logged in',
            'objects: status after another object\'s operation',
            'objects: connect after another object\'s operation',
            'fallback to default = newest allowed, initial_version names it: '
            'server closes'] + [
            'reuse: status after a %s on the same object that ended: %s' % pe
            for pe in (('connect', 'mismatch'), ('connect', 'invalid'),
                       ('connect', 'fallback'), ('connect', 'login'),
                       ('status', 'done'), ('status', 'error'))] + [
            'fallback to default = newest allowed, no initial_version: '
            'close-%s' % w for w in ('connect', 'handshake', 'request')]
    missing = [k for k in need if not ctx.classes.get(k)]
    if missing and not ctx.violations:
        from vf.runner import ToolError
        raise ToolError('vacuous: classes never exercised: %r' % missing)


def replay(ctx, case):
    """The case alone, in this fresh process.  If it passes alone and was
    recorded with its position in a worker process, the executions that
    preceded it there are repeated first (not judged) and the case is run
    again: a failure that needs state carried over from earlier Connection
    objects of the process is reproduced that way."""
    case = dict(case)
    carry = case.pop('carry', None)
    scratch = ctx.fork()
    if run_case(scratch, case) or not carry:
        ctx.absorb(scratch)
        return
    from vf.runner import Ctx
    ectx = Ctx(ctx.pid, str(carry['tier']), int(carry['seed']), LEVEL)
    chunks = dict(chunked(enumerate_cases(ectx)))
    before = []
    for cid in carry['chunks']:
        before += chunks[int(cid)]
    before += chunks[int(carry['chunk'])][:int(carry['pos'])]
    for c in before:
        execute(c)
    run_case(ctx, case, note=(
        '\n  NOT reproducible in a fresh process: the case fails only after '
        'the %d executions that preceded it in its worker process (state '
        'carried over from earlier Connection objects of the process)'
        % len(before)))
