"""C09 - status queries and version negotiation pick the right version or the
right error.

Every case is one execution of the real Connection over vnet (canonical
schedule) against an independent RefServer.  Inputs are enumerated: allowed
version sets x default version x what the server's status endpoint does x how
its bytes are delivered; constructor refusals; plain status() under all sixteen
handler-mode combinations (argument omitted / None / callable / False, for
both handlers).  The oracle is `expect_connect` / `expect_status`
below (a function of the configuration and the server behaviour only) plus what
the independent server decoded from the wire.
"""
import errno
import io
import itertools
import json
import random
import re
import sys

from vf import harness, protoids
from vf.refserver import RefServer
from vf.runner import use_repo

LEVEL = 'model_checking'
RULE = ('One execution per case on the real Connection over the virtual '
        'network against the independent RefServer (canonical schedule).  '
        'connect(): allowed-version sets {12 singletons, 66 pairs, 9 '
        'prefixes, the full set over R = 12 supported protocol numbers (1.7.2 '
        '... 1.18.1, two of them pre-release numbers with bit 2^30), None; '
        'every supported number and every supported name as a singleton} '
        'given as numbers / names / last alias name / mixed, x initial_version '
        '{None, numbers, names; every supported number and name once} x server '
        'behaviour {reports each member of R, with/without name; '
        'known-unsupported numbers; unknown numbers (-1, 9999, 2^31-1, 2^63 '
        '...); version object without protocol; empty version object; no '
        'version object; protocol key at top level only; {}; closes at '
        'connect / after handshake / after request; for selected sets (all '
        'non-singleton sets at thorough) each of the 250 supported and 119 '
        'known-unsupported numbers} x delivery {eager, lazy; byte-wise and '
        'failing-send variants for selected sets}; for every non-singleton '
        'set also inconsistent (number, name) replies: number in {unknown, '
        'known-unsupported, supported-but-not-allowed, allowed} x name of '
        '{an allowed, a supported-but-not-allowed, a known-unsupported '
        'version, no version} - the number alone decides; and collections '
        'with duplicates (set / list / tuple): one protocol denoted by two '
        'or all of its names, name + number, the same number 2-3 times '
        '(expected: no status query), and multi-version collections with '
        'repeated members - the expectation follows the SET of protocol '
        'numbers denoted.  Constructor: every '
        'known-unsupported number and name and unknown numbers/names as '
        'allowed member (alone, with valid ones) or as initial_version.  '
        'status(): allowed {None, singleton, pair, name} x the same server '
        'behaviours plus close after response / after pong x handle_status '
        '{omitted, None, custom, False} x handle_ping {omitted (=False), '
        'None, custom, False} x '
        'delivery.  All cases are distinct by construction (de-duplicated '
        'before execution) and all are non-trivial.  states = distinct '
        '(configuration class, server behaviour class, delivery, observed '
        'outcome) abstractions; transitions = protocol frames observed on the '
        'wire (both directions); traces = executions.')
ASSUMPTIONS = [
    'publication order and the supported/known tables are read from the tree '
    'under test (minecraft.KNOWN_PROTOCOL_VERSIONS, SUPPORTED_PROTOCOL_VERSIONS,'
    ' SUPPORTED_MINECRAFT_VERSIONS); their correctness is C08\'s subject',
    'canonical thread schedule only (schedules are C12/C16\'s subject)',
    'vnet models the socket API (selftest/vnet_conformance)',
    'the default print handlers of status() are observed only through their '
    'protocol effects (stdout is captured and recorded, not judged)',
]

MAXCONN = 4          # the 5th TCP connection of one execution is refused
PRE = 1 << 30
R_WANTED = (4, 47, 107, 340, 393, 477, 578, 736, PRE | 3, 754, PRE | 6, 757)
USERNAME = 'vfuser'
PROFILE = 'profuser'
ODD_NAME = 'Paper 9.9'

# (host, port, username, auth stub?)
ENVS = [
    ('srv', 25565, USERNAME, False),
    ('mc.example.org', 1, 'Other_User1', False),
    ('10.0.0.7', 65535, USERNAME, True),
    ('srv', 25566, None, True),
    ('h', 443, 'a', False),
]


# --------------------------------------------------------------------------
# tables (data only, from the tree under test)

class Tables(object):
    def __init__(self):
        mc = use_repo()
        self.sup = list(mc.SUPPORTED_PROTOCOL_VERSIONS)
        self.supset = set(self.sup)
        self.known = list(mc.KNOWN_PROTOCOL_VERSIONS)
        self.rank = {v: i for i, v in enumerate(self.known)}
        self.name2proto = dict(mc.SUPPORTED_MINECRAFT_VERSIONS)
        self.known_names = dict(mc.KNOWN_MINECRAFT_VERSIONS)
        self.names_of = {}          # supported names per supported number
        for n, p in self.name2proto.items():
            self.names_of.setdefault(p, []).append(n)
        self.known_names_of = {}
        for n, p in self.known_names.items():
            self.known_names_of.setdefault(p, []).append(n)
        self.unsup = [v for v in self.known if v not in self.supset]
        # known names that are not supported names (their protocol number
        # may or may not be supported through another name)
        self.unsup_names = [n for n in self.known_names
                            if n not in self.name2proto]
        self.R = [v for v in R_WANTED if v in self.supset]
        self.R.sort(key=self.rank.get)

    def num(self, v):
        return self.name2proto[v] if isinstance(v, str) else v

    def latest(self, nums):
        return max(nums, key=lambda v: self.rank[v])

    def first_name(self, p):
        ns = self.names_of.get(p)
        return ns[0] if ns else None

    def last_name(self, p):
        ns = self.names_of.get(p)
        return ns[-1] if ns else None

    def reported_name(self, p):
        """A version name a server at protocol p would report."""
        ns = self.known_names_of.get(p)
        return ns[0] if ns else None


_T = []


def tables():
    if not _T:
        _T.append(Tables())
    return _T[0]


# --------------------------------------------------------------------------
# the oracle

def expect_connect(T, allowed, initial, beh):
    """(allowed members | None, initial | None, server behaviour) ->
    expected outcome.  This is the whole reference model."""
    nums = set(T.sup) if allowed is None else {T.num(v) for v in allowed}
    default = T.latest(nums) if initial is None else T.num(initial)
    if len(nums) == 1:
        return ('direct', next(iter(nums)))
    if beh[0] in ('close', 'noproto', 'emptyver', 'nover', 'novertop'):
        return ('fallback', default)
    if beh[0] == 'empty':
        return ('invalid',)
    p, name = beh[1], (beh[2] if len(beh) > 2 else None)
    if p in nums:
        return ('login', p)
    return ('mismatch', p, name, p in T.supset)


def expect_status(beh, want_ping):
    """-> ('done' | 'error', number of handler calls, number of pings)."""
    if beh[0] == 'close':
        if beh[1] in ('connect', 'handshake', 'request'):
            return ('error', 0, 0)
        if beh[1] == 'response':
            return ('error', 1, None) if want_ping else ('done', 1, 0)
    return ('done', 1, 1 if want_ping else 0)


def beh_class(T, allowed, beh):
    k = beh[0]
    if k in ('proto', 'protomin'):
        nums = set(T.sup) if allowed is None else {T.num(v) for v in allowed}
        p = beh[1]
        c = ('reports-allowed' if p in nums else
             'reports-supported-not-allowed' if p in T.supset else
             'reports-known-unsupported' if p in T.rank else
             'reports-unknown')
        if p in T.supset and p >= PRE:
            c += '-pre'
        if k == 'protomin' or beh[2] is None:
            c += '-noname'
        return c
    if k == 'close':
        return 'close-' + beh[1]
    return {'noproto': 'version-without-protocol', 'emptyver':
            'empty-version-object', 'nover': 'no-version-object',
            'novertop': 'protocol-at-top-level-only',
            'empty': 'empty-object'}[k]


def status_text(beh):
    k = beh[0]
    if k == 'empty':
        return '{}'
    if k == 'protomin':
        return json.dumps({'version': {'protocol': beh[1]}})
    d = {'description': {'text': 'vf'}, 'players': {'max': 20, 'online': 0}}
    if k == 'proto':
        v = {}
        if beh[2] is not None:
            v['name'] = beh[2]
        v['protocol'] = beh[1]
        d['version'] = v
    elif k == 'noproto':
        d['version'] = {'name': beh[1]}
    elif k == 'emptyver':
        d['version'] = {}
    elif k == 'novertop':
        d['protocol'] = beh[1]
        d['name'] = 'x'
    elif k == 'close':
        # never sent on the first connection; a sane reply for any (wrong)
        # further status query
        d['version'] = {'name': '1.18.1', 'protocol': 757}
    return json.dumps(d)


# --------------------------------------------------------------------------
# execution

class _Profile(object):
    def __init__(self, name):
        self.name = name


class _Token(object):
    """Stand-in for AuthenticationToken: a profile name and join()."""
    def __init__(self, name):
        self.profile = _Profile(name)
        self.joins = []

    def join(self, server_id):
        self.joins.append(server_id)


class _Srv(RefServer):
    """RefServer that refuses (instead of looking up packet ids for) a login
    whose handshake carries a number outside the known table."""
    def _login(self, pid, r):
        if self.version_unknown:
            self.errors.append('login handshake carries unknown protocol '
                               'number %r' % (self.version,))
            self.close()
            return
        RefServer._login(self, pid, r)


def _exc_rec(W, e):
    VM = W.mc.exceptions.VersionMismatch
    miss = '<missing>'
    sp, sv = getattr(e, 'server_protocol', miss), \
        getattr(e, 'server_version', miss)
    if not (sp is None or isinstance(sp, (int, str))):
        sp = repr(sp)
    if not (sv is None or isinstance(sv, (int, str))):
        sv = repr(sv)
    return {'vm': isinstance(e, VM), 'type': type(e).__name__,
            'str': str(e), 'sp': sp, 'sv': sv}


def body(W, case):
    kind = case['kind']
    host, port, username, auth = ENVS[case.get('env', 0)]
    beh = tuple(case['beh']) if case.get('beh') else None
    obs = {'ctor': None, 'call': None, 'excs': [], 'exits': 0,
           'statuses': [], 'pings': [], 'stdout': ''}
    excs, exits = [], []

    if beh is not None:
        text = status_text(beh)
        obs['text'] = text

        def factory(vc):
            i = len(W.servers)
            if i >= MAXCONN:
                raise ConnectionRefusedError(errno.ECONNREFUSED,
                                             'vf: connection budget')
            kw = {'status': {'json': text, 'pong': True}}
            if i == 0 and beh[0] == 'close':
                kw['close_after'] = beh[1]
            srv = _Srv(vc, protoids.ids, W.rank, **kw)
            W.servers.append(srv)
            return srv
        W.net.listen(host, port, factory)

    kw = {'username': username,
          'handle_exception': lambda e, info: excs.append(e),
          'handle_exit': lambda: exits.append(1)}
    if auth:
        kw['auth_token'] = _Token(PROFILE)
    if case.get('allowed') is not None:
        al = case['allowed']
        coll = case.get('coll') or ('list' if case.get('aslist') else 'set')
        kw['allowed_versions'] = {'set': set, 'list': list,
                                  'tuple': tuple}[coll](al)
    if case.get('initial') is not None:
        kw['initial_version'] = case['initial']

    saved = sys.stdout
    sys.stdout = buf = io.StringIO()
    try:
        try:
            conn = W.C.Connection(host, port, **kw)
        except ValueError as e:
            obs['ctor'] = ('ValueError', str(e))
            conn = None
        except Exception as e:
            obs['ctor'] = (type(e).__name__, str(e))
            conn = None
        if conn is not None and kind != 'ctor':
            try:
                if kind == 'connect':
                    conn.connect()
                else:
                    skw = {}
                    for arg, mode, sink in (
                            ('handle_status', case['hs'], obs['statuses']),
                            ('handle_ping', case['hp'], obs['pings'])):
                        if mode == 'custom':
                            skw[arg] = sink.append
                        elif mode == 'off':
                            skw[arg] = False
                        elif mode == 'none':
                            skw[arg] = None
                        # mode 'default': argument not passed at all
                        # (handle_status=None: print; handle_ping=False)
                    conn.status(**skw)
            except Exception as e:
                obs['call'] = (type(e).__name__, str(e))
            W.settle(1 if case.get('delivery') == 'byte' else None)
    finally:
        sys.stdout = saved
    obs['stdout'] = buf.getvalue()
    obs['excs'] = [_exc_rec(W, e) for e in excs]
    obs['exits'] = len(exits)
    obs['conn_exc'] = (None if conn is None or conn.exception is None
                       else type(conn.exception).__name__)
    obs['thread_exc'] = ['%s: %s' % (type(a.exc).__name__, a.exc)
                         for a in W.S.agents if a.exc is not None]
    obs['live'] = len(W.S.live())
    obs['nconns'] = len(W.net.conns)
    obs['refused'] = W.net.refused
    cs = []
    for i, vc in enumerate(W.net.conns):
        srv = vc.server
        d = {'gone': bool(vc.client_gone), 'c2s': len(vc.c2s),
             's2c_frames': len(vc.frame_ends)}
        if srv is not None:
            d.update(hs=srv.handshake, login=srv.login_name,
                     req=srv.status_requests, pings=len(srv.pings),
                     errors=list(srv.errors), state=srv.state,
                     frames=[(f[0], f[1]) for f in srv.frames],
                     late=srv.bytes_after_gone)
        cs.append(d)
    obs['conns'] = cs
    obs['pings'] = [p if isinstance(p, (int, float)) and
                    not isinstance(p, bool) else repr(p)
                    for p in obs['pings']]
    return obs


def execute(case):
    d = case.get('delivery', 'eager')
    kw = {}
    if d in ('lazy', 'byte'):
        kw['hold'] = True
    if d == 'raise':
        kw['send_after_close'] = 'raise'
    return harness.run(lambda W: body(W, case), horizon=20000, **kw)


# --------------------------------------------------------------------------
# judging

def _num_in(msg, p, name):
    if name:
        msg = msg.replace(name, ' ')
    return re.search(r'(?<![0-9-])%s(?![0-9])' % re.escape(str(p)),
                     msg) is not None


def _check_hs(out, tag, got, proto, host, port, nxt):
    want = {'protocol': proto, 'host': host, 'port': port, 'next': nxt}
    if got != want:
        which = [k for k in ('protocol', 'host', 'port', 'next')
                 if not got or got.get(k) != want[k]]
        out.append((tag + '-' + '+'.join(which),
                    'handshake of the %s connection: expected %r, the server '
                    'decoded %r' % (tag, want, got)))


def _common(out, x, obs):
    for i, c in enumerate(obs['conns']):
        if c.get('errors'):
            out.append(('server-decode-error', 'connection %d: the '
                        'independent server could not accept what the client '
                        'sent: %r' % (i, c['errors'][:3])))
    if obs['thread_exc']:
        out.append(('thread-exception', 'an exception escaped a thread '
                    'although a final handler was installed: %r'
                    % obs['thread_exc'][:2]))
    if obs['call'] is not None:
        out.append(('call-raised', 'the API call itself raised %r'
                    % (obs['call'],)))


def judge_connect(T, case, x):
    """-> (outcome label, [(check id, text)])."""
    out = []
    allowed, initial = case['allowed'], case['initial']
    beh = tuple(case['beh'])
    host, port, username, auth = ENVS[case.get('env', 0)]
    exp = expect_connect(T, allowed, initial, beh)
    if x.failure is not None:
        return x.failure[0], exp, [(x.failure[0], 'the client %ss: %s'
                                    % (x.failure[0], x.failure[1]))]
    obs = x.result
    if obs['ctor'] is not None:
        return 'ctor-refused', exp, [('ctor', 'constructing the Connection '
                                      'with valid versions raised %r'
                                      % (obs['ctor'],))]
    nums = set(T.sup) if allowed is None else {T.num(v) for v in allowed}
    latest = T.latest(nums)
    conns = obs['conns']
    n = obs['nconns']
    excs = obs['excs']
    login_conns = [c for c in conns if c.get('hs') and c['hs'].get('next') == 2]
    # what happened, in the oracle's vocabulary
    if excs:
        label = 'mismatch' if excs[0]['vm'] else 'error:' + excs[0]['type']
    elif login_conns:
        label = 'login@%d-conns' % n
    else:
        label = 'nothing'
    _common(out, x, obs)
    name = PROFILE if auth else username

    def status_conn(c, closed_at_connect=False):
        if closed_at_connect:
            if c.get('hs') is not None:
                _check_hs(out, 'status', c['hs'], latest, host, port, 1)
            return
        _check_hs(out, 'status', c.get('hs'), latest, host, port, 1)
        if c.get('pings'):
            out.append(('ping-in-negotiation', 'a ping was sent during '
                        'version negotiation'))
        want_req = 0 if beh == ('close', 'handshake') else 1
        if c.get('req') != want_req:
            out.append(('status-requests', 'status requests received on the '
                        'query connection: %r, expected %d'
                        % (c.get('req'), want_req)))

    def login_conn(c, proto):
        _check_hs(out, 'login', c.get('hs'), proto, host, port, 2)
        if c.get('login') != name:
            out.append(('login-name', 'login start names %r, expected %r '
                        '(username=%r, auth profile=%r)'
                        % (c.get('login'), name, username,
                           PROFILE if auth else None)))
        if c.get('req') or c.get('pings'):
            out.append(('status-on-login', 'status traffic on the login '
                        'connection'))

    kind = exp[0]
    if kind in ('direct', 'login', 'fallback'):
        if excs:
            out.append(('unexpected-error', 'expected %s, but an exception '
                        'was reported: %r' % (_exp_text(exp), excs[:2])))
        want_n = 1 if kind == 'direct' else 2
        if n != want_n:
            out.append(('tcp-connections', '%d TCP connections were opened, '
                        'expected %d (%s)' % (n, want_n, _exp_text(exp))))
        if kind == 'direct':
            if conns:
                login_conn(conns[0], exp[1])
        else:
            if conns:
                status_conn(conns[0], beh == ('close', 'connect'))
            if len(conns) > 1:
                login_conn(conns[1], exp[1])
            elif not excs:
                out.append(('no-login', 'no login connection was made, '
                            'expected %s' % _exp_text(exp)))
    else:
        if n != 1:
            out.append(('tcp-connections', '%d TCP connections were opened, '
                        'expected 1 (%s)' % (n, _exp_text(exp))))
        if login_conns:
            out.append(('login-despite-error', 'a login handshake (protocol '
                        '%r) was sent, expected %s'
                        % (login_conns[0]['hs'].get('protocol'),
                           _exp_text(exp))))
        if conns:
            status_conn(conns[0])
        if len(excs) != 1:
            out.append(('error-count', '%d exceptions were delivered to the '
                        'handler, expected exactly one (%s): %r'
                        % (len(excs), _exp_text(exp), excs[:3])))
        elif kind == 'invalid':
            if excs[0]['vm']:
                out.append(('invalid-as-mismatch', 'an empty status object '
                            'was reported as VersionMismatch: %r'
                            % excs[0]['str']))
        else:
            e = excs[0]
            p, sname, supported = exp[1], exp[2], exp[3]
            if not e['vm']:
                out.append(('not-versionmismatch', 'expected VersionMismatch, '
                            'got %s: %s' % (e['type'], e['str'])))
            else:
                msg = e['str']
                if not _num_in(msg, p, sname):
                    out.append(('message-number', 'the message does not name '
                                'the server\'s protocol number %d: %r'
                                % (p, msg)))
                if sname is not None and sname not in msg:
                    out.append(('message-name', 'the message does not name '
                                'the server\'s version %r: %r' % (sname, msg)))
                says_unsup = 'not supported' in msg
                says_notallowed = 'not allowed' in msg and \
                    'supported' in msg and not says_unsup
                if supported and not says_notallowed or \
                        not supported and (not says_unsup
                                           or 'not allowed' in msg):
                    out.append(('message-kind', 'protocol %d is %s, but the '
                                'message says: %r' % (
                                    p, 'supported, only not allowed for this '
                                    'connection' if supported else
                                    'not supported at all', msg)))
                if e['sp'] != p or isinstance(e['sp'], bool):
                    out.append(('attr-server_protocol', 'err.server_protocol '
                                'is %r, expected %r' % (e['sp'], p)))
                if e['sv'] != sname:
                    out.append(('attr-server_version', 'err.server_version '
                                'is %r, expected %r' % (e['sv'], sname)))
    return label, exp, out


def _exp_text(exp):
    k = exp[0]
    if k == 'direct':
        return 'direct login with the only allowed version %d' % exp[1]
    if k == 'login':
        return 'login with the server\'s version %d' % exp[1]
    if k == 'fallback':
        return 'fallback login with the default version %d' % exp[1]
    if k == 'invalid':
        return 'invalid-status error'
    return 'VersionMismatch for %d (%s)' % (
        exp[1], 'supported, not allowed' if exp[3] else 'not supported')


def judge_status(T, case, x):
    out = []
    allowed = case['allowed']
    beh = tuple(case['beh'])
    host, port, username, auth = ENVS[case.get('env', 0)]
    hs_mode, hp_mode = case['hs'], case['hp']
    # status(handle_status=None, handle_ping=False): latency is requested
    # iff handle_ping is given and is not False
    want_ping = hp_mode in ('none', 'custom')
    exp = expect_status(beh, want_ping)
    if x.failure is not None:
        return x.failure[0], exp, [(x.failure[0], 'the client %ss: %s'
                                    % (x.failure[0], x.failure[1]))]
    obs = x.result
    if obs['ctor'] is not None:
        return 'ctor-refused', exp, [('ctor', 'constructing the Connection '
                                      'with valid versions raised %r'
                                      % (obs['ctor'],))]
    nums = set(T.sup) if allowed is None else {T.num(v) for v in allowed}
    latest = T.latest(nums)
    conns, n, excs = obs['conns'], obs['nconns'], obs['excs']
    label = ('error:' + excs[0]['type']) if excs else \
        'done(status=%d,ping=%d,exit=%d)' % (
            len(obs['statuses']), len(obs['pings']), obs['exits'])
    _common(out, x, obs)
    if n != 1:
        out.append(('tcp-connections', 'a plain status query opened %d TCP '
                    'connections' % n))
    c = conns[0] if conns else {}
    at_connect = beh == ('close', 'connect')
    if not at_connect or c.get('hs') is not None:
        _check_hs(out, 'status', c.get('hs'), latest, host, port, 1)
    if not at_connect:
        want_req = 0 if beh == ('close', 'handshake') else 1
        if c.get('req') != want_req:
            out.append(('status-requests', '%r status requests received, '
                        'expected %d' % (c.get('req'), want_req)))
    parsed = json.loads(obs['text'])
    if hs_mode == 'custom':
        want = [parsed] * exp[1]
        if obs['statuses'] != want:
            out.append(('status-handler', 'handle_status was called %d '
                        'time(s) with %r; expected %d call(s) with the parsed '
                        'reply %r' % (len(obs['statuses']),
                                      obs['statuses'][:2], exp[1], parsed)))
    if exp[2] is not None and c.get('pings', 0) != exp[2] and not at_connect:
        out.append(('ping-sent', '%r ping(s) reached the server, expected %d '
                    '(handle_ping mode %s)' % (c.get('pings'), exp[2],
                                               hp_mode)))
    if exp[0] == 'done':
        if excs:
            out.append(('unexpected-error', 'an exception was reported: %r'
                        % excs[:2]))
        if hp_mode == 'custom':
            ps = obs['pings']
            if len(ps) != 1 or isinstance(ps[0], str) or not ps[0] >= 0:
                out.append(('ping-handler', 'handle_ping calls: %r; expected '
                            'exactly one non-negative latency' % (ps,)))
        if not c.get('gone'):
            out.append(('not-closed', 'the connection was not closed at the '
                        'end of the status query'))
        if obs['exits'] != 1:
            out.append(('exit-callback', 'handle_exit ran %d times, expected '
                        'once' % obs['exits']))
    else:
        if not excs:
            out.append(('silent-early-close', 'the server closed before the '
                        'query completed but no exception was reported '
                        '(exits=%d)' % obs['exits']))
        if hp_mode == 'custom' and obs['pings']:
            out.append(('ping-handler', 'handle_ping was called (%r) although '
                        'no pong was ever sent' % (obs['pings'],)))
    return label, exp, out


def judge_ctor(T, case, x):
    out = []
    if x.failure is not None:
        return x.failure[0], None, [(x.failure[0], str(x.failure[1]))]
    obs = x.result
    if obs['ctor'] is None:
        label = 'accepted'
        out.append(('accepted', 'Connection(allowed_versions=%r, '
                    'initial_version=%r) was accepted although %r is not a '
                    'supported version' % (case['allowed'], case['initial'],
                                           case['bad'])))
    elif obs['ctor'][0] != 'ValueError':
        label = 'raised:' + obs['ctor'][0]
        out.append(('wrong-exception', 'expected ValueError for %r, got %r'
                    % (case['bad'], obs['ctor'])))
    else:
        label = 'ValueError'
    if obs['nconns'] or obs['refused']:
        out.append(('tcp-at-construction', 'construction opened %d TCP '
                    'connection(s)' % (obs['nconns'] + obs['refused'])))
    return label, None, out


def bad_class(T, bad):
    if isinstance(bad, str):
        return 'known-unsupported-name' if bad in T.known_names \
            else 'unknown-name'
    return 'known-unsupported-number' if bad in T.rank else 'unknown-number'


def run_case(ctx, case):
    T = tables()
    x = execute(case)
    ctx.count()
    ctx.traces += 1
    ctx.note_distinct(1)
    kind = case['kind']
    if kind == 'connect':
        label, exp, probs = judge_connect(T, case, x)
        bc = beh_class(T, case['allowed'], tuple(case['beh']))
        cfg = (case['setkind'], case['form'],
               'none' if case['initial'] is None else
               'name' if isinstance(case['initial'], str) else 'num',
               case.get('env', 0))
        ctx.cls('connect expect %s' % exp[0])
        ctx.cls('connect server %s' % bc)
        ctx.cls('connect set %s/%s' % (case['setkind'], case['form']))
        b = tuple(case['beh'])
        if b[0] == 'proto' and b[2] in T.known_names and \
                T.known_names[b[2]] != b[1]:
            ctx.cls('reported name denotes another protocol; expect %s'
                    % exp[0])
        if case['form'] == 'dup':
            ctx.cls('duplicate members; expect %s' % exp[0])
        if exp[0] == 'fallback':
            nums = set(T.sup) if case['allowed'] is None else \
                {T.num(v) for v in case['allowed']}
            ctx.cls('fallback default %s allowed set'
                    % ('inside' if exp[1] in nums else 'outside'))
        if exp[0] != 'direct' and case['allowed'] is not None:
            nums = {T.num(v) for v in case['allowed']}
            if max(nums) != T.latest(nums):
                ctx.cls('latest allowed differs from numeric maximum')
    elif kind == 'status':
        label, exp, probs = judge_status(T, case, x)
        bc = beh_class(T, case['allowed'], tuple(case['beh']))
        cfg = (case['hs'], case['hp'], case.get('env', 0),
               'none' if case['allowed'] is None else len(case['allowed']))
        ctx.cls('status expect %s' % exp[0])
        ctx.cls('status handlers %s/%s' % (case['hs'], case['hp']))
        if x.failure is None and x.result['stdout']:
            ctx.cls('status default handler printed')
    else:
        label, exp, probs = judge_ctor(T, case, x)
        bc = bad_class(T, case['bad'])
        cfg = (case['where'],)
        ctx.cls('ctor %s as %s' % (bc, case['where']))
    d = case.get('delivery', 'eager')
    ctx.cls('delivery %s' % d)
    ctx.outcome('%s: %s' % (kind, label))
    frames = 0
    if x.failure is None:
        for c in x.result['conns']:
            frames += len(c.get('frames', ())) + c['s2c_frames']
    ctx.transitions += frames
    ctx.state((kind, cfg, bc, d, label,
               x.result['nconns'] if x.failure is None else -1))
    for check, text in probs:
        key = '%s %s expect=%s: %s' % (kind, bc, exp[0] if exp else 'refusal',
                                       check)
        ctx.violation(key, '%s\n  case: %s\n  observed: %s'
                      % (text, _case_text(case),
                         _obs_text(x)), case)
    return probs


def _case_text(case):
    return ', '.join('%s=%r' % (k, case[k]) for k in sorted(case)
                     if k not in ('setkind', 'form'))


def _obs_text(x):
    if x.failure is not None:
        return repr(x.failure)
    o = x.result
    return ('connections=%r exceptions=%r exits=%d' % (
        [(c.get('hs'), c.get('login'), c.get('req'), c.get('pings'))
         for c in o['conns']], [(e['type'], e['str']) for e in o['excs']],
        o['exits']))[:900]


# --------------------------------------------------------------------------
# enumeration

def lite_behaviours(T, rng, status_extra=False):
    B = []
    for p in T.R:
        B.append(('proto', p, T.reported_name(p)))
    B.append(('proto', T.R[-1], None))
    B.append(('proto', T.R[1], None))
    B.append(('protomin', T.R[2]))
    B.append(('proto', T.R[0], ODD_NAME))
    # neighbours of R members in the supported list that are not in R
    inR = set(T.R)
    for p in (T.R[1], T.R[-3], T.R[-1]):
        i = T.sup.index(p)
        for q in T.sup[max(0, i - 1):i + 2]:
            if q not in inR and ('proto', q, T.reported_name(q)) not in B:
                B.append(('proto', q, T.reported_name(q)))
    u = T.unsup
    for p in (u[0], u[3], u[4], u[len(u) // 2], u[-1]):
        B.append(('proto', p, T.reported_name(p)))
    B.append(('proto', u[1], None))
    unknown = [p for p in (-1, 9999, 2 ** 31 - 1, 758, PRE, PRE | 4,
                           2 ** 31, 2 ** 63, -2 ** 31, 48)
               if p not in T.rank]
    while len(unknown) < 12:                 # seed-derived extras
        p = rng.randrange(760, PRE)
        if p not in T.rank and p not in unknown:
            unknown.append(p)
    for i, p in enumerate(unknown):
        B.append(('proto', p, ODD_NAME if i % 2 == 0 else None))
    B += [('noproto', '1.18.1'), ('emptyver',), ('nover',),
          ('novertop', 757), ('empty',)]
    B += [('close', 'connect'), ('close', 'handshake'), ('close', 'request')]
    if status_extra:
        B += [('close', 'response'), ('close', 'pong')]
    return B


def inconsistent_behaviours(T, members):
    """(number, name) pairs in which the name denotes another protocol than
    the number: number in {unknown, known-unsupported, supported but not
    allowed, allowed} x name of {an allowed, a supported but not allowed, a
    known-unsupported version, no known version}."""
    nums = set(T.sup) if members is None else set(members)
    allowed = sorted(nums, key=T.rank.get)
    disallowed = [p for p in T.R if p not in nums] or \
        [p for p in T.sup if p not in nums]
    numbers = [5000, T.unsup[len(T.unsup) // 3], T.unsup[-1],
               allowed[0], allowed[-1]]
    if disallowed:
        numbers += [disallowed[0], disallowed[-1]]
    B = []
    for p in numbers:
        name_src = [q for q in (allowed[-1], allowed[0]) if q != p][:1]
        name_src += [q for q in reversed(disallowed) if q != p][:1]
        name_src += [q for q in (T.unsup[1], T.unsup[-2]) if q != p][:1]
        for q in name_src:
            for nm in sorted({T.reported_name(q), T.known_names_of[q][-1]}):
                B.append(('proto', p, nm))
        B.append(('proto', p, ODD_NAME))
    out = []
    for b in B:
        if b not in out:
            out.append(b)
    return out


def big_behaviours(T):
    return [('proto', p, T.reported_name(p)) for p in T.sup + T.unsup]


def as_form(T, members, form):
    if members is None:
        return None
    out = []
    for i, p in enumerate(members):
        if form == 'name' or (form == 'mixed' and i % 2 == 0):
            out.append(T.first_name(p))
        elif form == 'alias':
            out.append(T.last_name(p))
        else:
            out.append(p)
    return out


def enumerate_cases(ctx):
    T = tables()
    rng = random.Random(ctx.seed)
    R = T.R
    th = ctx.thorough
    cases = []

    def C(setkind, members, form, initial, beh, delivery='eager', env=0):
        cases.append({'kind': 'connect', 'setkind': setkind, 'form': form,
                      'allowed': as_form(T, members, form),
                      'initial': initial, 'beh': list(beh),
                      'delivery': delivery, 'env': env})

    singles = [('singleton', [v]) for v in R]
    pairs = [('pair', [a, b]) for a, b in itertools.combinations(R, 2)]
    prefixes = [('prefix', R[:k]) for k in range(3, len(R))]
    full = [('full', list(R))]
    none = [('none', None)]
    multi = pairs + prefixes + full + none
    lite = lite_behaviours(T, rng)
    big = big_behaviours(T)
    single_beh = [('proto', R[0], T.reported_name(R[0])), ('empty',),
                  ('proto', 9999, None)]
    pre3, v340 = PRE | 3, 340
    inits_all = [None, R[0], v340, pre3, R[-1], T.first_name(47),
                 T.last_name(pre3)]
    inits_quick = [None, v340, T.last_name(pre3)]
    p_old_new = ('pair', [R[1], R[-1]])
    p_pre = ('pair', [pre3, 754])
    adjacent = [('pair', [R[i], R[i + 1]]) for i in range(len(R) - 1)]

    # A: every set x initial versions x lite behaviours
    forms = ['num', 'name', 'alias', 'mixed'] if th else ['num']
    for form in forms:
        for sk, mem in singles + multi:
            if mem is None and form != 'num':
                continue
            behs = single_beh if sk == 'singleton' else lite
            for ini in (inits_all if th else inits_quick):
                for b in behs:
                    for d in (('eager', 'lazy') if th else ('eager',)):
                        C(sk, mem, form, ini, b, d)
    # B: lazy delivery
    for sk, mem in multi:
        for b in lite:
            C(sk, mem, 'num', None, b, 'lazy')
    # C: every supported and every known-unsupported number reported
    big_sets = multi if th else none + full + [('prefix', R[:6]),
                                               p_old_new, p_pre]
    for sk, mem in big_sets:
        for b in big:
            for d in (('eager', 'lazy') if th else ('eager',)):
                C(sk, mem, 'num', None, b, d)
    # D: names / aliases / mixed
    if not th:
        for sk, mem in singles + prefixes + full + adjacent:
            behs = single_beh if sk == 'singleton' else lite
            for form in ('name', 'mixed', 'alias'):
                for ini in (None, T.first_name(v340)):
                    for b in behs:
                        C(sk, mem, form, ini, b)
    # E: host / port / user / auth variants
    env_beh = [('proto', R[-1], T.reported_name(R[-1])), ('nover',),
               ('close', 'request'), ('proto', R[3], None), ('empty',)]
    for env in range(1, len(ENVS)):
        for sk, mem in [('singleton', [R[-1]]), ('singleton', [R[1]]),
                        p_old_new, full[0], none[0]]:
            for b in env_beh:
                for d in ('eager', 'lazy'):
                    C(sk, mem, 'num', None, b, d, env)
    # F: byte-wise delivery; sends that fail after the server closed
    for sk, mem in (multi if th else [p_old_new, p_pre, full[0], none[0]]):
        for b in lite:
            C(sk, mem, 'num', None, b, 'byte')
            if b[0] == 'close' or th:
                C(sk, mem, 'num', None, b, 'raise')
    # H: the reported name is inconsistent with the reported number (the
    #    name is a known id of ANOTHER protocol, or unknown): the number decides
    for sk, mem in multi:
        for b in inconsistent_behaviours(T, mem):
            for d in (('eager', 'lazy') if th or sk != 'pair' else ('eager',)):
                for ini in ((None, v340) if th else (None,)):
                    C(sk, mem, 'num', ini, b, d)
    # I: collections with duplicates - several members denote one protocol;
    #    behaviour follows the SET of protocol numbers denoted
    def D(setkind, al, coll, initial, beh, delivery):
        cases.append({'kind': 'connect', 'setkind': setkind, 'form': 'dup',
                      'allowed': list(al), 'coll': coll, 'initial': initial,
                      'beh': list(beh), 'delivery': delivery, 'env': 0})
    dup_single = []
    for p in T.sup:
        ns = T.names_of[p]
        if len(ns) > 1:
            dup_single.append((ns, 'set'))
            if p in R or th:
                dup_single += [([ns[0], ns[-1]], 'set'),
                               ([ns[-1], ns[0]], 'list'), (ns, 'tuple')]
        if p in R or th:
            dup_single += [([ns[0], p], 'set'), ([p, ns[-1]], 'list'),
                           ([p, p], 'list'), ([p, p], 'tuple'),
                           ([p, p, ns[0], p], 'list')]
    for al, coll in dup_single:
        me = T.num(al[0])
        other = R[0] if me != R[0] else R[1]
        for b in (('proto', me, T.reported_name(me)),
                  ('proto', other, T.reported_name(other)), ('empty',),
                  ('nover',)):
            for ini in (None, other):
                for d in ('eager', 'lazy'):
                    D('singleton-dup', al, coll, ini, b, d)
    dup_multi = []
    for sk, mem in (pairs if th else adjacent + [p_old_new, p_pre]) + \
            prefixes + full:
        a, b_ = mem[0], mem[-1]
        dup_multi += [(sk, mem + [a], 'list'), (sk, [b_] + mem + [b_], 'tuple'),
                      (sk, mem + [T.first_name(a)], 'set'),
                      (sk, [T.last_name(b_)] + mem, 'list'),
                      (sk, mem + mem, 'list')]
    for sk, al, coll in dup_multi:
        for b in lite:
            D(sk + '-dup', al, coll, None, b, 'eager')

    # G: every supported number and name is accepted and resolved
    for p in T.sup:
        C('singleton', [p], 'num', None, single_beh[1])
        cases.append({'kind': 'connect', 'setkind': 'pair', 'form': 'num',
                      'allowed': [R[1], R[-1]], 'initial': p,
                      'beh': ['nover'], 'delivery': 'eager', 'env': 0})
    for nm in T.name2proto:
        cases.append({'kind': 'connect', 'setkind': 'singleton',
                      'form': 'name', 'allowed': [nm], 'initial': None,
                      'beh': ['empty'], 'delivery': 'eager', 'env': 0})
        cases.append({'kind': 'connect', 'setkind': 'pair', 'form': 'num',
                      'allowed': [R[1], R[-1]], 'initial': nm,
                      'beh': ['close', 'request'], 'delivery': 'lazy',
                      'env': 0})

    # plain status()
    s_lite = lite_behaviours(T, random.Random(ctx.seed), status_extra=True)
    s_allowed = [None, [R[1]], [v340, pre3], [T.first_name(R[-2])]]
    modes = ['default', 'none', 'custom', 'off']
    for al in s_allowed:
        for b in s_lite + (big if th else []):
            for hs in modes:
                for hp in modes:
                    for d in (('eager', 'lazy', 'byte', 'raise') if th
                              else ('eager', 'lazy')):
                        if d == 'raise' and b[0] != 'close':
                            continue
                        cases.append({'kind': 'status', 'allowed': al,
                                      'initial': None, 'beh': list(b),
                                      'hs': hs, 'hp': hp, 'delivery': d,
                                      'env': 0})
    for env in range(1, len(ENVS)):
        for b in (s_lite[0], ('empty',), ('close', 'request')):
            for hs, hp in (('custom', 'custom'), ('none', 'none'),
                           ('off', 'off'), ('custom', 'default')):
                cases.append({'kind': 'status', 'allowed': None,
                              'initial': R[0], 'beh': list(b), 'hs': hs,
                              'hp': hp, 'delivery': 'eager', 'env': env})

    # constructor refusal
    bad_nums = list(T.unsup) + [p for p in (
        -1, 9999, 2 ** 31 - 1, 758, PRE, PRE | 4, 2 ** 31, 2 ** 63, -47, 48,
        rng.randrange(760, PRE), rng.randrange(760, PRE))
        if p not in T.rank]
    bad_names = list(T.unsup_names) + [s for s in (
        '', 'foo', '1.19', '757', '47', '1.18.2', ' 1.18.1', '1.18.1 ',
        '1.8.10', 'v1.8', '1.18.1\n', 'x%d' % rng.randrange(10 ** 6))
        if s not in T.known_names]
    good = [R[1], R[-1]]
    for bad in bad_nums + bad_names:
        for where, al, ini, aslist in (
                ('allowed-alone', [bad], None, False),
                ('allowed-with-valid', good + [bad], None, False),
                ('allowed-first', [bad] + good, R[1], True),
                ('initial-allowed-none', None, bad, False),
                ('initial-allowed-pair', good, bad, False),
                ('initial-allowed-single', [R[-1]], bad, False)):
            cases.append({'kind': 'ctor', 'allowed': al, 'initial': ini,
                          'bad': bad, 'where': where, 'aslist': aslist})

    # de-duplicate, deterministic order, seed permutes
    seen, uniq = set(), []
    for c in cases:
        k = json.dumps(c, sort_keys=True)
        if k not in seen:
            seen.add(k)
            uniq.append(c)
    rng2 = random.Random(ctx.seed * 7919 + 1)
    rng2.shuffle(uniq)
    return uniq


def w_chunk(ctx, chunk):
    for case in chunk:
        run_case(ctx, case)


def run(ctx):
    T = tables()
    cases = enumerate_cases(ctx)
    n = 150
    chunks = [cases[i:i + n] for i in range(0, len(cases), n)]
    ctx.pmap(w_chunk, chunks)
    ctx.extra['R'] = list(T.R)
    ctx.extra['cases_by_kind'] = {
        k: sum(1 for c in cases if c['kind'] == k)
        for k in ('connect', 'status', 'ctor')}
    ctx.sample({'kind': 'connect', 'allowed': [47, 757], 'initial': None,
                'server': 'reports 340 (1.12.2)', 'expected':
                'VersionMismatch: supported, but not allowed'})
    ctx.sample({'kind': 'connect', 'allowed': [47, 757], 'initial': 340,
                'server': 'closes after the status request', 'expected':
                'fallback login with 340 on a 2nd connection'})
    ctx.sample({'kind': 'status', 'handle_status': 'custom',
                'handle_ping': False, 'server': '{}', 'expected':
                'handler called once with {}, no ping, closed, exit once'})
    # vacuity guards
    need = ['connect expect direct', 'connect expect login',
            'connect expect fallback', 'connect expect mismatch',
            'connect expect invalid', 'status expect done',
            'status expect error',
            'latest allowed differs from numeric maximum',
            'fallback default outside allowed set',
            'connect server reports-supported-not-allowed',
            'connect server reports-known-unsupported',
            'connect server reports-unknown',
            'connect server reports-allowed-pre',
            'reported name denotes another protocol; expect login',
            'reported name denotes another protocol; expect mismatch',
            'duplicate members; expect direct',
            'duplicate members; expect login',
            'duplicate members; expect mismatch']
    missing = [k for k in need if not ctx.classes.get(k)]
    if missing and not ctx.violations:
        from vf.runner import ToolError
        raise ToolError('vacuous: classes never exercised: %r' % missing)


def replay(ctx, case):
    run_case(ctx, case)
