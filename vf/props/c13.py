"""C13 - listeners fire in documented order, once each; ignore stops later
stages (for that packet only).

Every listener configuration of the bounded space is registered on a real
Connection which then runs a complete conversation with the independent
reference server over the virtual network (canonical schedule).  A small
reference dispatch function (Ref, below - written from the property statement
and the docstring of register_packet_listener, shares nothing with pyCraft's
_react/_write_packet/call_packet) predicts, per packet, the ordered list of
listener calls, the public connection state each incoming listener must see,
where the bytes of an outgoing packet lie relative to its listeners, what
reaches the server, and the final state.
"""
import functools
import gc
import itertools
import os
import random

from vf import harness, protoids, explore, statehash, pysched
from vf.refproto import codec
from vf.refproto.codec import Reader, Short, Malformed
from vf.refserver import (RefServer, LOGIN_UUID_BINARY_FROM,
                          TELEPORT_ID_FROM, KEEPALIVE_LONG_FROM)
from vf.runner import ToolError, REPO

LEVEL = 'model_checking'
RULE = (
    'Listener = (type filter, raises-ignore flag); filters: P = Packet, '
    'K = AbstractKeepAlivePacket, C = the concrete class of the stimulus '
    '(incoming classes) / of the packet it triggers or the user writes '
    '(outgoing classes), U = an unrelated concrete class (the concrete class '
    'of the opposite direction), CS = two types at once (C and its direct '
    'superclass), N = no types; 12 listener kinds.  Four classes: incoming '
    'early (ie), incoming ordinary (io), outgoing early (oe), outgoing '
    'ordinary (oo), 0-2 listeners each, registered before connect() in an '
    'order interleaved across the classes.  An ignoring listener raises '
    'IgnorePacket for the primary packet(s) of the history only, so that '
    'the following packet of the same kind shows whether dispatch is back '
    'to normal.  Pruning (configurations that can interact): Q1 = all '
    '(ie,io) with <=1 listener each x (oe,oo) in {none, one plain P each}; '
    'Q2 = all (oe,oo) with <=1 each x (ie,io) in {none, one plain P each}; '
    'Q3 = all (ie,oe) with <=1 each, io = oo = one plain P; S2 = every '
    'ordered pair of listeners inside one class with each of the other '
    'three classes holding either nothing or one plain P listener (8 '
    'surroundings).  quick: Q1+Q2+Q3+S2 at protocol 757; Q1+Q2+Q3 and S2 '
    'with the three other classes all empty or all plain P at 47 and 340.  '
    'thorough: the full product of <=1 '
    'listener per class (13^4) + S2 with surroundings {nothing, plain P, '
    'ignoring P}^3 at 757, the full product + S2 (8 surroundings) at 340, '
    'Q1+Q2+Q3+S2 (8 surroundings) at 47.  '
    'Histories (every configuration x every history): connect (login start '
    'primary; a second user-written login start if it is suppressed), '
    'compress (two set-compression, login success, two chat writes), '
    'plugin (two plugin requests, version >= 385), success (login success; '
    'a second one if suppressed; keep-alive; two chats), keepalive, ppl, '
    'unknown (two packets each after login, delivered one at a time), '
    'keepalive+/ppl+/unknown+ (both delivered back to back), chat_q / '
    'chat_f (two queued / forced user writes).  Registration timing: the '
    'histories keepalive~, ppl~, unknown~, chat_q~, chat_f~ have three '
    'packets delivered one at a time; listeners marked late (X~) are '
    'registered from the user thread at quiescence after the first packet '
    '(and its reply) has been fully processed, the second packet is the '
    'primary one (ignoring listeners raise for it), the third shows normal '
    'dispatch again; the reference expects the first packet to reach only '
    'the listeners registered before connect() and the later ones to reach '
    'all, in registration order inside each class.  Configurations for '
    'the ~ histories: L1 = one late listener (12 kinds) in one class, the '
    'other classes each empty / one plain P / one late plain P; L2 = every '
    'ordered pair inside one class as (before connect, late) and as (late, '
    'late) - this includes a late concrete-class registration after a late '
    'superclass registration and vice versa; L3 = one listener in each of '
    '(ie,io), (oe,oo), (ie,oe) with one or both late.  quick: 757 L1 (27 '
    'surroundings) + L2 (others all empty / all plain P / all late plain P) '
    '+ L3; 47 and 340 L1 (3 uniform surroundings) + L2 (others empty).  thorough: 757 L1 + L2 with 27 surroundings + L3; '
    '340 as quick 757; 47 L1 + L2 with 3 uniform surroundings.  '
    'One callable registered twice (every registration is a listener of '
    'its own: it runs once per registration, at the position of that '
    'registration): D = in one class, registrations A(f1), A(f2) for all '
    '36 filter pairs (same filter; both match; only one matches; none), '
    'ignoring or not, alone or with a different callable B (plain P; at 757 '
    'also ignoring C) registered in between (up to 3 listeners in that '
    'class), the other classes all empty or (757) all plain P; run with '
    'every history; for the ~ histories also with the second registration '
    'of A made late (757; all versions in thorough).  Calls are identified '
    'by (class, callable).  '
    'How a registration is written (route; everywhere else: reg = '
    'register_packet_listener(f, *types, early=.., outgoing=..)): reg_rev = '
    'the flags in the other order, reg_min = only the flags that are True, '
    'kw = register_packet_listener(f, *types, **kw) with ONE dict object per '
    'class used for every such registration, dec = a fresh '
    'conn.listener(*types, early=.., outgoing=..) decorator per function, '
    'dec_kw = a fresh conn.listener(*types, **kw) with the shared dict, '
    'sdec = ONE decorator object per (class, filter), made at its first use '
    'and applied to every function registered that way.  Configurations, in '
    'each of the four classes (the others all empty or all plain P): R1 one '
    'listener x 6 routes x filter x ignoring or not; R2 one decorator object '
    'applied to 2 and to 3 functions in a row (6 filters; none or exactly '
    'one of them ignoring), around / behind a plainly registered P listener, '
    'and two decorator objects alternating (f1, f2, f1); R3 a decorator '
    'object applied twice in each of two classes at once (applications '
    'interleaved); R4 every ordered pair of routes inside one class x '
    'filter pairs (P,P), (C,P), (P,C) x none / first / second ignoring.  '
    'What is registered (kind of callable; everywhere else: a closure the '
    'user keeps): closure, func (plain function without closure), lambda, '
    'functools.partial, callable (instance with __call__), method (bound '
    'method of an instance), cmeth (classmethod fetched from a class made '
    'for that listener), smeth (staticmethod fetched from such a class); '
    'each either kept (the user holds the callable, for methods the owner '
    'object / class) or -tmp: built inline in the registration statement, so '
    'that the registration is the only reference to it and (method, cmeth) '
    'to its owner; 16 kinds.  When a -tmp kind is present gc.collect() runs '
    'after the registrations before connect() and after the late ones.  '
    'K1 one listener x 15 kinds x filters P, C, CS x ignoring or not; K2 '
    'pairs of kinds inside one class (k,k), (k,closure), (closure,k) x '
    'filter pairs (P,P), (C,P) x none / first / second ignoring; K3 one '
    'P listener of '
    'every kind x every route; K4 one decorator object applied to two '
    'callables of one kind.  For the ~ histories: one late listener of '
    'every route / kind (filters P, C; ignoring or not), one decorator '
    'object made before connect() and applied again late (and twice late, '
    'and three times), a pair of one kind as (before connect, late).  The '
    'oracle is unchanged: class and position follow the flags and the '
    'order of the registrations, whatever the route or the kind.  quick: '
    '757 R1-R4, K1-K4 and the late set; 47 and 340 R1 (filters P, C, N), R2 '
    '(in a row only), R4 (pairs with reg or of one route; filter pairs '
    '(P,P), (C,P); none / first ignoring), K1 (filters P, C), K2 ((k,k) '
    'only, filters (P,P), none / first ignoring), R1, R2, K1 with plain P '
    'surroundings; histories connect, plugin, success, '
    'keepalive, unknown+, chat_q, chat_f and the five ~ histories.  '
    'thorough: every history; 47 and 340 as quick 757 (K3 with filters P '
    'and C) plus the late set; 757 also all 255 ordered pairs of kinds and '
    'R4 in both surroundings.  '
    'Concurrent registration (schedules): user '
    'threads A and B register listeners while a scheduling window is open '
    '- every source line of register_packet_listener and '
    'PacketListener.__init__ and every shared-attribute bytecode of '
    'connection.py is a scheduling point - into the same class (ie/ie, '
    'io/io, oe/oe, oo/oo) and into ie/io; all schedules up to the '
    'preemption bound (vf.explore, iterative context bounding, visited-'
    'state pruning): on a not yet connected Connection, 2 registrations '
    'per thread, bound 2; on a connection in the play state (networking '
    'thread as third agent), quick: 1 registration per thread, bound 1; '
    'thorough: 2 per thread, bound 2.  Afterwards a keep-alive is '
    'received and answered and a chat is written: every registered '
    'listener must get each matching packet exactly once, early before '
    'ordinary, one thread\'s registrations in its program order (the order '
    'between the two threads is free).  '
    'Histories in which the connection ends while packets are in flight '
    '(x histories; judged packet by packet, not by the linear reference '
    'model): listener = (filter, action), action in {-, ignore, '
    'disconnect = the listener calls connection.disconnect(), disconnect_now '
    '= it calls disconnect(immediate=True)}, acting for the primary packet '
    'P* only; filters P, C, U (quick) / all six (thorough).  (xa) a listener '
    'ends the connection: all (ie, io) with <= 1 listener each and every '
    'ordered pair inside ie and inside io over filters x actions, at least '
    'one of them disconnecting, the other classes empty or plain P (757, '
    'and every version in thorough; 47 and 340 quick: the <= 1 sets with '
    'plain P outgoing listeners); histories: P* = login success alone, and '
    'P* = keep-alive / position-and-look (packets with a built-in reaction) '
    '/ unknown id (without) delivered as the bursts [P*], [P*, P] and [P, '
    'P*, P] (in the last a reply is queued when the listener disconnects: '
    'disconnect() flushes it - its outgoing listeners fire - and '
    'disconnect(immediate=True) drops it).  (xc) send faults: the server '
    'sends its Disconnect packet and closes, inside the client\'s send '
    'call, on the k-th play packet it decodes, and every later send of the '
    'client is refused (vnet send_after_close = raise) or the first send '
    'call is accepted and the next refused (ok_once: a frame cut after its '
    'length prefix); histories: 2 queued chats k in {1,2}, 3 queued chats k '
    'in {1,2}, one queued chat plus a keep-alive whose reply is queued '
    'behind it k in {1,2}; so the write of packet k+1 fails in the loop '
    'lap in which the Disconnect packet is readable, and packet k+2 is '
    'still queued when the reaction to Disconnect calls disconnect(); '
    'outgoing listeners: all (oe, oo) with <= 1 each and every ordered pair '
    'inside oe and inside oo over filters x {-, ignore} (P* = the packet '
    'that meets the fault), incoming listeners none or plain P (757 / '
    'thorough; 47 and 340 quick: <= 1 sets, plain P incoming).  Oracle of '
    'the x histories: an incoming packet the client has read completely '
    '(bytes consumed from the stream >= end of its frame) reaches every '
    'matching ie listener, then every matching io listener, registration '
    'order, once each, cut only by an ignore; a packet never read '
    'completely reaches nobody; an outgoing packet: its matching oe '
    'listeners not at all or once each in order (once each, before the '
    'first byte, when its complete frame is on the wire), no byte if one '
    'ignored; its matching oo listeners once each after the bytes if the '
    'complete frame is on the wire and not at all otherwise; if the oe '
    'listeners ran without ignore and the frame is not on the wire a '
    'refused send must follow.  Schedules of a disconnect during dispatch: '
    'on a connection in the play state with listeners E (ie), O (io), OE '
    '(oe), OO (oo) the server\'s packet (keep-alive / unknown id) becomes '
    'readable and a user thread calls disconnect() / '
    'disconnect(immediate=True) while the window is open; all schedules up '
    'to preemption bound 1 (quick) / 2 (thorough): if the client read the '
    'whole packet E and O are called once each, E first, else neither; the '
    'reply\'s OE at most once before its first byte, OO once after its last '
    'byte iff it was written completely; the exploration must contain a '
    'schedule in which disconnect() returns between E and O and one in '
    'which the packet is never read.  Bursts across the batch limits of '
    'the networking thread (xb histories): on a connection in play with '
    'one listener in each class (ie, io: clientbound KeepAlivePacket; oe, '
    'oo: serverbound KeepAlivePacket; nobody ignores) the server sends n '
    'keep-alives with distinct ids in ONE piece, m = 0: while the '
    'networking thread idles; m in {1, 49}: the user queues m chat packets '
    'and the server sends the burst inside the client\'s send call of the '
    'm-th, so that the writes and the reads of that lap of the loop count '
    'together; n in {49, 50, 51, 52, 101, 120} at 757 (quick) / every n in '
    '45..60 and 95..125 at 757 and 340 (thorough), every m.  Oracle: each '
    'keep-alive of the burst reaches ie then io, once each; each reply oe, '
    'then its bytes, then oo, once each; each chat is written once; the '
    'server decodes every reply once (in the order of the keep-alives) and '
    'every chat once; guards: an execution in which 50 keep-alives are '
    'dispatched before the first reply is written and more afterwards, one '
    'in which m + the number dispatched before the first reply reaches 50 '
    'with fewer than 50 dispatched, one with n > 100.  Seeds change the packet '
    'field values and the order of tasks only.  state = distinct (protocol, '
    'history, per-packet call log with state seen at call time, server '
    'receipts, final state); transitions = listener calls + reactions + '
    'frames written; traces = executions.  Non-trivial = at least one '
    'listener fires for a primary packet.')
ASSUMPTIONS = [
    'a listener stays registered for the life of the Connection whether or '
    'not the user keeps a reference to the callable or to the object whose '
    'method it is (the statement quantifies over registered listeners; '
    'nothing in the documentation of register_packet_listener lets a '
    'registration lapse); CPython reference counting plus one forced '
    'gc.collect() decide what "nobody else references it" means',
    'routes and kinds of callable are crossed with the configurations '
    'named in RULE, not with the whole product of filters and classes',
    'the built-in reactions assumed by the reference model are the '
    'documented ones: set-compression enables compression with the given '
    'threshold; login success switches to the play reactor; login plugin '
    'request, keep-alive and position-and-look queue one reply each '
    '(position-and-look also sets spawned); unknown ids have no reaction',
    'the order between an incoming packet\'s ordinary listeners and the '
    'listeners of the reply it triggers is not judged (only: the reply '
    'comes after the early incoming listeners)',
    'vnet models the socket API (selftest/vnet_conformance); canonical '
    'schedule only (C12 explores schedules)',
    'late registrations are made while the networking thread idles '
    '(quiescence); a registration racing with a dispatch in progress is '
    'not explored, and a listener registered at quiescence must take '
    'effect for the next packet',
    'concurrent registration: single bytecodes are atomic (CPython GIL); '
    'nothing is claimed beyond the preemption bound or for scheduling '
    'points finer than source lines inside register_packet_listener / '
    'PacketListener.__init__; registration concurrent with a dispatch in '
    'progress is not explored (no packet arrives while the window is open)',
    'reading of the statement for a disconnect() that overtakes a dispatch '
    '(from a listener of that packet or from another thread): "for every '
    'incoming packet ... each listener ... runs exactly once" has one '
    'exception only, the ignore signal; so the remaining early listeners '
    'and the ordinary listeners of a packet the client has read are still '
    'owed after the connection was closed.  "Incoming packet" = a packet '
    'the client has read completely; packets behind the end of the '
    'connection that were never read owe nothing.  Whether the built-in '
    'reaction still happens for the overtaken packet is NOT judged (the '
    'tree skips it on purpose: it would act on a closed or on the next '
    'connection), nor the connection state the listeners see there',
    'x histories with send faults: the statement says nothing about how '
    'often a packet whose write failed is attempted, so "once each" is read '
    'as: early outgoing listeners at most once each per packet (zero for a '
    'packet that is never attempted), ordinary outgoing listeners exactly '
    'for the packets whose complete frame reached the socket; exceptions '
    'reported by the networking thread and whether the thread survives are '
    'not judged there (C11/C14), only recorded as outcome classes; '
    'disconnecting listeners are incoming listeners only (an outgoing '
    'listener that closes the socket it is about to be written to is '
    'outside what the statement describes)',
]

GROUPS = ('ie', 'io', 'oe', 'oo')
# how a registration is written down (early / outgoing are the flags of the
# listener's class)
ROUTES = (
    'reg',       # register_packet_listener(f, *types, early=.., outgoing=..)
    'reg_rev',   # ... (f, *types, outgoing=.., early=..)
    'reg_min',   # ... only the flags that are True are given
    'kw',        # ... (f, *types, **kw), kw = ONE dict object per class
    'dec',       # conn.listener(*types, early=.., outgoing=..)(f), a fresh
                 # decorator per function
    'dec_kw',    # conn.listener(*types, **kw)(f), fresh decorator, shared kw
    'sdec',      # ONE decorator object per (class, types), applied to every
                 # function registered that way
)
# what is registered; X-tmp: the registration is the only reference to it
# (created inline in the registration statement), otherwise the user keeps
# a reference (for method / cmeth / smeth: to the owner object / class)
SHAPES = ('closure', 'func', 'lambda', 'partial', 'callable', 'method',
          'cmeth', 'smeth')
CALLABLES = tuple(s + h for s in SHAPES for h in ('', '-tmp'))
# histories the route / callable-kind configurations are crossed with (quick)
RK_HISTORIES = ('connect', 'plugin', 'success', 'keepalive', 'unknown+',
                'chat_q', 'chat_f')
REG_ORDER = ('oo', 'ie', 'oe', 'io')       # interleaved, not the list order
FILTERS = ('P', 'K', 'C', 'U', 'CS', 'N')
ALPH = tuple((f, g) for f in FILTERS for g in (False, True))
PLAIN_P = ('P', False)
IGN_P = ('P', True)

PATH = {
    'Packet': 'Packet',
    'AKA': 'AbstractKeepAlivePacket',
    'cb.SetCompression': 'clientbound.login.SetCompressionPacket',
    'cb.PluginRequest': 'clientbound.login.PluginRequestPacket',
    'cb.LoginSuccess': 'clientbound.login.LoginSuccessPacket',
    'cb.KeepAlive': 'clientbound.play.KeepAlivePacket',
    'cb.PPL': 'clientbound.play.PlayerPositionAndLookPacket',
    'cb.Disconnect': 'clientbound.play.DisconnectPacket',
    'sb.HandShake': 'serverbound.handshake.HandShakePacket',
    'sb.LoginStart': 'serverbound.login.LoginStartPacket',
    'sb.PluginResponse': 'serverbound.login.PluginResponsePacket',
    'sb.KeepAlive': 'serverbound.play.KeepAlivePacket',
    'sb.TeleportConfirm': 'serverbound.play.TeleportConfirmPacket',
    'sb.PositionAndLook': 'serverbound.play.PositionAndLookPacket',
    'sb.Chat': 'serverbound.play.ChatPacket',
    'sb.Animation': 'serverbound.play.AnimationPacket',
}
# which attribute tells two packets of one class apart
KEYFIELD = {
    'cb.SetCompression': 'threshold', 'cb.PluginRequest': 'message_id',
    'cb.LoginSuccess': 'Username', 'cb.KeepAlive': 'keep_alive_id',
    'cb.PPL': 'x', 'cb.Disconnect': 'json_data', 'Packet': 'id',
    'sb.HandShake': 'next_state',
    'sb.LoginStart': 'name', 'sb.PluginResponse': 'message_id',
    'sb.KeepAlive': 'keep_alive_id', 'sb.TeleportConfirm': 'teleport_id',
    'sb.PositionAndLook': 'x', 'sb.Chat': 'message',
}
UNKNOWN_IDS = (0x7D, 0x7E, 0x7F)
KINDS = ('connect', 'compress', 'plugin', 'success', 'keepalive', 'ppl',
         'unknown', 'keepalive+', 'ppl+', 'unknown+', 'chat_q', 'chat_f',
         'keepalive~', 'ppl~', 'unknown~', 'chat_q~', 'chat_f~')
VERSIONS = (757, 340, 47)
LONG_CHAT = 'two' + 'x' * 150


def kinds_for(v, rank):
    return [k for k in KINDS if k != 'plugin' or rank.ge(v, 385)]


# ---------------------------------------------------------------------------
# scenario parameters

def values(seed):
    """Field values of the packets of a history.  Seed 0 = fixed constants;
    other seeds draw other values (the alphabet of configurations and
    histories is always enumerated completely)."""
    if not seed:
        return {'T': (64, 128), 'M': (5, 9), 'N': (11, 2 ** 31 - 2, 7),
                'X': (1.5, -2.5, 640.25), 'TID': (3, 300, 70000)}
    r = random.Random(seed)
    n = r.sample(range(1, 2 ** 31 - 1), 3)
    t = r.sample(range(1, 400), 2)
    m = r.sample(range(0, 2 ** 20), 2)
    tid = r.sample(range(0, 2 ** 20), 3)
    x = r.sample(range(-4000, 4000), 3)
    return {'T': (min(t) + 20, max(t) + 20), 'M': tuple(m), 'N': tuple(n),
            'X': tuple(i / 4.0 for i in x), 'TID': tuple(tid)}


def concrete(kind, v, rank):
    """(concrete incoming class, concrete outgoing class) of a history."""
    base = kind.rstrip('+~')
    if base == 'connect':
        return 'cb.LoginSuccess', 'sb.LoginStart'
    if base == 'compress':
        return 'cb.SetCompression', 'sb.Chat'
    if base == 'plugin':
        return 'cb.PluginRequest', 'sb.PluginResponse'
    if base == 'success':
        return 'cb.LoginSuccess', 'sb.Chat'
    if base == 'keepalive':
        return 'cb.KeepAlive', 'sb.KeepAlive'
    if base == 'ppl':
        return 'cb.PPL', ('sb.TeleportConfirm' if rank.ge(v, TELEPORT_ID_FROM)
                          else 'sb.PositionAndLook')
    if base == 'unknown':
        return 'Packet', 'sb.Chat'
    return 'cb.KeepAlive', 'sb.Chat'          # chat_q, chat_f


def filter_types(flt, group, kind, v, rank):
    """Symbolic names of the types a listener registers."""
    return types_for(flt, group, *concrete(kind, v, rank))


def types_for(flt, group, cin, cout):
    if group[0] == 'i':
        c, u = cin, cout
    else:
        c, u = cout, (cin if cin != 'Packet' else 'sb.Animation')
    sup = 'AKA' if c in ('cb.KeepAlive', 'sb.KeepAlive') else 'Packet'
    return {'P': ('Packet',), 'K': ('AKA',), 'C': (c,), 'U': (u,),
            'CS': (c, sup), 'N': ()}[flt]


_CLS = {}


def classes():
    """name -> class of the tree under test; name -> names of its
    superclasses (the class hierarchy is the definition of 'a superclass',
    the matching decision below is ours)."""
    if not _CLS:
        pk = harness.setup()['C'].packets
        real = {}
        for name, path in PATH.items():
            o = pk
            for part in path.split('.'):
                o = getattr(o, part)
            real[name] = o
        sup = {n: frozenset(m for m, d in real.items() if d in c.__mro__)
               for n, c in real.items()}
        _CLS.update(real=real, sup=sup, rev={c: n for n, c in real.items()})
    return _CLS


# ---------------------------------------------------------------------------
# the oracle: reference dispatch + the documented reactions

class Ref(object):
    """Expected behaviour of one connection with listener configuration cfg.
    A packet is (class name, distinguishing value)."""

    def __init__(self, cfg, types_of, sup, primary):
        self.cfg, self.types_of, self.sup = cfg, types_of, sup
        self.primary = primary
        self.comp, self.thr = False, -1
        self.reactor, self.spawned = 'LoginReactor', False
        self.queue = []         # replies queued by reactions
        self.seq = {}           # packet -> expected ordered events
        self.rx = []            # packets written to the wire, in order
        self.causes = []        # (incoming packet, reply it triggers)
        self.reactions = 0
        self.flags = set()      # which interesting classes occurred
        self.late_done = False  # the late registrations have happened

    def view(self):
        return (self.comp, self.thr, self.reactor, self.spawned)

    def group(self, g, pkt, out):
        """Listeners of one class, registration order, each matching one
        once.  False when one of them signalled ignore."""
        for i, spec in enumerate(self.cfg[g]):
            flt, ign, late = spec[0], spec[1], is_late(spec)
            if late and not self.late_done:
                continue        # not registered yet
            types = self.types_of(flt, g)
            if any(t in self.sup[pkt[0]] for t in types):
                c = callable_of(spec, i)
                out.append(('L', g, c, self.view() if g[0] == 'i' else None))
                self.note_match(flt, types, pkt)
                self.note_how(g, i, spec, ign and pkt in self.primary)
                if c != i:
                    self.flags.add('second registration of one callable '
                                   'fires%s' % (
                                       ' (the first does not match)'
                                       if out.count(out[-1]) == 1
                                       else ' (as well as the first)'))
                if late:
                    self.flags.add('late-registered %s listener fires' % g)
                    if types and all(t != pkt[0] for t in types):
                        self.flags.add('late-registered %s listener on a '
                                       'superclass fires' % g)
                if ign and pkt in self.primary:
                    self.flags.add('%s listener ignores' % g)
                    if late:
                        self.flags.add('late-registered %s listener ignores'
                                       % g)
                    if i + 1 < len(self.cfg[g]):
                        self.flags.add('%s ignore with a later listener in '
                                       'the same class' % g)
                    return False
        return True

    def incoming(self, pkt, reaction=None):
        """early listeners, built-in reaction, ordinary listeners."""
        out = self.seq.setdefault(pkt, [])
        if not self.group('ie', pkt, out):
            return False
        if reaction is not None:
            reaction()
        self.reactions += 1
        self.group('io', pkt, out)
        return True

    def outgoing(self, pkt):
        """early listeners, the bytes, ordinary listeners."""
        out = self.seq.setdefault(pkt, [])
        if not self.group('oe', pkt, out):
            return False
        out.append(('wire',))
        self.rx.append(pkt)
        self.group('oo', pkt, out)
        return True

    def flush(self):
        q, self.queue = self.queue, []
        for pkt in q:
            self.outgoing(pkt)

    def reply(self, cause, pkt):
        self.queue.append(pkt)
        self.causes.append((cause, pkt))

    def note_how(self, g, i, spec, ignores):
        r, kd = route_of(spec), kind_of(spec)
        if r != 'reg':
            self.flags.add('route %s: %s listener fires' % (r, g))
            if ignores:
                self.flags.add('route %s: listener ignores' % r)
        if r == 'sdec':
            sib = [s for s in self.cfg[g][:i]
                   if route_of(s) == 'sdec' and s[0] == spec[0]]
            n = len(sib)
            if n:
                self.flags.add('one decorator object: the listener of its '
                               '%s application fires (%s)'
                               % ('second' if n == 1 else 'third', g))
                if is_late(spec) and not is_late(sib[0]):
                    self.flags.add('one decorator object: made before '
                                   'connect(), applied again late')
        if kd != 'closure':
            self.flags.add('callable %s: %s listener fires' % (kd, g))
            if ignores:
                self.flags.add('callable %s: listener ignores' % kd)

    def note_match(self, flt, types, pkt):
        if len(types) == 2:
            self.flags.add('two-type listener matches (must fire once)')
        if types and all(t != pkt[0] for t in types):
            self.flags.add('superclass-only filter matches %s'
                           % ('incoming' if pkt[0][:2] != 'sb' else
                              'outgoing'))
        if flt == 'K':
            self.flags.add('abstract keep-alive filter matches %s' % pkt[0])


def is_late(spec):
    return len(spec) > 2 and bool(spec[2])


def callable_of(spec, i):
    """Which callable a registration uses: its own (named by its index in
    the class) or, for (filter, ignore, late, j), the one of registration
    j < i of the same class."""
    return spec[3] if len(spec) > 3 and spec[3] is not None else i


def route_of(spec):
    return spec[4] if len(spec) > 4 and spec[4] else 'reg'


def kind_of(spec):
    return spec[5] if len(spec) > 5 and spec[5] else 'closure'


def sp(flt, ign=False, late=False, route='reg', kind='closure'):
    """(filter, ignore, late, -, route, kind of callable)."""
    return (flt, bool(ign), bool(late), None, route, kind)


class Recorder(object):
    """Owner of a bound-method listener (on_packet) / a callable
    instance."""

    def __init__(self, handler, *who):
        self.handler, self.who = handler, who

    def on_packet(self, packet):
        self.handler(*self.who + (packet,))

    def __call__(self, packet):
        self.handler(*self.who + (packet,))


def recorder_class(handler, *who):
    """A class of its own per listener: on_packet is a classmethod (Own.
    on_packet is a bound method whose owner is the class), on_static a
    staticmethod (Own.on_static is a plain function)."""
    class Own(object):
        @classmethod
        def on_packet(cls, packet):
            cls.h(*cls.who + (packet,))

        @staticmethod
        def on_static(packet):
            handler(*who + (packet,))
    Own.h, Own.who = staticmethod(handler), who
    return Own


FUNC_SRC = 'def on_packet(packet):\n    handler(g, i, ign, packet)\n'


def oracle(kind, v, cfg, vals, rank):
    """-> (plan of driver steps, Ref holding the expectations)."""
    cl = classes()
    base, burst = kind.rstrip('+~'), kind.endswith('+')
    late = kind.endswith('~')   # three packets; primary is the second one,
    pi = 1 if late else 0       # late registrations after the first
    cin, cout = concrete(kind, v, rank)
    T, M, N, X, TID = (vals[k] for k in ('T', 'M', 'N', 'X', 'TID'))
    chat0, chat1, chat2 = (('sb.Chat', 'zero'), ('sb.Chat', 'one'),
                           ('sb.Chat', LONG_CHAT))

    def ppl_reply(i):
        return (cout, TID[i]) if cout == 'sb.TeleportConfirm' \
            else (cout, X[i])
    primary = {
        'connect': {('sb.LoginStart', 'vfuser')},
        'compress': {('cb.SetCompression', T[0]), chat1},
        'plugin': {('cb.PluginRequest', M[0]), ('sb.PluginResponse', M[0])},
        'success': {('cb.LoginSuccess', 'vfuser'), chat1},
        'keepalive': {('cb.KeepAlive', N[pi]), ('sb.KeepAlive', N[pi])},
        'ppl': {('cb.PPL', X[pi]), ppl_reply(pi)},
        'unknown': {('Packet', UNKNOWN_IDS[pi]), chat1},
        'chat_q': {chat1}, 'chat_f': {chat1},
    }[base]
    R = Ref(cfg, lambda flt, g: filter_types(flt, g, kind, v, rank),
            cl['sup'], primary)
    plan = [('connect',)]

    def set_comp(t):
        R.comp, R.thr = True, t

    def set_play():
        R.reactor = 'PlayingReactor'

    def spawn():
        R.spawned = True

    # connect(): handshake and login start go through the outgoing stages
    R.outgoing(('sb.HandShake', 2))
    name = 'vfuser'
    if not R.outgoing(('sb.LoginStart', name)):
        name = 'vfuser2'
        plan.append(('write', 'sb.LoginStart', {'name': name}, False))
        R.outgoing(('sb.LoginStart', name))
        R.flags.add('login start suppressed, second one written by user')
    # login state
    if base == 'compress':
        for t in T:
            if R.incoming(('cb.SetCompression', t), lambda: set_comp(t)):
                plan.append(('login', ('compress', t)))
            else:
                # the client must stay uncompressed: so does the server
                plan.append(('send', 'login', 'login.set_compression',
                             codec.varint_signed(t)))
                R.flags.add('set-compression suppressed')
    if base == 'plugin':
        for m in M:
            p = ('cb.PluginRequest', m)
            plan.append(('login', ('plugin', m, 'vf:chan', b'\x01\x02')))
            if R.incoming(p, lambda: R.reply(p, ('sb.PluginResponse', m))):
                R.flush()
            else:
                R.flags.add('plugin request suppressed')
    plan.append(('login', ('success',)))
    if not R.incoming(('cb.LoginSuccess', name), set_play):
        R.flags.add('login success suppressed, sent again')
        plan.append(('success2', 'second'))
        R.incoming(('cb.LoginSuccess', 'second'), set_play)
    # play state
    def ka(n):
        p = ('cb.KeepAlive', n)
        return ('keepalive', n), p, lambda: R.reply(p, ('sb.KeepAlive', n))

    def ppl(i):
        p = ('cb.PPL', X[i])

        def react():
            R.reply(p, ppl_reply(i))
            spawn()
        return (('ppl', X[i], 64.0, 0.5, 90.0, 10.0, 0, TID[i]), p, react)

    def unk(i):
        return (('raw', UNKNOWN_IDS[i], b'\x01\x02\x03'),
                ('Packet', UNKNOWN_IDS[i]), None)
    k = 3 if late else 2
    stim = {'keepalive': [ka(n) for n in N[:k]],
            'ppl': [ppl(i) for i in range(k)],
            'unknown': [unk(i) for i in range(k)],
            'success': [ka(N[2])]}.get(base, [])
    if burst:
        plan.append(('play',) + tuple(ev for ev, _, _ in stim))

    def register_late():
        plan.append(('late',))
        R.late_done = True
    for j, (ev, p, react) in enumerate(stim):
        if not burst:
            plan.append(('play', ev))
        if not R.incoming(p, react):
            R.flags.add('%s suppressed' % p[0])
        if not burst:
            R.flush()
        if late and j == 0:
            register_late()
    R.flush()
    # user writes
    writes = {'chat_q': [(chat1, False), (chat2, False)],
              'chat_f': [(chat1, True), (chat2, True)],
              'compress': [(chat1, False), (chat2, True)],
              'success': [(chat1, False), (chat2, True)],
              'unknown': [(chat1, False), (chat2, True)]}.get(base, [])
    if late and base in ('chat_q', 'chat_f'):
        plan.append(('write', 'sb.Chat', {'message': chat0[1]},
                     writes[0][1]))
        R.outgoing(chat0)
        register_late()
    for p, force in writes:
        plan.append(('write', 'sb.Chat', {'message': p[1]}, force))
        if not R.outgoing(p):
            R.flags.add('user write suppressed (%s)'
                        % ('forced' if force else 'queued'))
    return plan, R


# ---------------------------------------------------------------------------
# the execution on the real code

class StepServer(RefServer):
    """RefServer whose login script is issued step by step by the driver."""

    def __init__(self, conn, ids, rank):
        RefServer.__init__(self, conn, ids, rank, mode='burst')
        self.login_script = []

    def step(self, st):
        self.login_script, self.step_i, self.waiting = [st], 0, None
        self._advance()


def execute(W, kind, v, cfg, plan, primary):
    S, C = W.S, W.C
    cl = classes()
    real, rev = cl['real'], cl['rev']

    def factory(vconn):
        srv = StepServer(vconn, protoids.ids, W.rank)
        W.servers.append(srv)
        return srv
    W.net.listen('srv', 25565, factory)
    conn = W.connection(allowed_versions={v})
    problems = []

    def view():
        return (conn.options.compression_enabled,
                conn.options.compression_threshold,
                type(conn.reactor).__name__, getattr(conn, 'spawned', None))

    def pkey(p):
        name = rev.get(type(p))
        if name is None:
            return ('?' + type(p).__module__.rsplit('.', 2)[-2] + '.'
                    + type(p).__name__, None)
        return (name, getattr(p, KEYFIELD[name], None))

    def handler(g, i, ign, packet):
        k = pkey(packet)
        S.event('L', g, i, k, view())
        if ign and k in primary:
            raise C.IgnorePacket

    def owner(shape, g, i, ign):
        """The object a user would hold on to: the callable itself or the
        object / class whose method it is."""
        if shape == 'closure':
            def callback(packet):
                handler(g, i, ign, packet)
            return callback
        if shape == 'func':             # no closure, no defaults
            ns = {'handler': handler, 'g': g, 'i': i, 'ign': ign}
            exec(FUNC_SRC, ns)
            return ns.pop('on_packet')
        if shape == 'lambda':
            return lambda packet: handler(g, i, ign, packet)
        if shape == 'partial':
            return functools.partial(handler, g, i, ign)
        if shape in ('callable', 'method'):
            return Recorder(handler, g, i, ign)
        if shape in ('cmeth', 'smeth'):
            return recorder_class(handler, g, i, ign)
        raise ToolError('unknown kind of callable %r' % (shape,))

    def access(shape, o):
        return o.on_packet if shape in ('method', 'cmeth') else \
            o.on_static if shape == 'smeth' else o

    def guarded(what, fn, *a, **kw):
        try:
            fn(*a, **kw)
        except Exception as e:          # pyCraft raising into the user
            problems.append(('api-exception', '%s raised %s: %s'
                             % (what, type(e).__name__, e)))
            return False
        return True

    kept = {}           # (class, callable) -> the reference the user keeps
    decorators = {}     # (class, types) -> the one decorator object
    shared_kw = {}      # class -> the one keyword dict, passed as **kw

    def producer(g, c):
        """-> a function that yields the callable of registration c of
        class g, to be called inside the registration statement."""
        kd = kind_of(cfg[g][c])
        shape, ign = kd.split('-')[0], cfg[g][c][1]
        if kd.endswith('-tmp'):
            return lambda: access(shape, owner(shape, g, c, ign))
        if (g, c) not in kept:
            kept[g, c] = owner(shape, g, c, ign)
        return lambda: access(shape, kept[g, c])

    def register_one(route, g, types, produce):
        early, outgoing = g[1] == 'e', g[0] == 'o'
        if g not in shared_kw:
            shared_kw[g] = {'early': early, 'outgoing': outgoing}
        kw = shared_kw[g]
        what = 'register_packet_listener' if route in (
            'reg', 'reg_rev', 'reg_min', 'kw') else 'listener'
        try:
            if route == 'reg':
                conn.register_packet_listener(produce(), *types, early=early,
                                              outgoing=outgoing)
            elif route == 'reg_rev':
                conn.register_packet_listener(produce(), *types,
                                              outgoing=outgoing, early=early)
            elif route == 'reg_min':
                conn.register_packet_listener(
                    produce(), *types, **{k: True for k in sorted(kw)
                                          if kw[k]})
            elif route == 'kw':
                conn.register_packet_listener(produce(), *types, **kw)
            elif route == 'dec':
                conn.listener(*types, early=early, outgoing=outgoing)(
                    produce())
            elif route == 'dec_kw':
                conn.listener(*types, **kw)(produce())
            elif route == 'sdec':
                key = (g, tuple(types))
                if key not in decorators:
                    decorators[key] = conn.listener(*types, early=early,
                                                    outgoing=outgoing)
                decorators[key](produce())
            else:
                raise ToolError('unknown registration route %r' % (route,))
        except ToolError:
            raise
        except Exception as e:          # pyCraft raising into the user
            problems.append(('api-exception', '%s (route %s) raised %s: %s'
                             % (what, route, type(e).__name__, e)))
    collect = any(kind_of(s).endswith('-tmp') for g in GROUPS
                  for s in cfg[g])

    def register(late):
        for i in range(3):
            for g in REG_ORDER:
                if i < len(cfg[g]) and is_late(cfg[g][i]) == late:
                    spec = cfg[g][i]
                    c = callable_of(spec, i)
                    if c != i and kind_of(cfg[g][c]).endswith('-tmp'):
                        raise ToolError('a callable nobody keeps cannot be '
                                        'registered a second time')
                    types = [real[t] for t in
                             filter_types(spec[0], g, kind, v, W.rank)]
                    register_one(route_of(spec), g, types, producer(g, c))
        if collect:
            # whatever only the registrations refer to must survive this
            gc.collect()
    register(False)
    srv = None
    for step in plan:
        if problems:
            break
        op = step[0]
        if op == 'connect':
            guarded('connect', conn.connect)
            W.settle()
            srv = W.servers[0] if W.servers else None
            if srv is None:
                problems.append(('diverged', 'no connection was opened'))
            continue
        if op == 'late':        # at quiescence: the first packet is done
            register(True)
            continue
        if op == 'write':
            pkt = real[step[1]](**step[2])
            guarded('write_packet(%s, force=%r)' % (step[1], step[3]),
                    conn.write_packet, pkt, force=step[3])
        else:
            want = 'play' if op in ('play', 'success2') else \
                step[1] if op == 'send' else 'login'
            if srv.state != want or srv.closed or \
                    (want == 'login' and srv.login_name is None):
                problems.append((
                    'diverged', 'before step %r the server is in state %r '
                    '(login name %r, errors %r), the reference model '
                    'expects %r' % (step[:2], srv.state, srv.login_name,
                                    srv.errors, want)))
                break
            if op == 'login':
                srv.step(step[1])
            elif op == 'send':
                srv.send(step[2], step[3])
            elif op == 'success2':
                uid = '12345678-1234-5678-1234-567812345678'
                u = codec.uuid_bytes(uid) if W.rank.ge(
                    v, LOGIN_UUID_BINARY_FROM) else codec.string(uid)
                srv.send('login.success', u + codec.string(step[1]))
            elif op == 'play':
                for ev in step[1:]:
                    srv.play(ev)
        W.settle()
    W.settle()
    vc = W.net.conns[0] if W.net.conns else None
    live = S.live()
    return {
        'log': list(S.log), 'problems': problems,
        'c2s': bytes(vc.c2s) if vc else b'',
        'frames': list(srv.frames) if srv else [],
        'final': view(),
        'plugin_replies': list(srv.plugin_replies) if srv else [],
        'play_rx': list(srv.play_rx) if srv else [],
        'handshake': srv.handshake if srv else None,
        'login_name': srv.login_name if srv else None,
        'errors': list(srv.errors) if srv else [],
        'thread_exc': ['%s: %s' % (type(a.exc).__name__, a.exc)
                       for a in S.agents if a.exc is not None],
        'conn_exc': None if conn.exception is None
        else '%s: %s' % (type(conn.exception).__name__, conn.exception),
        'thread_alive': conn.networking_thread is not None and bool(live),
        'stuck': [repr(a) for a in S.stuck()],
        'nconns': len(W.net.conns),
    }


# ---------------------------------------------------------------------------
# observation -> per-packet sequences

def frame_key(fr, v, rank):
    """Which packet a client frame (as decoded by the server) is."""
    state, pid, payload = fr[0], fr[1], fr[2]
    ids = protoids.ids
    r = Reader(payload)
    try:
        if state == 'handshake':
            r.varnum(5), r.string(), r.uint(2)
            return ('sb.HandShake', r.varnum(5))
        if state == 'login':
            if pid == ids('sb.login.start', v):
                return ('sb.LoginStart', r.string())
            if rank.ge(v, 385) and pid == ids('sb.login.plugin_response', v):
                return ('sb.PluginResponse', r.varnum(5))
        if state == 'play':
            if pid == ids('sb.play.keep_alive', v):
                if rank.ge(v, KEEPALIVE_LONG_FROM):
                    return ('sb.KeepAlive', r.sint(8))
                n = r.varnum(5)
                return ('sb.KeepAlive', n - (1 << 32) if n >= 1 << 31 else n)
            if rank.ge(v, TELEPORT_ID_FROM) and \
                    pid == ids('sb.play.teleport_confirm', v):
                return ('sb.TeleportConfirm', r.varnum(5))
            if pid == ids('sb.play.chat', v):
                return ('sb.Chat', r.string())
            if pid == ids('sb.play.position_and_look', v):
                return ('sb.PositionAndLook', r.f64())
    except (Short, Malformed, UnicodeDecodeError):
        pass
    return ('?frame %s 0x%02X' % (state, pid), None)


def project(obs, v, rank):
    """-> ({packet: [events]}, {packet: [log positions]}, n listener calls,
    n frames).  Events: ('L', class, index, view) and ('wire',): one per
    frame, however many send calls carried it, provided nothing else
    happened to that packet in between."""
    c2s = obs['c2s']
    bounds, pos = [], 0
    while pos < len(c2s):
        r = Reader(c2s[pos:])
        try:
            n = r.varnum(3)
            r.take(n)
        except (Short, Malformed):
            break
        pos += r.pos
        bounds.append(pos)
    keys = [frame_key(f, v, rank) for f in obs['frames']]
    seq, where = {}, {}
    off, calls = 0, 0
    last_wire = {}
    for i, ev in enumerate(obs['log']):
        if ev[0] == 'L':
            _, g, idx, k, view = ev
            calls += 1
            seq.setdefault(k, []).append(
                ('L', g, idx, tuple(view) if g[0] == 'i' else None))
            where.setdefault(k, []).append(i)
            last_wire.pop(k, None)
        elif ev[0] == 'send' and ev[1] == 0:
            fi = sum(1 for b in bounds if b <= off)
            off += len(ev[3])
            k = keys[fi] if fi < len(keys) else ('?unparsed frame', fi)
            if last_wire.get(k) != fi:
                seq.setdefault(k, []).append(('wire',))
                where.setdefault(k, []).append(i)
                last_wire[k] = fi
    return seq, where, calls, len(bounds)


def show_cfg(cfg):
    return ' '.join('%s=[%s]' % (g, ','.join(
        s[0] + ('!' if s[1] else '') + ('~' if is_late(s) else '')
        + ('@%d' % s[3] if callable_of(s, None) is not None else '')
        + (':' + route_of(s) if route_of(s) != 'reg' else '')
        + ('/' + kind_of(s) if kind_of(s) != 'closure' else '')
        for s in cfg[g])) for g in GROUPS)


def show_seq(s):
    return '[' + ', '.join(
        'wire' if e[0] == 'wire' else '%s%d%s' % (
            e[1], e[2], '' if e[3] is None else
            '(comp=%s,%s %s spawned=%s)' % (e[3][0], e[3][1], e[3][2][:5],
                                           e[3][3]))
        for e in s) + ']'


def strip(s):
    return [e[:3] for e in s]


def judge(kind, v, cfg, vals, R, x, rank):
    """-> list of (check name, explanation)."""
    out = []
    if x.failure is not None:
        return [('hang', 'the client %s: %s' % x.failure)], None
    obs = x.result
    for name, text in obs['problems']:
        out.append((name, text))
    seq, where, calls, nframes = project(obs, v, rank)
    exp = {k: s for k, s in R.seq.items() if s}
    # 1. per packet: who is called, in which order, how often; where the
    #    bytes are relative to the calls
    for k in sorted(set(exp) | set(seq), key=repr):
        e, g = exp.get(k, []), seq.get(k, [])
        if strip(e) != strip(g):
            ecalls = [t for t in strip(e) if t[0] == 'L']
            gcalls = [t for t in strip(g) if t[0] == 'L']
            if ecalls == gcalls:
                name = 'wire-order' if ('wire',) in e and ('wire',) in g \
                    else 'write-suppression'
            elif sorted(ecalls) == sorted(gcalls):
                name = 'call-order'
            else:
                name = 'call-set'
            out.append((name, 'packet %r: expected %s, observed %s'
                        % (k, show_seq(e), show_seq(g))))
        elif e != g:
            out.append(('state-at-call',
                        'packet %r: the listeners run in the right order '
                        'but see the wrong connection state (reaction not '
                        'between early and ordinary listeners?): expected '
                        '%s, observed %s' % (k, show_seq(e), show_seq(g))))
    # 2. a reply is triggered by the reaction, so after the early listeners
    for cause, rep in R.causes:
        if rep in where and cause in where and cause in seq:
            early = [p for p, e in zip(where[cause], seq[cause])
                     if e[0] == 'L' and e[1] == 'ie']
            if early and min(where[rep]) < max(early):
                out.append(('reply-before-early', 'reply %r is dispatched '
                            'before the early listeners of %r ran'
                            % (rep, cause)))
    # 3. protocol effects
    if tuple(obs['final']) != R.view():
        out.append(('final-state', 'final (compression enabled, threshold, '
                    'reactor, spawned): expected %r, observed %r'
                    % (R.view(), tuple(obs['final']))))
    def rx_form(p):
        if p[0] == 'sb.KeepAlive':
            return ('keepalive', p[1])
        if p[0] == 'sb.TeleportConfirm':
            return ('teleport_confirm', p[1])
        if p[0] == 'sb.Chat':
            return ('chat', p[1])
        return ('position_and_look', p[1], 64.0, 0.5, 90.0, 10.0, True)
    want_play = [rx_form(p) for p in R.rx if p[0] in (
        'sb.KeepAlive', 'sb.TeleportConfirm', 'sb.Chat',
        'sb.PositionAndLook')]
    want_plug = [(p[1], False, None) for p in R.rx
                 if p[0] == 'sb.PluginResponse']
    want_login = [p[1] for p in R.rx if p[0] == 'sb.LoginStart']
    if obs['play_rx'] != want_play:
        out.append(('server-receipts', 'play packets decoded by the server: '
                    'expected %r, got %r' % (want_play, obs['play_rx'])))
    if obs['plugin_replies'] != want_plug:
        out.append(('server-receipts', 'plugin responses decoded by the '
                    'server: expected %r, got %r'
                    % (want_plug, obs['plugin_replies'])))
    if [obs['login_name']] != want_login[-1:] or len(want_login) != sum(
            1 for f in obs['frames'] if frame_key(f, v, rank)[0]
            == 'sb.LoginStart'):
        out.append(('server-receipts', 'login start seen by the server: '
                    'expected %r, got name %r'
                    % (want_login, obs['login_name'])))
    if obs['errors']:
        out.append(('server-errors', 'the reference server could not accept '
                    'what the client sent: %r' % obs['errors'][:2]))
    # 4. the connection survives
    if obs['thread_exc'] or obs['conn_exc']:
        out.append(('thread-exception', 'exception in the networking '
                    'thread: %r / connection.exception = %r'
                    % (obs['thread_exc'], obs['conn_exc'])))
    elif not obs['thread_alive'] or obs['stuck']:
        out.append(('thread-gone', 'networking thread alive=%r stuck=%r at '
                    'the end of the conversation'
                    % (obs['thread_alive'], obs['stuck'])))
    # de-duplicate by name, keep first
    seen, res = set(), []
    for name, text in out:
        if name not in seen:
            seen.add(name)
            res.append((name, text))
    return res, (seq, calls, nframes)


def run_case(ctx, kind, v, cfg, seed):
    env = harness.setup()
    rank = env['rank']
    vals = values(seed)
    plan, R = oracle(kind, v, cfg, vals, rank)
    x = harness.run(lambda W: execute(W, kind, v, cfg, plan, R.primary),
                    horizon=200000, seed=seed)
    res, extra = judge(kind, v, cfg, vals, R, x, rank)
    ctx.count()
    ctx.traces += 1
    fired_primary = any(R.seq.get(p) and any(e[0] == 'L' for e in R.seq[p])
                        for p in R.primary)
    if fired_primary:
        ctx.note((kind, v, show_cfg(cfg)))
    if extra is not None:
        seq, calls, nframes = extra
        ctx.transitions += calls + nframes + R.reactions
        obs = x.result
        ctx.state((v, kind, sorted(seq.items(), key=repr), obs['play_rx'],
                   obs['plugin_replies'], tuple(obs['final'])))
    sup = sorted(f for f in R.flags if 'suppressed' in f)
    ctx.outcome('%s: %s' % (kind, '; '.join(sup) or 'nothing suppressed'))
    if not res:
        for f in R.flags:
            ctx.cls(f)
        if R.flags & {'ie listener ignores', 'oe listener ignores',
                      'io listener ignores', 'oo listener ignores'}:
            ctx.cls('packet after an ignored one dispatched normally')
        ctx.cls('v%d %s' % (v, kind))
    case = {'kind': kind, 'version': v, 'seed': seed,
            'cfg': {g: [list(s) for s in cfg[g]] for g in GROUPS}}
    for name, text in res:
        ctx.violation('%s v%d %s' % (kind, v, name),
                      'history %s, protocol %d, listeners %s (X! = raises '
                      'IgnorePacket for the primary packet, X~ = registered '
                      'after the first packet of the history, X@j = the '
                      'callable of registration j of the class registered '
                      'again; X:r = registered through route r - reg_rev / '
                      'reg_min: register_packet_listener with the flags in '
                      'the other order / only the true flags, kw: with **kw '
                      'of one dict per class, dec / dec_kw: a fresh '
                      'conn.listener(...) decorator, sdec: ONE decorator '
                      'object per class and filter applied to each of them; '
                      'X/k = the callable is a k, k-tmp: referenced only '
                      'by the registration, garbage collection forced after '
                      'registering; calls are named class+callable): %s'
                      % (kind, v, show_cfg(cfg), text), case)
    return res


# ---------------------------------------------------------------------------
# histories in which the connection ends while packets are in flight
#   xa: a listener changes the connection's state - it calls disconnect()
#   xc: the server kicks the client (Disconnect packet, close) on the k-th
#       play packet it receives and the environment fails the later writes
# The linear reference model above does not apply (whether a packet behind
# the end is still read / attempted is nobody's promise); the judge below
# decides packet by packet, from the statement only.

ACTIONS = ('-', 'ign', 'disc', 'disc_now')
X_FILTERS = ('P', 'C', 'U')
X_PLAIN = ('P', '-')
X_KICK = '{"text":"kicked"}'
XA_SHAPES = (('success', 'alone'),) + tuple(
    (s, d) for s in ('keepalive', 'ppl', 'unknown')
    for d in ('alone', 'first', 'second'))
XC_ENVS = ('ok_once', 'raise')
XC_SHAPES = tuple((h, k, e) for h, ks in (('chats2', (1, 2)),
                                          ('chats3', (1, 2)),
                                          ('ka+chat', (1, 2)))
                  for k in ks for e in XC_ENVS)
XC_CHATS = ('one', 'two', 'three')
# vacuity guards that every run must hit (the rest: ctx.extra['x_classes'])
X_NEED = (
    'xa: ie listener calls disconnect()',
    'xa: ie listener calls disconnect(immediate=True)',
    'xa: io listener calls disconnect()',
    'xa: io listener calls disconnect(immediate=True)',
    'xa: listeners behind a disconnecting ie listener still run (ordinary '
    'after early)',
    'xa: early listener disconnects on a packet with a built-in reaction',
    'xa: listener disconnects on a packet without built-in reaction',
    'xa: queued reply flushed by the listener\'s disconnect(), its outgoing '
    'listeners fire',
    'xc: early outgoing listeners ran, the write was refused (ok_once): no '
    'ordinary outgoing listener',
    'xc: early outgoing listeners ran, the write was refused (raise): no '
    'ordinary outgoing listener',
    'xc: matching ordinary outgoing listener not called for a packet that '
    'was not written',
    'xc: packet left in the queue is flushed into the dead peer by '
    'disconnect()',
    'xc: write fault forgiven by the disconnect packet (raise)',
)


def x_acts(spec):
    return {'-': '', 'ign': '!', 'disc': '/d', 'disc_now': '/D'}[spec[1]]


def x_show_cfg(cfg):
    return ' '.join('%s=[%s]' % (g, ','.join(s[0] + x_acts(s)
                                             for s in cfg[g]))
                    for g in GROUPS)


def x_stimulus(stim, i, vals):
    """-> (server event, packet key) of the i-th stimulus of a kind."""
    if stim == 'keepalive':
        return ('keepalive', vals['N'][i]), ('cb.KeepAlive', vals['N'][i])
    if stim == 'ppl':
        return (('ppl', vals['X'][i], 64.0, 0.5, 90.0, 10.0, 0,
                 vals['TID'][i]), ('cb.PPL', vals['X'][i]))
    return (('raw', UNKNOWN_IDS[i], b'\x01\x02\x03'),
            ('Packet', UNKNOWN_IDS[i]))


def x_plan(sc, rank):
    """-> dict(cin, cout, primary, ...) of a scenario."""
    v, vals = sc['version'], values(sc['seed'])
    if sc['family'] == 'xa':
        stim, delivery = sc['stim'], sc['delivery']
        cin, cout = concrete(stim, v, rank)
        if stim == 'success':
            return {'cin': cin, 'cout': cout, 'events': [],
                    'primary': {('cb.LoginSuccess', 'vfuser')}}
        idx = {'alone': (1,), 'first': (1, 2), 'second': (0, 1, 2)}[delivery]
        events = [x_stimulus(stim, i, vals) for i in idx]
        return {'cin': cin, 'cout': cout, 'events': events,
                'primary': {x_stimulus(stim, 1, vals)[1]}}
    hist, k = sc['hist'], sc['kick']
    if hist == 'ka+chat':
        n0 = vals['N'][0]
        packets = [('sb.Chat', XC_CHATS[0]), ('sb.KeepAlive', n0)]
    else:
        packets = [('sb.Chat', m) for m in XC_CHATS[:int(hist[-1])]]
    prim = packets[k] if k < len(packets) else packets[k - 1]
    return {'cin': 'cb.Disconnect', 'cout': prim[0], 'packets': packets,
            'primary': {prim}}


class KickServer(StepServer):
    """Sends its Disconnect packet and closes as soon as it has decoded the
    kick_at-th play packet of the client (inside the client's send call)."""
    kick_at = None

    def _play(self, pid, r, payload):
        RefServer._play(self, pid, r, payload)
        if self.kick_at is not None and len(self.play_rx) == self.kick_at:
            self.play(('disconnect', X_KICK))


def x_body(W, sc, plan):
    S, C = W.S, W.C
    cl = classes()
    real, rev = cl['real'], cl['rev']
    v, cfg = sc['version'], sc['cfg']
    cin, cout, primary = plan['cin'], plan['cout'], plan['primary']

    def factory(vconn):
        srv = KickServer(vconn, protoids.ids, W.rank)
        W.servers.append(srv)
        return srv
    W.net.listen('srv', 25565, factory)
    conn = W.connection(allowed_versions={v})
    problems = []

    def pkey(p):
        name = rev.get(type(p))
        if name is None:
            return ('?' + type(p).__module__.rsplit('.', 2)[-2] + '.'
                    + type(p).__name__, None)
        return (name, getattr(p, KEYFIELD[name], None))

    def make(g, i, act):
        def callback(packet):
            k = pkey(packet)
            S.event('L', g, i, k)
            if k not in primary:
                return
            if act == 'ign':
                raise C.IgnorePacket
            if act in ('disc', 'disc_now'):
                S.event('X', 'disconnect', g, i)
                try:
                    conn.disconnect(immediate=(act == 'disc_now'))
                except Exception as e:      # not this property's business
                    S.event('X', 'disconnect raised', type(e).__name__)
        return callback

    def guarded(what, fn, *a, **kw):
        try:
            fn(*a, **kw)
        except Exception as e:
            problems.append(('api-exception', '%s raised %s: %s'
                             % (what, type(e).__name__, e)))
            return False
        return True
    for i in range(2):
        for g in REG_ORDER:
            if i < len(cfg[g]):
                flt, act = cfg[g][i]
                guarded('register_packet_listener',
                        conn.register_packet_listener, make(g, i, act),
                        *[real[t] for t in types_for(flt, g, cin, cout)],
                        early=(g[1] == 'e'), outgoing=(g[0] == 'o'))
    incoming = []
    srv = vc = None

    def sent(key):
        incoming.append((key, len(vc.frame_ends) - 1))
    if guarded('connect', conn.connect):
        W.settle()
    if W.servers:
        srv, vc = W.servers[0], W.net.conns[0]
    if srv is None:
        if not problems:
            raise ToolError('x set-up: connect() returned and no connection '
                            'was opened')
        return {'problems': problems, 'diverged': True}
    xa = sc['family'] == 'xa'
    ok = srv.state == 'login' and srv.login_name is not None
    if ok:
        srv.step(('success',))
        sent(('cb.LoginSuccess', 'vfuser'))
        if not (xa and sc['stim'] == 'success'):
            W.settle()
            ok = type(conn.reactor).__name__ == 'PlayingReactor' and \
                not S.stuck() and bool(S.live())
    if not ok:
        # no listener acts before P*: the plain login is the main families'
        # business; judged like a diverging step there
        problems.append(('diverged', 'the login with passive listeners did '
                         'not reach the play state: server state %r, login '
                         'name %r, errors %r, reactor %s'
                         % (srv.state, srv.login_name, srv.errors[:2],
                            type(conn.reactor).__name__)))
        return {'problems': problems, 'diverged': True}
    if xa:
        for ev, key in plan['events']:     # one burst
            srv.play(ev)
            sent(key)
    else:
        srv.kick_at = sc['kick']
        guarded('write_packet', conn.write_packet,
                real['sb.Chat'](message=XC_CHATS[0]))
        if sc['hist'] == 'ka+chat':
            ev, key = x_stimulus('keepalive', 0, values(sc['seed']))
            srv.play(ev)
            sent(key)
        else:
            for m in XC_CHATS[1:int(sc['hist'][-1])]:
                guarded('write_packet', conn.write_packet,
                        real['sb.Chat'](message=m))
    W.settle()
    if srv.closed:                          # the kick was the last frame
        sent(('cb.Disconnect', X_KICK))
    W.settle()
    return {
        'log': list(S.log), 'problems': problems, 'c2s': bytes(vc.c2s),
        'frames': list(srv.frames), 'play_rx': list(srv.play_rx),
        'errors': list(srv.errors), 'incoming': incoming,
        'consumed': vc.consumed, 'frame_ends': list(vc.frame_ends),
        'kicked': bool(srv.closed),
        'thread_exc': sorted(type(a.exc).__name__ for a in S.agents
                             if a.exc is not None),
        'conn_exc': None if conn.exception is None
        else type(conn.exception).__name__,
        'thread_alive': bool(S.live()),
    }


def x_project(obs, v, rank):
    """-> ({packet: [('L', class, index) | ('wire',)]}, {packet: number of
    complete frames}, {packet: log position of its last event}, positions of
    refused sends, number of send calls that belong to no complete frame)."""
    c2s = obs['c2s']
    bounds, bodies, pos = [], [], 0
    while pos < len(c2s):
        r = Reader(c2s[pos:])
        try:
            n = r.varnum(3)
            body = r.take(n)
        except (Short, Malformed):
            break
        pos += r.pos
        bounds.append(pos)
        bodies.append(body)
    keys = []
    for i, body in enumerate(bodies):
        if i < len(obs['frames']):
            keys.append(frame_key(obs['frames'][i], v, rank))
            continue
        # the server had closed and no longer decodes: plain format (the x
        # histories never switch compression on)
        r = Reader(body)
        try:
            pid = r.varnum(5)
            keys.append(frame_key(('play', pid, r.rest()), v, rank))
        except (Short, Malformed):
            keys.append(('?undecodable frame', i))
    complete = {}
    for k in keys:
        complete[k] = complete.get(k, 0) + 1
    seq, lastpos, fails, partial = {}, {}, [], 0
    off, last_wire = 0, {}
    for i, ev in enumerate(obs['log']):
        if ev[0] == 'L':
            _, g, idx, k = ev[:4]
            seq.setdefault(k, []).append(('L', g, idx))
            lastpos[k] = i
            last_wire.pop(k, None)
        elif ev[0] == 'send' and ev[1] == 0:
            fi = sum(1 for b in bounds if b <= off)
            off += len(ev[3])
            if fi >= len(keys):
                partial += 1
                continue
            k = keys[fi]
            if last_wire.get(k) != fi:
                seq.setdefault(k, []).append(('wire',))
                last_wire[k] = fi
            lastpos[k] = i
        elif ev[0] == 'send-fail':
            fails.append(i)
    return seq, complete, lastpos, fails, partial


def x_show(s):
    return '[' + ', '.join('wire' if e[0] == 'wire' else '%s%d' % e[1:3]
                           for e in s) + ']'


def x_stage(cfg, g, pkt, cin, cout, sup, primary, flags=None):
    """Listeners of class g owed to packet pkt: registration order, each
    matching one once; -> (calls, an ignore was signalled)."""
    out = []
    for i, (flt, act) in enumerate(cfg[g]):
        if any(t in sup[pkt[0]] for t in types_for(flt, g, cin, cout)):
            out.append(('L', g, i))
            if pkt in primary and act == 'ign':
                return out, True
            if pkt in primary and act != '-' and flags is not None:
                flags.add((g, i, act))
    return out, False


def x_judge(sc, plan, obs, rank):
    """-> ([(check name, explanation)], facts for the vacuity guards)."""
    v, cfg = sc['version'], sc['cfg']
    cin, cout, primary = plan['cin'], plan['cout'], plan['primary']
    sup = classes()['sup']
    out = list(obs['problems'])
    facts = set()
    if obs.get('diverged'):
        return out[:1], facts, None
    seq, complete, lastpos, fails, partial = x_project(obs, v, rank)

    def diff(k, want, got, why):
        wc = [e for e in want if e[0] == 'L']
        gc = [e for e in got if e[0] == 'L']
        if wc == gc:
            name = 'wire-order' if ('wire',) in want and ('wire',) in got \
                else 'write-suppression'
        elif sorted(wc) == sorted(gc):
            name = 'call-order'
        else:
            name = 'call-set'
        out.append((name, 'packet %r (%s): expected %s, observed %s'
                    % (k, why, x_show(want), x_show(got))))
    # incoming: every packet the client has read completely is dispatched
    # to every matching listener once, early class first, unless one
    # signalled ignore; a packet it never read owes nothing
    inkeys = set()
    ended = None        # a listener of this packet ended the connection
    xpos = next((i for i, e in enumerate(obs['log']) if e[0] == 'X'), None)
    for k, fi in obs['incoming']:
        inkeys.add(k)
        read = obs['consumed'] >= obs['frame_ends'][fi]
        acts = set()
        want, ig = x_stage(cfg, 'ie', k, cin, cout, sup, primary, acts)
        early_acts = set(acts)
        if not ig:
            want = want + x_stage(cfg, 'io', k, cin, cout, sup, primary,
                                  acts)[0]
        got = seq.get(k, [])
        if not read:
            facts.add('a packet behind the end of the connection is never '
                      'read (owes nothing)')
            if got:
                diff(k, [], got, 'never read by the client')
            continue
        if got != want:
            diff(k, want, got,
                 'read by the client; a disconnect() from a listener does '
                 'not signal ignore' if acts else 'read by the client')
            continue
        if acts:
            ended = k
            for g, i, act in sorted(acts):
                facts.add('%s listener calls disconnect(%s)'
                          % (g, 'immediate=True' if act == 'disc_now'
                             else ''))
                later = want[want.index(('L', g, i)) + 1:]
                if later:
                    facts.add('listeners behind a disconnecting %s listener '
                              'still run%s' % (
                                  g, ' (ordinary after early)'
                                  if g == 'ie' and later[-1][1] == 'io'
                                  else ''))
            if early_acts and k[0] in ('cb.KeepAlive', 'cb.PPL'):
                facts.add('early listener disconnects on a packet with a '
                          'built-in reaction')
            if k[0] == 'Packet':
                facts.add('listener disconnects on a packet without '
                          'built-in reaction')
        elif ig and ended is None and sc['family'] == 'xa':
            facts.add('disconnecting listener not reached (an earlier one '
                      'ignores)')
    # outgoing: early listeners before the bytes and at most once each,
    # ordinary ones after the bytes of a packet that was written completely
    for k in sorted(set(seq) | set(complete), key=repr):
        if k in inkeys:
            continue
        if k[0] not in sup or k[0][:2] != 'sb':
            out.append(('unexpected-packet', 'listener calls or frames for '
                        '%r, which is not part of the history: %s'
                        % (k, x_show(seq.get(k, [])))))
            continue
        E, ig = x_stage(cfg, 'oe', k, cin, cout, sup, primary)
        O, _ = x_stage(cfg, 'oo', k, cin, cout, sup, primary)
        got = seq.get(k, [])
        n = complete.get(k, 0)
        if ig:
            if got != E and got:        # (never attempted: owes nothing)
                diff(k, E, got, 'an early outgoing listener signals '
                     'ignore')
            continue
        if n:
            want = E + [('wire',)] + O
            if got != want:
                diff(k, want, got, '%d complete frame%s on the wire'
                     % (n, '' if n == 1 else 's'))
            elif ended is not None and xpos is not None and \
                    lastpos[k] > xpos and E and O:
                facts.add('queued reply flushed by the listener\'s '
                          'disconnect(), its outgoing listeners fire')
            continue
        # not (completely) written
        if got and got != E:
            diff(k, E, got, 'not written completely: early outgoing '
                 'listeners at most once each, ordinary ones not at all')
            continue
        if got and not any(f > lastpos[k] for f in fails):
            out.append(('write-suppression', 'packet %r: the early outgoing '
                        'listeners ran %s, none signalled ignore, no send '
                        'was refused afterwards, and yet the packet is not '
                        'on the wire' % (k, x_show(got))))
            continue
        if got:
            facts.add('early outgoing listeners ran, the write was refused '
                      '(%s): no ordinary outgoing listener'
                      % sc.get('env', '-'))
            if O:
                facts.add('matching ordinary outgoing listener not called '
                          'for a packet that was not written')
    if sc['family'] == 'xc':
        pk = plan['packets']
        behind = [p for p in pk[sc['kick']:] if p in seq]
        if len(behind) > 1:
            facts.add('packet left in the queue is flushed into the dead '
                      'peer by disconnect()')
        if fails and obs['kicked'] and not obs['thread_exc'] \
                and not obs['conn_exc']:
            facts.add('write fault forgiven by the disconnect packet (%s)'
                      % sc['env'])
        if partial:
            facts.add('frame cut after its length prefix (ok_once)')
    if obs['errors']:
        out.append(('server-errors', 'the reference server could not accept '
                    'what the client sent: %r' % obs['errors'][:2]))
    seen, res = set(), []
    for name, text in out:
        if name not in seen:
            seen.add(name)
            res.append((name, text))
    return res, facts, seq


def x_describe(sc):
    if sc['family'] == 'xa':
        return ('listener-disconnect history %s/%s (burst: %s)'
                % (sc['stim'], sc['delivery'],
                   {'alone': 'P*', 'first': 'P* P', 'second': 'P P* P'}[
                       sc['delivery']]))
    return ('server-kick history %s: the server sends Disconnect and closes '
            'on the %d. play packet it receives; a send to the closed peer '
            'is answered %s' % (sc['hist'], sc['kick'], sc['env']))


def run_x(ctx, sc):
    rank = harness.setup()['rank']
    sc = dict(sc, cfg={g: tuple((str(s[0]), str(s[1])) for s in sc['cfg'][g])
                       for g in GROUPS})
    plan = x_plan(sc, rank)
    kw = {'send_after_close': sc['env']} if sc['family'] == 'xc' else {}
    x = harness.run(lambda W: x_body(W, sc, plan), horizon=200000,
                    seed=sc['seed'], **kw)
    ctx.count()
    ctx.traces += 1
    tag = sc['family']
    shape = '%s %s/%s' % (tag, sc['stim'], sc['delivery']) if tag == 'xa' \
        else '%s %s kick=%d %s' % (tag, sc['hist'], sc['kick'], sc['env'])
    if x.failure is not None:
        res, facts, seq = [('hang', 'the client %s: %s' % x.failure)], (), {}
    else:
        res, facts, seq = x_judge(sc, plan, x.result, rank)
    if x.failure is None and seq is not None:
        obs = x.result
        ctx.transitions += sum(len(s) for s in seq.values())
        ctx.state((sc['version'], shape, sorted(seq.items(), key=repr),
                   obs['play_rx'], obs['thread_alive']))
        if any(any(e[0] == 'L' for e in seq.get(p, ()))
               for p in plan['primary']):
            ctx.note((shape, sc['version'], x_show_cfg(sc['cfg'])))
        ctx.outcome('%s: thread %s, exceptions %s/%s%s' % (
            shape, 'alive' if obs['thread_alive'] else 'ended',
            ','.join(obs['thread_exc']) or '-', obs['conn_exc'] or '-',
            ''.join(', listener\'s disconnect() raised %s' % e[2]
                    for e in obs['log']
                    if e[:2] == ('X', 'disconnect raised'))))
    if not res:
        # detailed guards are collected into ctx.extra['x_classes'] by run()
        for f in list(facts) + ['v%d %s' % (sc['version'], shape)]:
            f = 'xfact %s: %s' % (tag, f)
            ctx.extra[f] = ctx.extra.get(f, 0) + 1
    case = dict(sc, cfg={g: [list(s) for s in sc['cfg'][g]] for g in GROUPS})
    for name, text in res:
        ctx.violation('%s v%d %s' % (shape, sc['version'], name),
                      '%s, protocol %d, listeners %s (X! = raises '
                      'IgnorePacket, X/d = calls connection.disconnect(), '
                      'X/D = calls disconnect(immediate=True), each for the '
                      'primary packet P* only): %s'
                      % (x_describe(sc), sc['version'],
                         x_show_cfg(sc['cfg']), text), case)
    return res


def x_alph(filters, actions):
    return tuple((f, a) for f in filters for a in actions)


def xa_configurations(tier, v):
    """Incoming listeners with actions, at least one of them disconnecting;
    outgoing listeners plain."""
    big = tier == 'thorough'
    alph = x_alph(FILTERS if big else X_FILTERS, ACTIONS)
    one = opt(alph)
    wide = big or v == 757
    outs = [(), (X_PLAIN,)] if wide else [(X_PLAIN,)]
    out = set()

    def disc(specs):
        return any(s[1] in ('disc', 'disc_now') for s in specs)
    for a, b in itertools.product(one, one):
        if disc(a + b):
            for o in outs:
                out.add((a, b, o, o))
    if wide:
        for gi in (0, 1):
            for pr in itertools.product(alph, alph):
                if disc(pr):
                    for sur in ((), (X_PLAIN,)):
                        c = [sur] * 4
                        c[gi] = pr
                        out.add(tuple(c))
    return out


def xc_configurations(tier, v):
    """Outgoing listeners plain or ignoring; incoming listeners plain."""
    big = tier == 'thorough'
    alph = x_alph(FILTERS if big else X_FILTERS, ('-', 'ign'))
    one = opt(alph)
    wide = big or v == 757
    ins = [(), (X_PLAIN,)] if wide else [(X_PLAIN,)]
    out = set()
    for a, b in itertools.product(one, one):
        for i in ins:
            out.add((i, i, a, b))
    if wide:
        for gi in (2, 3):
            for pr in itertools.product(alph, alph):
                for sur in ((), (X_PLAIN,)):
                    c = [sur] * 4
                    c[gi] = pr
                    out.add(tuple(c))
    return out


def w_xchunk(ctx, task):
    base, cfgs = task
    if base['family'] == 'xb':
        for n, m in cfgs:
            run_b(ctx, dict(base, n=n, m=m))
        return
    for t in cfgs:
        run_x(ctx, dict(base, cfg=as_cfg(t)))


# ---------------------------------------------------------------------------
# xb: bursts across the batch limits of the networking thread's loop.  The
# server sends n keep-alives in one piece; with m > 0 it does so inside the
# client's send call of the m-th of m queued chat packets, so that the writes
# and the reads of one lap of the loop count together.  One listener per class,
# nobody ignores: every packet owes every stage, however the client batches.

B_LIMIT = 50            # only used to name what an execution has shown
B_NS_QUICK = (49, 50, 51, 52, 101, 120)
B_NS_THOROUGH = tuple(range(45, 61)) + tuple(range(95, 126))
B_MS = (0, 1, 49)
B_NEED = (
    'reads alone fill a lap: %d keep-alives dispatched before the first '
    'reply is written, more of the burst dispatched afterwards' % B_LIMIT,
    'writes and reads share a lap: after m queued chats fewer than %d '
    'keep-alives are dispatched before the first reply is written (m + '
    'dispatched >= %d), the rest afterwards' % (B_LIMIT, B_LIMIT),
    'a burst of more than %d keep-alives, every one dispatched and answered'
    % (2 * B_LIMIT),
)


class BurstServer(StepServer):
    """Sends the events of self.burst in one piece as soon as it has decoded
    the burst_at-th play packet of the client (inside the client's send
    call)."""
    burst_at = None
    burst = ()

    def _play(self, pid, r, payload):
        RefServer._play(self, pid, r, payload)
        if self.burst_at is not None and len(self.play_rx) == self.burst_at:
            self.burst_at = None
            for ev in self.burst:
                self.play(ev)


def b_ids(sc):
    start = 1000 if not sc['seed'] else \
        random.Random(sc['seed']).randrange(1, 2 ** 30)
    return [start + 7 * i for i in range(sc['n'])]


def b_chats(sc):
    return ['c%d' % i for i in range(sc['m'])]


def b_body(W, sc):
    S = W.S
    cl = classes()
    real, rev = cl['real'], cl['rev']
    v = sc['version']

    def factory(vconn):
        srv = BurstServer(vconn, protoids.ids, W.rank)
        W.servers.append(srv)
        return srv
    W.net.listen('srv', 25565, factory)
    conn = W.connection(allowed_versions={v})
    problems = []

    def pkey(p):
        name = rev.get(type(p))
        if name is None:
            return ('?' + type(p).__module__.rsplit('.', 2)[-2] + '.'
                    + type(p).__name__, None)
        return (name, getattr(p, KEYFIELD[name], None))

    def make(g):
        def callback(packet):
            S.event('L', g, 0, pkey(packet))
        return callback

    def guarded(what, fn, *a, **kw):
        try:
            fn(*a, **kw)
        except Exception as e:
            problems.append(('api-exception', '%s raised %s: %s'
                             % (what, type(e).__name__, e)))
            return False
        return True
    for g in REG_ORDER:
        guarded('register_packet_listener', conn.register_packet_listener,
                make(g), real['cb.KeepAlive' if g[0] == 'i'
                              else 'sb.KeepAlive'],
                early=(g[1] == 'e'), outgoing=(g[0] == 'o'))
    if guarded('connect', conn.connect):
        W.settle()
    if not W.servers:
        if not problems:
            raise ToolError('xb set-up: connect() returned and no connection '
                            'was opened')
        return {'problems': problems, 'diverged': True}
    srv, vc = W.servers[0], W.net.conns[0]
    ok = srv.state == 'login' and srv.login_name is not None
    if ok:
        srv.step(('success',))
        W.settle()
        ok = type(conn.reactor).__name__ == 'PlayingReactor' and \
            not S.stuck() and bool(S.live())
    if not ok:
        problems.append(('diverged', 'the login with passive listeners did '
                         'not reach the play state: server state %r, login '
                         'name %r, errors %r, reactor %s'
                         % (srv.state, srv.login_name, srv.errors[:2],
                            type(conn.reactor).__name__)))
        return {'problems': problems, 'diverged': True}
    events = [('keepalive', k) for k in b_ids(sc)]
    if sc['m']:
        srv.burst_at, srv.burst = sc['m'], events
        for text in b_chats(sc):            # queued: one lap writes them all
            guarded('write_packet', conn.write_packet,
                    real['sb.Chat'](message=text))
    else:
        for ev in events:                   # one burst
            srv.play(ev)
    W.settle()
    if srv.burst_at is not None and not problems:
        raise ToolError('xb: the server never saw chat %d, no burst sent '
                        '(play_rx %r)' % (sc['m'], srv.play_rx[:3]))
    return {
        'log': list(S.log), 'problems': problems, 'c2s': bytes(vc.c2s),
        'frames': list(srv.frames), 'play_rx': list(srv.play_rx),
        'errors': list(srv.errors),
        'consumed': vc.consumed, 'pushed': vc.pushed_total,
        'thread_exc': sorted(type(a.exc).__name__ for a in S.agents
                             if a.exc is not None),
        'conn_exc': None if conn.exception is None
        else type(conn.exception).__name__,
        'thread_alive': bool(S.live()),
    }


def b_judge(sc, obs, rank):
    """-> ([(check name, explanation)], facts, per-packet sequences)."""
    out = list(obs['problems'])
    facts = set()
    if obs.get('diverged'):
        return out[:1], facts, None
    n, m = sc['n'], sc['m']
    ids, chats = b_ids(sc), b_chats(sc)
    seq, complete, lastpos, fails, partial = x_project(obs, sc['version'],
                                                       rank)
    want = {}
    for k in ids:
        want[('cb.KeepAlive', k)] = [('L', 'ie', 0), ('L', 'io', 0)]
        want[('sb.KeepAlive', k)] = [('L', 'oe', 0), ('wire',),
                                     ('L', 'oo', 0)]
    for k in [('sb.Chat', text) for text in chats] + [
            ('sb.HandShake', 2), ('sb.LoginStart', 'vfuser')]:
        want[k] = [('wire',)]
    how = 'burst of %d keep-alives%s' % (
        n, ' sent while the client writes the last of %d queued chat '
        'packets' % m if m else '')
    bad = []
    for k in sorted(set(want) | set(seq), key=repr):
        w, g = want.get(k, []), seq.get(k, [])
        if w == g:
            continue
        if k not in want:
            bad.append(('unexpected-packet', 'listener calls or frames for '
                        '%r, which is not part of the history: %s'
                        % (k, x_show(g))))
            continue
        wc = [e for e in w if e[0] == 'L']
        gc_ = [e for e in g if e[0] == 'L']
        name = 'call-set' if sorted(wc) != sorted(gc_) else \
            'call-order' if wc != gc_ else 'wire-order' \
            if ('wire',) in g else 'write-suppression'
        pos = ' (number %d of the burst)' % (ids.index(k[1]) + 1) \
            if k[1] in ids else ''
        bad.append((name, 'packet %r%s: every matching listener is owed '
                    'exactly one call, nobody signals ignore: expected %s, '
                    'observed %s' % (k, pos, x_show(w), x_show(g))))
    if bad:
        nbad = len(bad)
        bad.sort(key=lambda b: ('call-set', 'call-order', 'wire-order',
                                'write-suppression',
                                'unexpected-packet').index(b[0]))
        out.append((bad[0][0], '%s; %d packet%s judged wrong, the first: %s'
                    % (how, nbad, '' if nbad == 1 else 's', bad[0][1])))
    # (the order of the calls across different packets is not judged: the
    # statement orders the stages of one packet)
    rx_ka = [r[1] for r in obs['play_rx'] if r[0] == 'keepalive']
    rx_chat = [r[1] for r in obs['play_rx'] if r[0] == 'chat']
    rest = [r for r in obs['play_rx'] if r[0] not in ('keepalive', 'chat')]
    if rx_ka != ids or rx_chat != chats or rest:
        lost = [k for k in ids if k not in rx_ka]
        out.append(('server-receipts', '%s: the server is owed each reply '
                    'and each chat once: %d keep-alive replies decoded for '
                    '%d keep-alives (never answered: %r), chats %r of %r, '
                    'other packets %r'
                    % (how, len(rx_ka), n, lost[:5], rx_chat[:3], chats[:3],
                       rest[:3])))
    if obs['errors']:
        out.append(('server-errors', 'the reference server could not accept '
                    'what the client sent: %r' % obs['errors'][:2]))
    # what the execution has shown about the batching (vacuity guards)
    first_reply = next((i for i, e in enumerate(obs['log'])
                        if e[0] == 'L' and e[1] == 'oe'), None)
    if first_reply is not None:
        before = sum(1 for e in obs['log'][:first_reply]
                     if e[0] == 'L' and e[1] == 'ie')
        if not m and before >= B_LIMIT and n > before:
            facts.add(B_NEED[0])
        if m and before < B_LIMIT <= m + before and n > before:
            facts.add(B_NEED[1])
        facts.add('keep-alives dispatched before the first reply is '
                  'written: m=%d -> %d' % (m, before))
    if n > 2 * B_LIMIT and not out:
        facts.add(B_NEED[2])
    seen, res = set(), []
    for name, text in out:
        if name not in seen:
            seen.add(name)
            res.append((name, text))
    return res, facts, seq


def run_b(ctx, sc):
    rank = harness.setup()['rank']
    sc = {'family': 'xb', 'version': int(sc['version']),
          'seed': int(sc['seed']), 'n': int(sc['n']), 'm': int(sc['m'])}
    x = harness.run(lambda W: b_body(W, sc), horizon=2000000,
                    seed=sc['seed'])
    ctx.count()
    ctx.traces += 1
    shape = 'xb burst n=%d m=%d' % (sc['n'], sc['m'])
    if x.failure is not None:
        res, facts, seq = [('hang', 'the client %s: %s' % x.failure)], (), None
    else:
        res, facts, seq = b_judge(sc, x.result, rank)
    if seq is not None:
        obs = x.result
        ctx.transitions += sum(len(s) for s in seq.values())
        ctx.state((sc['version'], shape, sorted(seq.items(), key=repr),
                   obs['play_rx'], obs['thread_alive']))
        if any(e[0] == 'L' for s in seq.values() for e in s):
            ctx.note((shape, sc['version']))
        ctx.outcome('xb m=%d: thread %s, exceptions %s/%s' % (
            sc['m'], 'alive' if obs['thread_alive'] else 'ended',
            ','.join(obs['thread_exc']) or '-', obs['conn_exc'] or '-'))
    if not res:
        for f in list(facts) + ['v%d %s' % (sc['version'], shape)]:
            f = 'xfact xb: %s' % f
            ctx.extra[f] = ctx.extra.get(f, 0) + 1
    for name, text in res:
        ctx.violation('%s v%d %s' % (shape, sc['version'], name),
                      'protocol %d, listeners ie=[C] io=[C] (C = clientbound '
                      'KeepAlivePacket) oe=[C] oo=[C] (C = serverbound '
                      'KeepAlivePacket), connection in play: %s'
                      % (sc['version'], text), dict(sc))
    return res


def b_tasks(ctx, rng):
    ns = B_NS_THOROUGH if ctx.thorough else B_NS_QUICK
    versions = (757, 340) if ctx.thorough else (757,)
    tasks = []
    for v in versions:
        items = [(n, m) for n in ns for m in B_MS]
        rng.shuffle(items)
        base = {'family': 'xb', 'version': v, 'seed': ctx.seed}
        step = 6 if ctx.thorough else 2
        for i in range(0, len(items), step):
            tasks.append((base, items[i:i + step]))
    return tasks, {'versions': list(versions), 'n': list(ns),
                   'm': list(B_MS)}


def x_tasks(ctx, rng):
    tasks, counts = [], {}
    for v in VERSIONS:
        xa = sorted(xa_configurations(ctx.tier, v))
        xc = sorted(xc_configurations(ctx.tier, v))
        counts[str(v)] = {'xa': len(xa), 'xc': len(xc)}
        rng.shuffle(xa)
        rng.shuffle(xc)
        for stim, delivery in XA_SHAPES:
            base = {'family': 'xa', 'version': v, 'seed': ctx.seed,
                    'stim': stim, 'delivery': delivery}
            for i in range(0, len(xa), 40):
                tasks.append((base, xa[i:i + 40]))
        for hist, k, env in XC_SHAPES:
            base = {'family': 'xc', 'version': v, 'seed': ctx.seed,
                    'hist': hist, 'kick': k, 'env': env}
            for i in range(0, len(xc), 40):
                tasks.append((base, xc[i:i + 40]))
    return tasks, counts


# ---------------------------------------------------------------------------
# two user threads register concurrently: schedule exploration

CANON = statehash.Canon(REPO, (__file__,))
RACES = (('ie', 'ie'), ('io', 'io'), ('oe', 'oe'), ('oo', 'oo'),
         ('ie', 'io'))
RACE_VERSION = 757
RACE_KA = 11


def race_body(W, ga, gb, k, when):
    """Agents A and B each register k listeners (the first on the concrete
    keep-alive class of its direction, the second on Packet) into classes ga
    and gb while the window is open - when = 'play': on a connection in the
    play state (the networking thread is a third agent), 'before': before
    connect(); afterwards one keep-alive comes in (its reply goes out) and
    one chat is written."""
    S, C = W.S, W.C
    cl = classes()
    real, rev = cl['real'], cl['rev']
    W.serve(login=[('success',)])
    conn = W.connection(allowed_versions={RACE_VERSION})

    def reach_play():
        conn.connect()
        W.settle()
        srv = W.servers[-1]
        if srv.state != 'play' or \
                type(conn.reactor).__name__ != 'PlayingReactor':
            raise ToolError('race set-up did not reach play: %r %r'
                            % (srv.state, srv.errors))
        return srv
    if when == 'play':
        srv = reach_play()
    results = []

    def pkey(p):
        name = rev.get(type(p), '?' + type(p).__name__)
        return (name, getattr(p, KEYFIELD.get(name, 'id'), None))

    def make(tag):
        def callback(packet):
            S.event('L', tag, pkey(packet))
        return callback

    def types_of(g, j):
        if j % 2:
            return ('Packet',)
        return ('cb.KeepAlive',) if g[0] == 'i' else ('sb.KeepAlive',)
    regs = [(who + str(j), g, types_of(g, j))
            for who, g in (('A', ga), ('B', gb)) for j in range(k)]

    def agent(who, g):
        def user():
            for j in range(k):
                tag = who + str(j)
                try:
                    conn.register_packet_listener(
                        make(tag), *[real[t] for t in types_of(g, j)],
                        early=(g[1] == 'e'), outgoing=(g[0] == 'o'))
                    results.append((tag, 'ok'))
                except Exception as e:
                    results.append((tag, type(e).__name__))
        return user
    S.state_fn = statehash.make_state_fn(W, CANON, [conn],
                                         extra=lambda: tuple(results))
    S.window = True
    a = S.spawn(agent('A', ga), name='userA')
    b = S.spawn(agent('B', gb), name='userB')
    S.join(a)
    S.join(b)
    S.wait_quiescent()
    S.window = False
    if when != 'play':
        srv = reach_play()
    base = len(S.log)
    srv.play(('keepalive', RACE_KA))
    W.settle()
    api = None
    try:
        conn.write_packet(real['sb.Chat'](message='one'))
    except Exception as e:
        api = '%s: %s' % (type(e).__name__, e)
    W.settle()
    # judge
    viol = []
    packets = [('cb.KeepAlive', RACE_KA), ('sb.KeepAlive', RACE_KA),
               ('sb.Chat', 'one')]
    calls = {pk: [] for pk in packets}
    for ev in S.log[base:]:
        if ev[0] == 'L':
            calls.setdefault(ev[2], []).append(ev[1])
    sup = cl['sup']
    group_of = {tag: g for tag, g, _ in regs}
    for pk in sorted(calls, key=repr):
        got = calls[pk]
        incoming = pk[0][:2] != 'sb'
        want = [tag for tag, g, types in regs
                if (g[0] == 'i') == incoming and pk[0] in sup
                and any(t in sup[pk[0]] for t in types)]
        if sorted(got) != sorted(want):
            lost = [t for t in want if t not in got]
            viol.append((
                'lost-registration' if lost else 'call-count',
                'after A and B registered %r concurrently, packet %r must '
                'be delivered exactly once to each of %r; calls observed: '
                '%r (registrations returned %r)'
                % (regs, pk, want, got, results)))
            continue
        for x, y in itertools.combinations(range(len(got)), 2):
            tx, ty = got[x], got[y]
            gx, gy = group_of[tx], group_of[ty]
            if (gx[1] != 'e' and gy[1] == 'e') or (
                    gx == gy and tx[0] == ty[0] and tx[1:] > ty[1:]):
                viol.append(('call-order', 'packet %r: %s is called before '
                             '%s (early before ordinary; the registrations '
                             'of one thread in its program order): %r'
                             % (pk, tx, ty, got)))
    want_rx = [('keepalive', RACE_KA), ('chat', 'one')]
    if srv.play_rx != want_rx or srv.errors:
        viol.append(('server-receipts', 'server decoded %r (errors %r), '
                     'expected %r' % (srv.play_rx, srv.errors, want_rx)))
    bad = [r for r in results if r[1] != 'ok']
    exc = ['%s: %s' % (type(x.exc).__name__, x.exc) for x in S.agents
           if x.exc is not None]
    if bad or api or exc or conn.exception is not None:
        viol.append(('exception', 'register_packet_listener results %r, '
                     'write_packet %r, thread exceptions %r, '
                     'connection.exception %r'
                     % (bad, api, exc, conn.exception)))
    outcome = tuple((pk[0], tuple(calls[pk])) for pk in packets)
    return {'outcome': repr(outcome), 'violations': viol}


def race_factory(params):
    C = harness.setup()['C']
    pysched.add_line_points(C.Connection.register_packet_listener,
                            C.packets.PacketListener.__init__)
    ga, gb, k = params['a'], params['b'], int(params['k'])
    when = params.get('when', 'play')

    def scenario(prefix, expect, visited=None, budget=0):
        return harness.run(lambda W: race_body(W, ga, gb, k, when), prefix,
                           tracing=True, expect=expect, horizon=30000,
                           visited=visited,
                           budget=budget if budget != 'replay' else 0,
                           lenient=budget == 'replay')
    return scenario


def explore_races(ctx, ex):
    runs = [(ga, gb, 2, 'before', 2) for ga, gb in RACES]
    if ctx.thorough:
        runs += [(ga, gb, 2, 'play', 2) for ga, gb in RACES]
    else:
        runs += [(ga, gb, 1, 'play', 1) for ga, gb in RACES]
    for ga, gb, k, when, bound in runs:
        params = {'a': ga, 'b': gb, 'k': k, 'when': when}
        label = 'race %s/%s %s ' % (ga, gb, when)
        res = ex.explore(ctx, race_factory, params, bound, label=label)
        ctx.cls('%sk=%d bound=%d' % (label, k, bound))
        ctx.extra[label.strip()] = {
            'registrations_per_thread': k,
            'preemption_bound': bound, 'complete_executions': res.execs,
            'executions_cut_at_a_visited_state': res.pruned,
            'distinct_outcomes': len(res.outcomes),
            'executions_with_preemption': res.with_pre}
        if ga == gb and len(res.outcomes) < 2 and not res.violations:
            raise ToolError('vacuous exploration: %s has one outcome'
                            % label)


# ---------------------------------------------------------------------------
# a user thread calls disconnect() while the networking thread dispatches one
# packet to an early and an ordinary listener: schedule exploration

DISC_RUNS = (('keepalive', False), ('unknown', True),
             ('keepalive', True), ('unknown', False))


def disc_body(W, stim, immediate):
    """Listeners E (early, concrete class of the stimulus), O (ordinary,
    Packet), OE / OO (early / ordinary outgoing, Packet) on a connection in
    the play state.  Window: the server's packet becomes readable and a user
    thread calls disconnect(immediate); the networking thread is the other
    agent."""
    S = W.S
    cl = classes()
    real, rev = cl['real'], cl['rev']
    W.serve(login=[('success',)])
    conn = W.connection(allowed_versions={RACE_VERSION})

    def pkey(p):
        name = rev.get(type(p), '?' + type(p).__name__)
        return (name, getattr(p, KEYFIELD.get(name, 'id'), None))

    def make(tag):
        def callback(packet):
            S.event('L', tag, pkey(packet))
        return callback
    if stim == 'keepalive':
        ev, key, first = ('keepalive', RACE_KA), ('cb.KeepAlive', RACE_KA), \
            'cb.KeepAlive'
    else:
        ev, key, first = ('raw', UNKNOWN_IDS[0], b'\x01\x02\x03'), \
            ('Packet', UNKNOWN_IDS[0]), 'Packet'
    reply = ('sb.KeepAlive', RACE_KA)
    conn.register_packet_listener(make('OO'), real['Packet'], outgoing=True)
    conn.register_packet_listener(make('E'), real[first], early=True)
    conn.register_packet_listener(make('OE'), real['Packet'], outgoing=True,
                                  early=True)
    conn.register_packet_listener(make('O'), real['Packet'])
    conn.connect()
    W.settle()
    srv = W.servers[-1]
    if srv.state != 'play' or \
            type(conn.reactor).__name__ != 'PlayingReactor':
        raise ToolError('disconnect-schedule set-up did not reach play: %r %r'
                        % (srv.state, srv.errors))
    vc = W.net.conns[-1]
    base, rx0 = len(S.log), len(srv.play_rx)
    results = []

    def user():
        S.event('D', 'call')
        try:
            conn.disconnect(immediate=immediate)
            results.append('ok')
        except Exception as e:
            results.append(type(e).__name__)
        S.event('D', 'ret')
    S.state_fn = statehash.make_state_fn(W, CANON, [conn],
                                         extra=lambda: tuple(results))
    S.window = True
    srv.play(ev)
    end = vc.frame_ends[-1]
    a = S.spawn(user, name='user')
    S.join(a)
    S.wait_quiescent()
    S.window = False
    W.settle()
    # judge
    viol = []
    log = S.log[base:]
    read = vc.consumed >= end
    pos = {}
    calls = {key: [], reply: []}
    sends = []
    for i, e in enumerate(log):
        if e[0] == 'L':
            calls.setdefault(e[2], []).append(e[1])
            pos.setdefault((e[1], e[2]), i)
        elif e[0] == 'D':
            pos[e[1]] = i
        elif e[0] == 'send' and e[1] == vc.id:
            sends.append(i)
    want = ['E', 'O'] if read else []
    if calls[key] != want:
        viol.append((
            'call-order' if sorted(calls[key]) == sorted(want)
            else 'call-set',
            'a user thread calls disconnect(immediate=%r) while packet %r '
            'is on its way; the client %s: the early listener E and the '
            'ordinary listener O are owed %s (nobody signalled ignore); '
            'calls observed: %r'
            % (immediate, key, 'has read the whole packet' if read
               else 'never read the packet completely',
               'one call each, E first' if read else 'nothing', calls[key])))
    complete = reply in [('sb.KeepAlive', r[1]) for r in srv.play_rx[rx0:]
                         if r[0] == 'keepalive']
    got = calls[reply]
    pe, po = pos.get(('OE', reply)), pos.get(('OO', reply))
    if complete:
        ok = got == ['OE', 'OO'] and sends and pe < min(sends) \
            and max(sends) < po
    else:
        ok = got in ([], ['OE']) and (not sends or (
            pe is not None and pe < min(sends)))
    if not ok:
        viol.append(('outgoing', 'reply %r %s; its early outgoing listener '
                     'OE is owed at most one call before the first byte, its '
                     'ordinary outgoing listener OO one call after the last '
                     'byte if and only if it was written; observed calls %r, '
                     'log positions OE=%r sends=%r OO=%r'
                     % (reply, 'was written completely' if complete
                        else 'was not written completely', got, pe, sends,
                        po)))
    others = sorted(k for k in calls if k not in (key, reply))
    if others or srv.errors:
        viol.append(('unexpected-packet', 'listener calls for %r / server '
                     'errors %r' % (others, srv.errors)))
    if calls[key] != want:
        when = 'dispatch wrong'
    elif read:
        pe_, po_, dr = pos[('E', key)], pos[('O', key)], pos['ret']
        when = 'disconnect returned before E' if dr < pe_ else \
            'mid-dispatch: disconnect returned between E and O' \
            if dr < po_ else 'disconnect returned after O' \
            if pos['call'] > po_ else 'disconnect overlaps O'
    else:
        when = 'packet never read'
    # (a disconnect() that raises is recorded, not judged: C14)
    outcome = (when, tuple(calls[key]), tuple(got), complete) + (
        () if results == ['ok'] else ('disconnect() raised', tuple(results)))
    return {'outcome': repr(outcome), 'violations': viol}


def disc_factory(params):
    harness.setup()
    stim, immediate = params['stim'], bool(params['immediate'])

    def scenario(prefix, expect, visited=None, budget=0):
        return harness.run(lambda W: disc_body(W, stim, immediate), prefix,
                           tracing=True, expect=expect, horizon=30000,
                           visited=visited,
                           budget=budget if budget != 'replay' else 0,
                           lenient=budget == 'replay')
    return scenario


def explore_disconnects(ctx, ex):
    bound = 2 if ctx.thorough else 1
    for stim, immediate in DISC_RUNS:
        params = {'stim': stim, 'immediate': immediate}
        label = 'disconnect(%s) during %s ' % (
            'immediate' if immediate else 'flush', stim)
        res = ex.explore(ctx, disc_factory, params, bound, label=label)
        ctx.extra[label.strip()] = {
            'preemption_bound': bound, 'complete_executions': res.execs,
            'executions_cut_at_a_visited_state': res.pruned,
            'distinct_outcomes': len(res.outcomes),
            'executions_with_preemption': res.with_pre}
        if res.violations:
            continue
        for need in ('mid-dispatch', 'never read'):
            if not any(need in o for o in res.outcomes):
                raise ToolError('vacuous exploration: %s has no schedule '
                                'with outcome %r: %r'
                                % (label, need, sorted(res.outcomes)))
        ctx.cls('%sbound=%d: schedules with the disconnect mid-dispatch '
                'and with the packet never read' % (label, bound))


# ---------------------------------------------------------------------------
# enumeration

def opt(items):
    return [()] + [(s,) for s in items]


def mk(ie=(), io=(), oe=(), oo=()):
    return (tuple(ie), tuple(io), tuple(oe), tuple(oo))


def q_sets(surround_plain_only=False):
    one = opt(ALPH)
    out = set()
    sur = [((PLAIN_P,), (PLAIN_P,))] if surround_plain_only else \
        [((), ()), ((PLAIN_P,), (PLAIN_P,))]
    for a, b in itertools.product(one, one):
        for s, t in sur:
            out.add(mk(a, b, s, t))         # Q1
            out.add(mk(s, t, a, b))         # Q2
    return out


def q3():
    one = opt(ALPH)
    return {mk(a, (PLAIN_P,), b, (PLAIN_P,))
            for a, b in itertools.product(one, one)}


def s2(surroundings):
    out = set()
    pairs = list(itertools.product(ALPH, ALPH))
    for gi in range(4):
        for pr in pairs:
            for sur in itertools.product(surroundings, repeat=3):
                c = list(sur)
                c.insert(gi, pr)
                out.add(tuple(c))
    return out


def s2_uniform(surroundings):
    """pairs inside one class, the three other classes all alike."""
    out = set()
    for gi in range(4):
        for pr in itertools.product(ALPH, ALPH):
            for sur in surroundings:
                c = [sur] * 3
                c.insert(gi, pr)
                out.add(tuple(c))
    return out


def full_product():
    one = opt(ALPH)
    return set(itertools.product(one, one, one, one))


def configurations(tier, v):
    none_plain = [(), (PLAIN_P,)]
    if tier == 'thorough':
        if v == 757:
            return full_product() | s2([(), (PLAIN_P,), (IGN_P,)])
        if v == 340:
            return full_product() | s2(none_plain)
        return q_sets() | q3() | s2(none_plain)
    if v == 757:
        return q_sets() | q3() | s2(none_plain)
    return q_sets() | q3() | s2_uniform(none_plain)


def late_of(spec):
    return (spec[0], spec[1], True)


PLAIN_P_LATE = late_of(PLAIN_P)


def late_configurations(tier, v):
    """Configurations for the histories with a late registration point
    ('~').  Inside a class the listeners registered before connect() come
    first, so the tuple order is the registration order."""
    sur3 = [(), (PLAIN_P,), (PLAIN_P_LATE,)]
    big = v == 757 or (tier == 'thorough' and v == 340)
    out = set()
    # L1: one late listener in one class
    l1_sur = list(itertools.product(sur3, repeat=3)) if big \
        else [(x,) * 3 for x in sur3]
    for gi in range(4):
        for a in ALPH:
            for sur in l1_sur:
                c = list(sur)
                c.insert(gi, (late_of(a),))
                out.add(tuple(c))
    # L2: pairs inside one class: (before connect, late) and (late, late)
    if tier == 'thorough' and v == 757:
        l2_sur = list(itertools.product(sur3, repeat=3))
    elif big or tier == 'thorough':
        l2_sur = [(x,) * 3 for x in sur3]
    else:
        l2_sur = [((),) * 3]
    for gi in range(4):
        for a, b in itertools.product(ALPH, ALPH):
            for pair in ((a, late_of(b)), (late_of(a), late_of(b))):
                for sur in l2_sur:
                    c = list(sur)
                    c.insert(gi, pair)
                    out.add(tuple(c))
    # L3: one listener in each of two classes, at least one of them late
    if big:
        for g1, g2 in ((0, 1), (2, 3), (0, 2)):
            for a, b in itertools.product(ALPH, ALPH):
                for x, y in ((a, late_of(b)), (late_of(a), b),
                             (late_of(a), late_of(b))):
                    c = [(), (), (), ()]
                    c[g1], c[g2] = (x,), (y,)
                    out.add(tuple(c))
    return out


def dup_configurations(tier, v, late=False):
    """One callable registered twice in a class: filters (f1, f2) in all
    36 combinations (same filter, both match, one matches, none), ignoring
    or not; alone, or with a different callable registered in between;
    late=True: the second registration of the callable is a late one."""
    big = v == 757 or tier == 'thorough'
    between = [None, PLAIN_P] + ([('C', True)] if big else [])
    surround = [(), (PLAIN_P,)] if big and not late else [()]
    out = set()
    for gi in range(4):
        for f1, f2 in itertools.product(FILTERS, FILTERS):
            for ign in (False, True):
                for b in between:
                    first = (f1, ign)
                    if b is None:
                        grp = (first, (f2, ign, late, 0))
                    else:
                        grp = (first, b, (f2, ign, late, 0))
                    for sur in surround:
                        c = [sur] * 3
                        c.insert(gi, grp)
                        out.add(tuple(c))
    return out


def put(out, gi, grp, sur):
    c = [sur] * 3
    c.insert(gi, tuple(grp))
    out.add(tuple(c))


FILTER_PAIRS = (('P', 'P'), ('C', 'P'), ('P', 'C'))


def route_configurations(tier, v):
    """The registration route as a dimension (callables: kept closures).
    R1 one listener; R2 one decorator object applied two or three times
    (also around a plainly registered listener, and two decorator objects
    alternating); R3 one decorator object in each of two classes; R4 pairs
    of routes inside one class."""
    big = tier == 'thorough' or v == 757
    huge = tier == 'thorough' and v == 757
    surs = [(), (PLAIN_P,)] if big else [(PLAIN_P,)]
    out = set()
    for gi in range(4):
        # R1
        for r in ROUTES[1:]:
            for f in (FILTERS if big else ('P', 'C', 'N')):
                for ign in (False, True):
                    for sur in surs:
                        put(out, gi, [sp(f, ign, route=r)], sur)
        # R2
        for f in FILTERS:
            for n in (2, 3):
                for j in range(n + 1):      # which one ignores (n: none)
                    for sur in surs:
                        put(out, gi, [sp(f, i == j, route='sdec')
                                      for i in range(n)], sur)
            if not big:
                continue
            for j in (None, 0, 2):
                a, b, c = (sp(f, j == 0, route='sdec'), sp('P', False),
                           sp(f, j == 2, route='sdec'))
                for sur in surs:
                    put(out, gi, [a, b, c], sur)
                    put(out, gi, [b, a, c], sur)
        if big:
            for f1, f2 in itertools.permutations(('P', 'C', 'K'), 2):
                for ign in (False, True):
                    for sur in surs:
                        put(out, gi, [sp(f1, False, route='sdec'),
                                      sp(f2, False, route='sdec'),
                                      sp(f1, ign, route='sdec')], sur)
        # R4
        pairs = [(a, b) for a in ROUTES for b in ROUTES
                 if (a, b) != ('reg', 'reg')
                 and (big or a == b or 'reg' in (a, b))]
        for r1, r2 in pairs:
            for f1, f2 in (FILTER_PAIRS if big else FILTER_PAIRS[:2]):
                for j in ((None, 0, 1) if big else (None, 0)):
                    for sur in (surs if huge else [()]):
                        put(out, gi, [sp(f1, j == 0, route=r1),
                                      sp(f2, j == 1, route=r2)], sur)
    # R3
    if big:
        for g1, g2 in itertools.combinations(range(4), 2):
            for f1, f2 in itertools.product(('P', 'C'), repeat=2):
                for j in (None, 1, 2):
                    c = [(), (), (), ()]
                    c[g1] = (sp(f1, False, route='sdec'),
                             sp(f1, j == 1, route='sdec'))
                    c[g2] = (sp(f2, False, route='sdec'),
                             sp(f2, j == 2, route='sdec'))
                    out.add(tuple(c))
    return out


def kind_configurations(tier, v):
    """The kind of callable as a dimension.  K1 one listener; K2 pairs
    inside one class; K3 kind x route; K4 one decorator object applied to
    two callables of one kind."""
    big = tier == 'thorough' or v == 757
    huge = tier == 'thorough' and v == 757
    surs = [(), (PLAIN_P,)] if big else [(PLAIN_P,)]
    kinds = CALLABLES[1:]
    out = set()
    for gi in range(4):
        for kd in kinds:
            # K1
            for f in (('P', 'C', 'CS') if big else ('P', 'C')):
                for ign in (False, True):
                    for sur in surs:
                        put(out, gi, [sp(f, ign, kind=kd)], sur)
            # K3, K4
            if big:
                for r in ROUTES[1:]:
                    for f in (('P', 'C') if tier == 'thorough' else ('P',)):
                        for ign in (False, True):
                            put(out, gi, [sp(f, ign, route=r, kind=kd)], ())
                for ign in (False, True):
                    put(out, gi, [sp('P', False, route='sdec', kind=kd),
                                  sp('P', ign, route='sdec', kind=kd)], ())
        # K2
        pairs = [(a, b) for a in CALLABLES for b in CALLABLES
                 if (a, b) != ('closure', 'closure')
                 and (huge or a == b or (big and 'closure' in (a, b)))]
        for k1, k2 in pairs:
            for f1, f2 in (FILTER_PAIRS if huge else FILTER_PAIRS[:2]
                           if big else FILTER_PAIRS[:1]):
                for j in ((None, 0, 1) if big else (None, 0)):
                    put(out, gi, [sp(f1, j == 0, kind=k1),
                                  sp(f2, j == 1, kind=k2)], ())
    return out


def late_rk_configurations(tier, v):
    """Routes and kinds of callable for the ~ histories: a late listener of
    every route / kind; one decorator object made before connect() and
    applied again late, or applied twice late; a pair of one kind as
    (before connect, late)."""
    out = set()
    for gi in range(4):
        for f in ('P', 'C'):
            for ign in (False, True):
                for r in ROUTES[1:]:
                    put(out, gi, [sp(f, ign, True, route=r)], ())
                for kd in CALLABLES[1:]:
                    put(out, gi, [sp(f, ign, True, kind=kd)], ())
                for first_late in (False, True):
                    put(out, gi, [sp(f, False, first_late, route='sdec'),
                                  sp(f, ign, True, route='sdec')], ())
                    put(out, gi, [sp(f, False, first_late, route='sdec'),
                                  sp(f, ign, True, route='sdec'),
                                  sp(f, False, True, route='sdec')], ())
        for kd in CALLABLES[1:]:
            for ign in (False, True):
                put(out, gi, [sp('P', False, False, kind=kd),
                              sp('P', ign, True, kind=kd)], ())
    return out


def as_cfg(t):
    return dict(zip(GROUPS, t))


_FROZEN = []


def w_chunk(ctx, task):
    v, kind, seed, cfgs = task
    if _FROZEN != [os.getpid()]:
        # the forced collections between registration and dispatch look at
        # the objects of the case only, not at the whole worker process
        gc.collect()
        gc.freeze()
        _FROZEN[:] = [os.getpid()]
    for t in cfgs:
        run_case(ctx, kind, v, as_cfg(t), seed)


def run(ctx):
    # the explorer forks its workers before anything else happens here; the
    # parent process itself never executes a scenario
    ex = explore.Explorer()
    try:
        explore_races(ctx, ex)
        explore_disconnects(ctx, ex)
    finally:
        ex.close()
    from vf.runner import use_repo
    mc = use_repo()
    from vf.refserver import Rank
    rank = Rank(list(mc.KNOWN_PROTOCOL_VERSIONS))
    rng = random.Random(ctx.seed)
    tasks = []
    per_version = {}
    late_per_version = {}
    for v in VERSIONS:
        cfgs = sorted(configurations(ctx.tier, v)
                      | dup_configurations(ctx.tier, v))
        lcfgs = late_configurations(ctx.tier, v)
        if v == 757 or ctx.thorough:
            lcfgs |= dup_configurations(ctx.tier, v, late=True)
        lcfgs = sorted(lcfgs)
        per_version[str(v)] = len(cfgs)
        late_per_version[str(v)] = len(lcfgs)
        rng.shuffle(cfgs)
        rng.shuffle(lcfgs)
        for kind in kinds_for(v, rank):
            use = lcfgs if kind.endswith('~') else cfgs
            for i in range(0, len(use), 40):
                tasks.append((v, kind, ctx.seed, use[i:i + 40]))
    rk_counts = {}
    for v in VERSIONS:
        rc = sorted(route_configurations(ctx.tier, v), key=repr)
        kc = sorted(kind_configurations(ctx.tier, v), key=repr)
        lc = sorted(late_rk_configurations(ctx.tier, v), key=repr) \
            if v == 757 or ctx.thorough else []
        rk_counts[str(v)] = {'routes': len(rc), 'callable kinds': len(kc),
                             'late': len(lc)}
        use = rc + kc
        rng.shuffle(use)
        rng.shuffle(lc)
        for kind in kinds_for(v, rank):
            if kind.endswith('~'):
                cf = lc
            elif ctx.thorough or kind in RK_HISTORIES:
                cf = use
            else:
                continue
            for i in range(0, len(cf), 40):
                tasks.append((v, kind, ctx.seed, cf[i:i + 40]))
    rng.shuffle(tasks)
    xtasks, xcounts = x_tasks(ctx, rng)
    btasks, bcounts = b_tasks(ctx, rng)
    xtasks += btasks
    rng.shuffle(xtasks)
    ctx.extra['configurations_per_version'] = per_version
    ctx.extra['late_configurations_per_version'] = late_per_version
    ctx.extra['histories'] = list(KINDS)
    ctx.extra['route_and_callable_configurations_per_version'] = rk_counts
    ctx.extra['registration_routes'] = list(ROUTES)
    ctx.extra['kinds_of_callable'] = list(CALLABLES)
    ctx.extra['route_and_callable_histories'] = list(KINDS) if ctx.thorough \
        else list(RK_HISTORIES) + [k for k in KINDS if k.endswith('~')]
    ctx.extra['x_configurations_per_version'] = xcounts
    ctx.extra['x_histories'] = {
        'xa': ['%s/%s' % sd for sd in XA_SHAPES],
        'xc': ['%s kick=%d %s' % h for h in XC_SHAPES]}
    ctx.extra['xb_bursts'] = bcounts
    ctx.pmap(w_chunk, tasks)
    if not ctx.violations:
        need = ['route %s: %s listener fires' % (r, g)
                for r in ROUTES[1:] for g in GROUPS]
        need += ['route %s: listener ignores' % r for r in ROUTES[1:]]
        need += ['callable %s: %s listener fires' % (kd, g)
                 for kd in CALLABLES[1:] for g in GROUPS]
        need += ['callable %s: listener ignores' % kd
                 for kd in CALLABLES[1:]]
        need += ['one decorator object: the listener of its %s application '
                 'fires (%s)' % (n, g) for n in ('second', 'third')
                 for g in GROUPS]
        need += ['one decorator object: made before connect(), applied '
                 'again late']
        for n in need:
            if not ctx.classes.get(n):
                raise ToolError('vacuous: no case shows %r' % n)
    ctx.pmap(w_xchunk, xtasks)
    xf = {k[6:]: ctx.extra.pop(k) for k in sorted(ctx.extra)
          if k.startswith('xfact ')}
    ctx.extra['x_classes'] = xf
    for v in VERSIONS:
        ctx.cls('v%d x histories' % v, sum(
            n for k, n in xf.items() if k[4:].startswith('v%d ' % v)))
    for need in X_NEED + tuple('xb: ' + f for f in B_NEED):
        if need in xf:
            ctx.cls(need, xf[need])
        elif not ctx.violations:
            raise ToolError('vacuous: no x history shows %r' % need)
    ctx.sample({'history': 'keepalive', 'version': 757,
                'listeners': 'ie=[P!,C] io=[P] oe=[P] oo=[P]',
                'expect': 'ie0 only; no reply on the wire; second '
                          'keep-alive: ie0 ie1 reaction io0, reply: oe0 '
                          'wire oo0'})
    ctx.sample({'history': 'keepalive~', 'version': 757,
                'listeners': 'ie=[C,K!~] io=[P~] oe=[] oo=[]',
                'expect': 'first keep-alive: ie0, reply; K and P listeners '
                          'registered at quiescence; second: ie0 ie1 (raises '
                          'ignore), no reply; third: ie0 ie1 io0, reply'})
    ctx.sample({'history': 'compress', 'version': 757,
                'listeners': 'ie=[CS] io=[C] oe=[] oo=[]',
                'expect': 'ie0 once seeing compression off, io0 seeing '
                          'compression on with threshold 64'})


def replay_schedule(ctx, case):
    harness.setup()
    disc = 'stim' in case['params']
    scenario = (disc_factory if disc else race_factory)(case['params'])
    x = scenario(list(case['choices']), None, None, 'replay')
    if getattr(x, 'diverged', False):
        print('  note: the recorded schedule cannot be followed on this tree '
              '(different choice points); what the execution did instead is '
              'judged below')
    ctx.count()
    res = x.result or {}
    viol = list(res.get('violations', ()))
    if x.failure is not None:
        viol.append((x.failure[0], '%s: %s' % x.failure))
    for key, what in viol:
        if disc:
            ctx.violation('disconnect(%s) during %s %s' % (
                'immediate' if case['params']['immediate'] else 'flush',
                case['params']['stim'], key), what, case)
            continue
        ctx.violation('race %s/%s %s %s' % (
            case['params']['a'], case['params']['b'],
            case['params'].get('when', 'play'), key), what, case)


def replay(ctx, case):
    if 'params' in case:
        return replay_schedule(ctx, case)
    if case.get('family') == 'xb':
        return run_b(ctx, case)
    if case.get('family') in ('xa', 'xc'):
        sc = {k: case[k] for k in case if k != 'cfg'}
        for k in ('version', 'seed', 'kick'):
            if k in sc:
                sc[k] = int(sc[k])
        sc['cfg'] = {g: [tuple(s) for s in case['cfg'][g]] for g in GROUPS}
        return run_x(ctx, sc)
    cfg = {g: tuple((str(s[0]), bool(s[1]))
                    + ((is_late(s),) if len(s) > 2 else ())
                    + ((int(s[3]),) if len(s) > 3 and s[3] is not None
                       else (None,) if len(s) > 4 else ())
                    + ((str(s[4] or 'reg'), str(s[5] or 'closure'))
                       if len(s) > 4 else ())
                    for s in case['cfg'][g]) for g in GROUPS}
    run_case(ctx, case['kind'], int(case['version']), cfg,
             int(case.get('seed', 0)))
