"""C03 - VarInt/VarLong decoding is bounded; encoding terminates, canonical."""
import io
import socket
import sys

from vf.runner import use_repo, ToolError
from vf.refproto import codec as ref
from vf import explore, interleave

LEVEL = 'exploration'
RULE = ('Decoding: every byte string of length <= 2 (quick) / <= 3 (thorough) '
        'and every continuation-bit shape of length 1..13 (terminated or not) '
        'with uniform septets {00,01,7F} or one distinguished septet per '
        'position, followed by 0-2 trailing bytes, plus every strict prefix '
        'of each shape; for VarInt and VarLong, read from a BytesIO (shapes: '
        'from an instrumented stream that counts read calls).  Stream kinds: '
        'every terminated encoding of 1..6 bytes with uniform septets '
        '{7F,01,55}, followed by the sentinel byte a5, is also read from an '
        'io.BufferedReader over a raw stream and from the unbuffered raw '
        'stream itself (short reads) with the bytes handed out in EVERY '
        'segmentation (all compositions of the 2..7 bytes into segments), and '
        'every strict prefix of those encodings in every segmentation (must '
        'raise); every uniform shape of 7..13 bytes (thorough: every shape of '
        '1..13 bytes) + sentinel in every 2-segment cut on both stream kinds; '
        'the 7F encodings of 1..6 bytes in every segmentation, their '
        'prefixes, and the 10- and 11-byte shapes in every 2-segment cut also '
        'through a real socket.socketpair() read with makefile("rb") and '
        'makefile("rb", 0), each recv delivering exactly one segment.  '
        'Encoding: every n < 2^16 '
        '(quick) / 2^21 (thorough), every 2^k-1, 2^k, 2^k+1 for k <= 77, a '
        'seed-derived set, and negatives under a step horizon.  A case is '
        'non-trivial unless it is the empty string; all cases are distinct '
        'by construction (enumerated without repetition), counted per '
        'generator.  Concurrency: every pair of 11 operations (VarInt.send, '
        'VarLong.send, VarInt.read, VarLong.read, VarInt.size each with two '
        'multi-byte values, VarLong.size; so every pair of kinds and the same '
        'kind with two values) is run by two threads under the controlled '
        'scheduler with every source line of types/basic.py and '
        'types/utility.py a scheduling point, all schedules with at most 1 '
        '(thorough: 2) preemptions; each thread must observe the reference '
        'result, which is what the operation gives alone, also afterwards; a '
        'send is observed both as the bytes copied at each socket.send() '
        'call and as the objects passed to send() read after the operation '
        'returned.')
ASSUMPTIONS = ['non-termination is judged by a horizon of 20000 traced line '
               'events per call (a correct encoder needs < 100)',
               'the logical position of a stream after decoding is what a '
               'read-to-end on the same stream object still returns (a '
               'buffered reader may have fetched more from its raw stream)']

HORIZON = 20000


class Horizon(BaseException):
    pass


def bounded(fn, *args):
    """Run fn under a line-event horizon; Horizon => did not terminate."""
    n = [0]

    def tracer(frame, event, arg):
        n[0] += 1
        if n[0] > HORIZON:
            raise Horizon()
        return tracer
    old = sys.gettrace()
    sys.settrace(tracer)
    try:
        return fn(*args)
    finally:
        sys.settrace(old)


class CountingStream(object):
    def __init__(self, data):
        self.b = io.BytesIO(data)
        self.calls = 0
        self.asked = 0

    def read(self, n=-1):
        self.calls += 1
        self.asked += n if n and n > 0 else 0
        if self.calls > 64:
            raise Horizon()
        return self.b.read(n)


def types():
    use_repo()
    from minecraft.networking.types import VarInt, VarLong
    return {'VarInt': VarInt, 'VarLong': VarLong}


def expect(data, max_bytes):
    """Reference verdict for decoding data from offset 0.
    -> ('value', v, used) | ('either', v, used) | ('raise', max_read)"""
    v = 0
    for i, b in enumerate(data):
        if i > max_bytes:           # 0..max_bytes => at most max_bytes+1 read
            return ('raise', max_bytes + 1)
        v |= (b & 0x7F) << (7 * i)
        if b < 0x80:
            if i + 1 <= max_bytes:
                return ('value', v, i + 1)
            return ('either', v, i + 1)
    if len(data) > max_bytes:
        return ('raise', max_bytes + 1)
    return ('raise', len(data))      # end of stream inside the number


class SegRaw(io.RawIOBase):
    """Raw stream that hands out its bytes segment by segment: one readinto
    never crosses a segment boundary (short reads), EOF after the last."""

    def __init__(self, segs):
        io.RawIOBase.__init__(self)
        self.segs = [bytes(x) for x in segs if x]
        self.calls = 0

    def readable(self):
        return True

    def readinto(self, b):
        self.calls += 1
        if self.calls > 64:
            raise Horizon()
        if not self.segs:
            return 0
        seg = self.segs[0]
        n = min(len(b), len(seg))
        b[:n] = seg[:n]
        if n == len(seg):
            self.segs.pop(0)
        else:
            self.segs[0] = seg[n:]
        return n


class FedSocket(socket.socket):
    """The reading end of a real socketpair whose peer sends the next segment
    exactly when this end asks the kernel for data, and shuts down after the
    last: every recv sees one segment, deterministically."""

    def arm(self, peer, segs):
        self.peer, self.todo, self.calls = peer, [x for x in segs if x], 0

    def recv_into(self, *a, **kw):
        self.calls += 1
        if self.calls > 64:
            raise Horizon()
        if self.todo:
            self.peer.sendall(self.todo.pop(0))
        elif self.peer is not None:
            self.peer.shutdown(socket.SHUT_WR)
            self.peer.close()
            self.peer = None
        return socket.socket.recv_into(self, *a, **kw)


STREAM_KINDS = ('buffered', 'raw', 'socket-buffered', 'socket-unbuffered')


def open_stream(kind, segs):
    """-> (file object to decode from, raw object with .calls, close())"""
    if kind in ('buffered', 'raw'):
        raw = SegRaw(segs)
        f = io.BufferedReader(raw) if kind == 'buffered' else raw
        return f, raw, f.close
    a, b = socket.socketpair()
    fs = FedSocket(a.family, a.type, a.proto, fileno=a.detach())
    fs.settimeout(20)
    fs.arm(b, segs)
    f = fs.makefile('rb') if kind == 'socket-buffered' else \
        fs.makefile('rb', 0)

    def close():
        f.close()
        fs.close()
        if fs.peer is not None:
            fs.peer.close()
    return f, fs, close


def split(data, lens):
    out, i = [], 0
    for n in lens:
        out.append(data[i:i + n])
        i += n
    if i != len(data):
        raise ToolError('segmentation %r does not cover %d bytes'
                        % (lens, len(data)))
    return out


def check_decode(ctx, tname, data, counting=False, stream=None, lens=None):
    """stream: None (BytesIO / the counting stream) or one of STREAM_KINDS
    with lens = the segment lengths the bytes are handed out in."""
    T = types()[tname]
    exp = expect(data, T.max_bytes)
    close = None
    if stream is None:
        s = CountingStream(data) if counting else io.BytesIO(data)
    else:
        s, raw, close = open_stream(stream, split(data, lens))
    try:
        try:
            got = ('value', T.read(s))
        except Horizon:
            got = ('horizon',)
        except Exception as e:
            got = ('raise', type(e).__name__)
        if stream is None:
            pos = (s.b if counting else s).tell()
        else:
            raw.calls = -(1 << 30)
            rest = b''
            while True:
                more = s.read(1 << 16)
                if not more:
                    break
                rest += more
            if not data.endswith(rest):
                raise ToolError('stream %s %r of %s returned %s after the '
                                'decode' % (stream, lens, data.hex(),
                                            rest.hex()))
            pos = len(data) - len(rest)
    finally:
        if close is not None:
            close()
    case = {'op': 'decode', 'type': tname, 'data': data}
    key = 'decode %s %s' % (tname, data[:14].hex())
    via = ''
    if stream is not None:
        case.update(stream=stream, lens=list(lens))
        key += ' from %s stream' % stream
        via = ' [%s stream handing out %s]' % (
            stream, ' | '.join(x.hex() for x in split(data, lens)) or 'EOF')
    ctx.outcome('%s:%s' % (got[0], got[1] if got[0] == 'raise' else ''))
    if pos > T.max_bytes + 1 or got[0] == 'horizon':
        ctx.violation(key, '%s.read consumed %d bytes (> %d) from %s%s'
                      % (tname, pos, T.max_bytes + 1, data.hex(), via), case)
        return
    if exp[0] == 'raise':
        if got[0] != 'raise':
            ctx.violation(key, '%s.read(%s)%s returned %r, must raise'
                          % (tname, data.hex(), via, got[1:]), case)
        return
    if got[0] == 'raise':
        if exp[0] == 'value':
            ctx.violation(key, '%s.read(%s)%s raised %s, expected %d'
                          % (tname, data.hex(), via, got[1], exp[1]), case)
        return
    v = got[1]
    if isinstance(v, bool) or not isinstance(v, int) or v < 0 or v != exp[1]:
        ctx.violation(key, '%s.read(%s)%s = %r, expected %d'
                      % (tname, data.hex(), via, v, exp[1]), case)
    elif pos != exp[2]:
        ctx.violation(key, '%s.read(%s)%s left the cursor at %d, expected %d'
                      % (tname, data.hex(), via, pos, exp[2]), case)


class Sink(object):
    def __init__(self):
        self.chunks = []
        self.total = 0

    def send(self, b):
        self.chunks.append(bytes(b))
        self.total += len(b)
        if self.total > 64:
            raise Horizon()


def check_encode(ctx, tname, n, traced=False):
    T = types()[tname]
    case = {'op': 'encode', 'type': tname, 'n': str(n)}
    key = 'encode %s %d' % (tname, n)
    sink = Sink()
    try:
        if traced:
            bounded(T.send, n, sink)
        else:
            T.send(n, sink)
        got = ('bytes', b''.join(sink.chunks))
    except Horizon:
        got = ('horizon',)
    except Exception as e:
        got = ('raise', type(e).__name__)
    ctx.outcome('enc-%s' % got[0])
    if got[0] == 'horizon':
        ctx.violation(key, '%s.send(%d) does not terminate (horizon of %d '
                      'line events / 64 output bytes exceeded)'
                      % (tname, n, HORIZON), case)
        return
    limit = 1 << (32 if tname == 'VarInt' else 64)
    if not 0 <= n < limit:
        return      # outside the stated range only termination is required
    want = ref.varnum(n)
    if got != ('bytes', want):
        ctx.violation(key, '%s.send(%d) -> %r, canonical form is %s'
                      % (tname, n, got[1].hex() if got[0] == 'bytes'
                         else got, want.hex()), case)
        return
    try:
        back = T.read(io.BytesIO(want + b'\xaa'))
    except Exception as e:
        back = e
    if back != n:
        ctx.violation(key, '%s.read(%s) = %r, expected %d'
                      % (tname, want.hex(), back, n), case)
    try:
        size = T.size(n)
    except Exception as e:
        size = e
    if size != len(want):
        ctx.violation(key, '%s.size(%d) = %r, encoded length is %d'
                      % (tname, n, size, len(want)), case)


# -- generators ---------------------------------------------------------------

def shapes():
    """Continuation shapes, each yielded once."""
    seen = set()
    for L in range(1, 14):
        for term in (True, False):
            flags = [0x80] * L
            if term:
                flags[-1] = 0
            bodies = [[p] * L for p in (0x00, 0x01, 0x7F)]
            for i in range(L):
                for d in (0x55, 0x7F):
                    b = [0] * L
                    b[i] = d
                    bodies.append(b)
            for body in bodies:
                s = bytes(f | p for f, p in zip(flags, body))
                if s not in seen:
                    seen.add(s)
                    yield s, term


TRAILERS = (b'', b'\x00', b'\xff\x80')


def w_strings(ctx, task):
    tname, length, first = task
    if length == 0:
        ctx.count()
        check_decode(ctx, tname, b'')
        return
    rest = length - 1
    n = 0
    for tail in range(256 ** rest):
        data = bytes([first]) + tail.to_bytes(rest, 'big')
        check_decode(ctx, tname, data)
        n += 1
    ctx.count(n)
    ctx.note_distinct(n)


def w_encode_range(ctx, task):
    tname, lo, hi = task
    for n in range(lo, hi):
        check_encode(ctx, tname, n)
    ctx.count(hi - lo)
    ctx.note_distinct(hi - lo)


# -- stream kinds ---------------------------------------------------------------

SENTINEL = b'\xa5'


def compositions(n):
    """All 2^(n-1) ways to cut n bytes into non-empty segments (n = 0: the
    one empty segmentation)."""
    if n == 0:
        yield ()
        return
    for mask in range(1 << (n - 1)):
        lens, run = [], 1
        for i in range(n - 1):
            if mask >> i & 1:
                lens.append(run)
                run = 1
            else:
                run += 1
        lens.append(run)
        yield tuple(lens)


def uniform(L, septet, term=True):
    body = bytes([0x80 | septet]) * L
    return body[:-1] + bytes([septet]) if term else body


def stream_cases(kind, thorough):
    """(data, segment lengths, class label), each once."""
    seen = set()

    def put(data, lens, label):
        k = (data, lens)
        if k not in seen:
            seen.add(k)
            out.append((data, lens, label))
    out = []
    sock = kind.startswith('socket')
    for septet in ((0x7F,) if sock else (0x7F, 0x01, 0x55)):
        for L in range(1, 7):
            enc = uniform(L, septet)
            for lens in compositions(L + 1):
                put(enc + SENTINEL, lens,
                    'segment boundary inside the number'
                    if lens[0] < L else 'number within the first segment')
            for k in range(L):
                for lens in compositions(k):
                    put(enc[:k], lens, 'truncated number on a segmented '
                                       'stream' if k else 'empty stream')
    if sock:
        long_shapes = [(uniform(L, 0x7F, t), t) for L in (10, 11)
                       for t in (True, False)]
    elif thorough:
        long_shapes = list(shapes())
    else:
        long_shapes = [(uniform(L, p, t), t) for L in range(7, 14)
                       for p in (0x00, 0x01, 0x7F) for t in (True, False)]
    for sh, term in long_shapes:
        data = sh + SENTINEL
        for cut in range(1, len(data)):
            put(data, (cut, len(data) - cut),
                'long shape cut in two segments')
        put(data, (len(data),), 'long shape in one segment')
    return out


def w_streams(ctx, task):
    tname, kind = task
    for data, lens, label in stream_cases(kind, ctx.thorough):
        ctx.count()
        if data:
            ctx.note_distinct(1)
        check_decode(ctx, tname, data, stream=kind, lens=lens)
        ctx.cls('%s stream: %s' % (kind, label))
    ctx.cls('stream kind %s' % kind)


# -- concurrent encoders / decoders ---------------------------------------------
# Nothing in VarInt/VarLong is meant to be shared between two calls.  Every
# pair of the operations below is run by two threads with every source line
# of the wire-type module a scheduling point (vf/interleave.py); in every
# schedule each thread must observe the reference result.

RACE_MODULES = ('minecraft.networking.types.basic',
                'minecraft.networking.types.utility')
RACE_OPS = [
    ('send', 'VarInt', 300), ('send', 'VarInt', (1 << 32) - 1),
    ('send', 'VarLong', (1 << 40) + 3), ('send', 'VarLong', (1 << 64) - 1),
    ('read', 'VarInt', 'ac02'), ('read', 'VarInt', 'feffffff0f'),
    ('read', 'VarLong', '8380808080200a'),
    ('read', 'VarLong', 'ffffffffffffffffff01'),
    ('size', 'VarInt', 300), ('size', 'VarInt', 1 << 31),
    ('size', 'VarLong', (1 << 62) + 1),
]


class RaceSink(object):
    """Observes a send twice: copies the data at the moment of the call, and
    keeps the object itself to read it when the operation has returned (a
    transport may consume the buffer later)."""

    def __init__(self):
        self.now, self.kept = [], []

    def send(self, data):
        self.now.append(bytes(data))
        self.kept.append(data)
        if len(self.now) > 64:
            raise ValueError('more than 64 send calls')

    def observed(self):
        return (b''.join(self.now).hex(),
                b''.join(bytes(k) for k in self.kept).hex())


def race_reference(op):
    kind, tname, arg = op
    if kind == 'send':
        return ('ok', (ref.varnum(arg).hex(),) * 2)
    if kind == 'size':
        return ('ok', len(ref.varnum(arg)))
    data = bytes.fromhex(arg) + SENTINEL
    exp = expect(data, 5 if tname == 'VarInt' else 10)
    if exp[0] != 'value':
        raise ToolError('race read operand %s is not a plain encoding' % arg)
    return ('ok', (exp[1], exp[2]))


def race_op(op):
    kind, tname, arg = op
    T = types()[tname]

    def send():
        sink = RaceSink()
        T.send(arg, sink)
        return sink.observed()

    def size():
        return T.size(arg)

    def read():
        s = io.BytesIO(bytes.fromhex(arg) + SENTINEL)
        v = T.read(s)
        return (v, s.tell())
    return {'send': send, 'size': size, 'read': read}[kind]


def _tries(ops):
    out = []
    for f in ops:
        try:
            out.append(('ok', f()))
        except Exception as e:
            out.append(('exc', '%s: %s' % (type(e).__name__, e)))
    return out


def race_body(W, params):
    ops = [race_op(o) for o in params['ops']]
    want = [race_reference(o) for o in params['ops']]
    alone = _tries(ops)
    got = interleave.race(W, ops)
    again = _tries(ops)
    viol = []
    for i, o in enumerate(params['ops']):
        what = '%s.%s' % (o[1], o[0])
        other = params['ops'][1 - i]
        note = ' (a send is observed as (bytes copied at each socket.send() ' \
            'call, objects passed to send() read after the operation ' \
            'returned))' if o[0] == 'send' else ''
        if got[i] != want[i]:
            viol.append(('concurrent %s differs' % what,
                         '%s(%s) run concurrently with %s.%s(%s) gave %r; '
                         'the reference says %r, alone it gave %r%s'
                         % (what, o[2], other[1], other[0], other[2],
                            got[i], want[i], alone[i], note)))
        if alone[i] != want[i]:
            viol.append(('before concurrent use %s differs' % what,
                         '%s(%s) alone gave %r, the reference says %r%s'
                         % (what, o[2], alone[i], want[i], note)))
        elif again[i] != want[i]:
            viol.append(('after concurrent use %s differs' % what,
                         '%s(%s) gives %r after the concurrent run, %r '
                         'before%s' % (what, o[2], again[i], alone[i], note)))
    return {'outcome': tuple(got), 'violations': viol}


def race_factory(params):
    def scenario(prefix, expect, visited=None, budget=0):
        return interleave.run(lambda W: race_body(W, params), prefix, expect,
                              budget, modules=RACE_MODULES)
    return scenario


def run_races(ctx, ex):
    bound = 2 if ctx.thorough else 1
    pairs = [(i, j) for i in range(len(RACE_OPS))
             for j in range(i + 1, len(RACE_OPS))]
    execs = 0
    for i, j in pairs:
        res = ex.explore(ctx, race_factory,
                         {'ops': [list(RACE_OPS[i]), list(RACE_OPS[j])]},
                         bound, label='race ')
        execs += res.execs
        ctx.cls('concurrent pair of VarInt/VarLong calls, all schedules')
        if RACE_OPS[i][:2] == RACE_OPS[j][:2]:
            ctx.cls('concurrent pair: same operation, two values')
    ctx.extra['concurrent'] = {
        'operations': len(RACE_OPS), 'pairs': len(pairs),
        'preemption_bound': bound, 'schedules_executed': execs,
        'points': 'every source line of ' + ', '.join(RACE_MODULES)}


REQUIRED_CLASSES = [
    'stream kind buffered', 'stream kind raw', 'stream kind socket-buffered',
    'stream kind socket-unbuffered',
    'buffered stream: segment boundary inside the number',
    'buffered stream: truncated number on a segmented stream',
    'buffered stream: long shape cut in two segments',
    'raw stream: segment boundary inside the number',
    'socket-buffered stream: segment boundary inside the number',
    'socket-buffered stream: truncated number on a segmented stream',
    'socket-unbuffered stream: segment boundary inside the number',
    'negative',
]


def run(ctx):
    use_repo()
    ex = explore.Explorer(memo=False)    # forks its workers before anything runs
    try:
        _run(ctx, ex)
    finally:
        ex.close()


def _run(ctx, ex):
    maxlen = 3 if ctx.thorough else 2
    tasks = []
    for tname in ('VarInt', 'VarLong'):
        tasks.append((tname, 0, 0))
        for L in range(1, maxlen + 1):
            tasks += [(tname, L, f) for f in range(256)]
    ctx.pmap(w_strings, tasks, chunksize=8)
    # shapes, trailers, truncations (instrumented stream: read calls counted)
    done = set()
    for tname in ('VarInt', 'VarLong'):
        for s, term in shapes():
            variants = [s + t for t in TRAILERS] if term else [s]
            variants += [s[:k] for k in range(len(s))]
            for data in variants:
                if (tname, data) in done:
                    continue
                done.add((tname, data))
                ctx.count()
                if data:
                    ctx.note_distinct(1)
                check_decode(ctx, tname, data, counting=True)
                ctx.cls('shape len=%d' % len(data))
    ctx.sample({'decode': 'ff ff ff ff 0f + trailer', 'type': 'VarInt',
                'expect': expect(bytes.fromhex('ffffffff0f00'), 5)})
    ctx.sample({'decode': '80*6 (over-long)', 'type': 'VarInt',
                'expect': expect(b'\x80' * 6, 5)})
    # every kind of stream, every segmentation
    ctx.pmap(w_streams, [(t, k) for t in ('VarInt', 'VarLong')
                         for k in STREAM_KINDS])
    ctx.sample({'decode': 'ac 02 | a5 from a buffered stream in the '
                          'segments ac | 02 a5', 'type': 'VarInt',
                'expect': expect(bytes.fromhex('ac02a5'), 5)})
    # encoding
    top = 1 << (21 if ctx.thorough else 16)
    step = top // 64
    tasks = [(t, lo, lo + step) for t in ('VarInt', 'VarLong')
             for lo in range(0, top, step)]
    ctx.pmap(w_encode_range, tasks)
    extra = set()
    for k in range(0, 78):
        extra |= {(1 << k) - 1, 1 << k, (1 << k) + 1}
    import random
    rnd = random.Random(ctx.seed)
    extra |= {rnd.getrandbits(rnd.choice((24, 31, 32, 40, 63, 64)))
              for _ in range(64)}
    extra = sorted(x for x in extra if x >= top)
    for tname in ('VarInt', 'VarLong'):
        for n in extra:
            ctx.count()
            ctx.note_distinct(1)
            check_encode(ctx, tname, n, traced=True)
        for n in (-1, -2, -128, -(1 << 31), -(1 << 63), -(1 << 70)):
            ctx.count()
            ctx.note_distinct(1)
            ctx.cls('negative')
            check_encode(ctx, tname, n, traced=True)
    ctx.sample({'encode': 300, 'canonical': ref.varnum(300)})
    ctx.extra['decode_max_string_length'] = maxlen
    ctx.extra['encode_exhaustive_below'] = top
    if not ctx.violations:
        run_races(ctx, ex)
    for c in REQUIRED_CLASSES:
        if not ctx.classes.get(c):
            raise ToolError('vacuity guard: class %r was never exercised' % c)


def replay(ctx, case):
    use_repo()
    ctx.count()
    if 'choices' in case:
        x = race_factory(case['params'])(list(case['choices']), None, None,
                                         'replay')
        res = x.result or {}
        viol = list(res.get('violations', ()))
        if x.failure is not None:
            viol.append((x.failure[0], '%s: %s' % x.failure))
        for key, what in viol:
            ctx.violation('race %s' % key, what, case)
        return
    if case['op'] == 'decode':
        if case.get('stream'):
            check_decode(ctx, case['type'], case['data'],
                         stream=case['stream'], lens=tuple(case['lens']))
        else:
            check_decode(ctx, case['type'], case['data'], counting=True)
    else:
        check_encode(ctx, case['type'], int(case['n']), traced=True)
