"""C03 - VarInt/VarLong decoding is bounded; encoding terminates, canonical."""
import io
import socket
import sys

from vf.runner import use_repo, ToolError, Ctx
from vf.refproto import codec as ref
from vf import explore, interleave

LEVEL = 'exploration'
RULE = ('Decoding: every byte string of length <= 2 (quick) / <= 3 (thorough) '
        'and every continuation-bit shape of length 1..13 (terminated or not) '
        'with uniform septets {00,01,7F} or one distinguished septet per '
        'position, followed by 0-2 trailing bytes, plus every strict prefix '
        'of each shape; for VarInt and VarLong, read from a BytesIO (shapes: '
        'from an instrumented stream that counts read calls).  Stream kinds: '
        'every terminated encoding of 1..6 bytes with uniform septets '
        '{7F,01,55}, followed by the sentinel byte a5, is also read from an '
        'io.BufferedReader over a raw stream and from the unbuffered raw '
        'stream itself (short reads) with the bytes handed out in EVERY '
        'segmentation (all compositions of the 2..7 bytes into segments), and '
        'every strict prefix of those encodings in every segmentation (must '
        'raise); every uniform shape of 7..13 bytes (thorough: every shape of '
        '1..13 bytes) + sentinel in every 2-segment cut on both stream kinds; '
        'the 7F encodings of 1..6 bytes in every segmentation, their '
        'prefixes, and the 10- and 11-byte shapes in every 2-segment cut also '
        'through a real socket.socketpair() read with makefile("rb") and '
        'makefile("rb", 0), each recv delivering exactly one segment.  '
        'Encoding: every n < 2^16 '
        '(quick) / 2^21 (thorough), every 2^k-1, 2^k, 2^k+1 for k <= 77, a '
        'seed-derived set, and negatives under a step horizon.  Entry '
        'points: every decode and encode case above runs through T.read / '
        'T.send AND through T.read_with_context / T.send_with_context looked '
        'up on the class and on an instance T() (the way packet fields and '
        'array elements reach the codec); all byte strings of length <= 1, '
        'all shapes and truncations, every n < 2^12 and all structured '
        'encode values also as the one element of PrefixedArray(VarInt, '
        'T).*_with_context; every entry point is judged against the '
        'reference and must agree with the plain one (value or raise, '
        'cursor).  Histories: for every ordered pair (first, next) of 11 '
        'operands (VarInt 0, 1, 127, 128, 300, 2^21, 2^32-1; VarLong 0, 300, '
        '2^35, 2^64-1): first is sent into a sink whose send() raises '
        'BrokenPipeError / InterruptedError / KeyError at its call k = 1, 2 '
        '(thorough: 3; the earlier calls succeed), then next into a fresh '
        'sink / into the same sink; first is read from a stream whose '
        'read() raises ConnectionResetError / InterruptedError / KeyError or '
        'hits the end of the stream at call k, then next is read from a '
        'fresh stream; first is sent into a length-prefixing wrapper whose '
        'send() itself encodes the chunk length as VarInt / VarLong into the '
        'sink below it (nested 1 and 2 deep; every level must have received '
        '<length><chunk> of what the level above received); after each of '
        'these next is encoded through all four entry points, first again, '
        'and next decoded: all canonical.  Histories run 13 after the other '
        '(thorough: each alone) in a fresh fork of a process that has '
        'executed no codec; a reported case names the histories that ran '
        'before it in its process.  A case is '
        'non-trivial unless it is the empty string; all cases are distinct '
        'by construction (enumerated without repetition), counted per '
        'generator.  Concurrency: every pair of 11 operations (VarInt.send, '
        'VarLong.send, VarInt.read, VarLong.read, VarInt.size each with two '
        'multi-byte values, VarLong.size; so every pair of kinds and the same '
        'kind with two values) is run by two threads under the controlled '
        'scheduler with every source line of types/basic.py and '
        'types/utility.py a scheduling point, all schedules with at most 1 '
        '(thorough: 2) preemptions; each thread must observe the reference '
        'result, which is what the operation gives alone, also afterwards; a '
        'send is observed both as the bytes copied at each socket.send() '
        'call and as the objects passed to send() read after the operation '
        'returned.')
ASSUMPTIONS = ['non-termination is judged by a horizon of 20000 traced line '
               'events per call (a correct encoder needs < 100)',
               'the logical position of a stream after decoding is what a '
               'read-to-end on the same stream object still returns (a '
               'buffered reader may have fetched more from its raw stream)',
               'after a failed send only later calls are judged (what '
               'reached the failing sink is not)']

HORIZON = 20000


class Horizon(BaseException):
    pass


def bounded(fn, *args):
    """Run fn under a line-event horizon; Horizon => did not terminate."""
    n = [0]

    def tracer(frame, event, arg):
        n[0] += 1
        if n[0] > HORIZON:
            raise Horizon()
        return tracer
    old = sys.gettrace()
    sys.settrace(tracer)
    try:
        return fn(*args)
    finally:
        sys.settrace(old)


class CountingStream(object):
    def __init__(self, data):
        self.b = io.BytesIO(data)
        self.calls = 0
        self.asked = 0

    def read(self, n=-1):
        self.calls += 1
        self.asked += n if n and n > 0 else 0
        if self.calls > 64:
            raise Horizon()
        return self.b.read(n)


_TYPES = {}


def types():
    if not _TYPES:
        use_repo()
        from minecraft.networking.types import VarInt, VarLong
        _TYPES.update(VarInt=VarInt, VarLong=VarLong)
    return _TYPES


# Entry points.  Packet code never calls read/send directly: fields go
# through T.read_with_context / T.send_with_context, looked up on the class or
# on an instance, and array elements through PrefixedArray.*_with_context.
# Every case is run through all of them; each is judged against the reference
# and they must agree with each other.
VIAS = ('plain', 'class-ctx', 'instance-ctx')
ARRAY = 'array-ctx'
_CC = {}


def conn_context():
    if 'c' not in _CC:
        use_repo()
        from minecraft.networking.connection import ConnectionContext
        _CC['c'] = ConnectionContext(protocol_version=578)
    return _CC['c']


def array_of(tname):
    """PrefixedArray(VarInt, T) - built per call, it is cheap and must not
    carry anything from one case to the next"""
    from minecraft.networking.types import PrefixedArray
    T = types()
    return PrefixedArray(T['VarInt'], T[tname])


def read_via(via, tname, s):
    T = types()[tname]
    if via == 'plain':
        return T.read(s)
    if via == 'class-ctx':
        return T.read_with_context(s, conn_context())
    if via == 'instance-ctx':
        return T().read_with_context(s, conn_context())
    if via == ARRAY:
        got = array_of(tname).read_with_context(s, conn_context())
        if not isinstance(got, list) or len(got) != 1:
            raise ArrayShape(got)
        return got[0]
    raise ToolError('unknown entry point %r' % (via,))


def send_via(via, tname, n, sink):
    T = types()[tname]
    if via == 'plain':
        return T.send(n, sink)
    if via == 'class-ctx':
        return T.send_with_context(n, sink, conn_context())
    if via == 'instance-ctx':
        return T().send_with_context(n, sink, conn_context())
    if via == ARRAY:
        return array_of(tname).send_with_context([n], sink, conn_context())
    raise ToolError('unknown entry point %r' % (via,))


def via_text(tname, via, what):
    return {'plain': '%s.%s' % (tname, what),
            'class-ctx': '%s.%s_with_context' % (tname, what),
            'instance-ctx': '%s().%s_with_context' % (tname, what),
            ARRAY: 'PrefixedArray(VarInt, %s).%s_with_context [one element]'
                   % (tname, what)}[via]


class ArrayShape(Exception):
    """an array of one element did not come back as a list of one"""


def expect(data, max_bytes):
    """Reference verdict for decoding data from offset 0.
    -> ('value', v, used) | ('either', v, used) | ('raise', max_read)"""
    v = 0
    for i, b in enumerate(data):
        if i > max_bytes:           # 0..max_bytes => at most max_bytes+1 read
            return ('raise', max_bytes + 1)
        v |= (b & 0x7F) << (7 * i)
        if b < 0x80:
            if i + 1 <= max_bytes:
                return ('value', v, i + 1)
            return ('either', v, i + 1)
    if len(data) > max_bytes:
        return ('raise', max_bytes + 1)
    return ('raise', len(data))      # end of stream inside the number


class SegRaw(io.RawIOBase):
    """Raw stream that hands out its bytes segment by segment: one readinto
    never crosses a segment boundary (short reads), EOF after the last."""

    def __init__(self, segs):
        io.RawIOBase.__init__(self)
        self.segs = [bytes(x) for x in segs if x]
        self.calls = 0

    def readable(self):
        return True

    def readinto(self, b):
        self.calls += 1
        if self.calls > 64:
            raise Horizon()
        if not self.segs:
            return 0
        seg = self.segs[0]
        n = min(len(b), len(seg))
        b[:n] = seg[:n]
        if n == len(seg):
            self.segs.pop(0)
        else:
            self.segs[0] = seg[n:]
        return n


class FedSocket(socket.socket):
    """The reading end of a real socketpair whose peer sends the next segment
    exactly when this end asks the kernel for data, and shuts down after the
    last: every recv sees one segment, deterministically."""

    def arm(self, peer, segs):
        self.peer, self.todo, self.calls = peer, [x for x in segs if x], 0

    def recv_into(self, *a, **kw):
        self.calls += 1
        if self.calls > 64:
            raise Horizon()
        if self.todo:
            self.peer.sendall(self.todo.pop(0))
        elif self.peer is not None:
            self.peer.shutdown(socket.SHUT_WR)
            self.peer.close()
            self.peer = None
        return socket.socket.recv_into(self, *a, **kw)


STREAM_KINDS = ('buffered', 'raw', 'socket-buffered', 'socket-unbuffered')


def open_stream(kind, segs):
    """-> (file object to decode from, raw object with .calls, close())"""
    if kind in ('buffered', 'raw'):
        raw = SegRaw(segs)
        f = io.BufferedReader(raw) if kind == 'buffered' else raw
        return f, raw, f.close
    a, b = socket.socketpair()
    fs = FedSocket(a.family, a.type, a.proto, fileno=a.detach())
    fs.settimeout(20)
    fs.arm(b, segs)
    f = fs.makefile('rb') if kind == 'socket-buffered' else \
        fs.makefile('rb', 0)

    def close():
        f.close()
        fs.close()
        if fs.peer is not None:
            fs.peer.close()
    return f, fs, close


def split(data, lens):
    out, i = [], 0
    for n in lens:
        out.append(data[i:i + n])
        i += n
    if i != len(data):
        raise ToolError('segmentation %r does not cover %d bytes'
                        % (lens, len(data)))
    return out


def decode_once(tname, data, counting, stream, lens, via):
    """-> (('value', v) | ('raise', name) | ('horizon',), bytes consumed)"""
    close = None
    lead = b'\x01' if via == ARRAY else b''
    if stream is None:
        s = CountingStream(lead + data) if counting else \
            io.BytesIO(lead + data)
    elif lead:
        raise ToolError('the array entry point is not used on stream kinds')
    else:
        s, raw, close = open_stream(stream, split(data, lens))
    try:
        try:
            got = ('value', read_via(via, tname, s))
        except Horizon:
            got = ('horizon',)
        except Exception as e:
            got = ('raise', type(e).__name__)
        if stream is None:
            pos = max(0, (s.b if counting else s).tell() - len(lead))
        else:
            raw.calls = -(1 << 30)
            rest = b''
            while True:
                more = s.read(1 << 16)
                if not more:
                    break
                rest += more
            if not data.endswith(rest):
                raise ToolError('stream %s %r of %s returned %s after the '
                                'decode' % (stream, lens, data.hex(),
                                            rest.hex()))
            pos = len(data) - len(rest)
    finally:
        if close is not None:
            close()
    return got, pos


def check_decode(ctx, tname, data, counting=False, stream=None, lens=None,
                 array=False):
    """stream: None (BytesIO / the counting stream) or one of STREAM_KINDS
    with lens = the segment lengths the bytes are handed out in.  Every entry
    point of VIAS (array: also as the one element of an array)."""
    T = types()[tname]
    exp = expect(data, T.max_bytes)
    case = {'op': 'decode', 'type': tname, 'data': data}
    key = 'decode %s %s' % (tname, data[:14].hex())
    at = ''
    if stream is not None:
        case.update(stream=stream, lens=list(lens))
        key += ' from %s stream' % stream
        at = ' [%s stream handing out %s]' % (
            stream, ' | '.join(x.hex() for x in split(data, lens)) or 'EOF')
    if array:
        case['array'] = 1
    plain = None
    for via in VIAS + ((ARRAY,) if array else ()):
        got, pos = decode_once(tname, data, counting, stream, lens, via)
        ctx.outcome('%s:%s' % (got[0], got[1] if got[0] == 'raise' else ''))
        call = via_text(tname, via, 'read')
        if via == 'plain':
            plain = (got, pos)
            judge_decode(ctx, tname, data, exp, got, pos, key, call, at, case)
            continue
        ctx.cls('decode through %s' % via)
        k = '%s via %s' % (key, via)
        judge_decode(ctx, tname, data, exp, got, pos, k, call, at, case)
        if (got, pos) != plain and k not in ctx.violations:
            ctx.violation(k, '%s(%s)%s gave %r and consumed %d byte(s), '
                          '%s.read on the same input gave %r and consumed '
                          '%d: the entry points must agree'
                          % (call, data.hex(), at, got, pos, tname,
                             plain[0], plain[1]), case)


def judge_decode(ctx, tname, data, exp, got, pos, key, call, via, case):
    T = types()[tname]
    if pos > T.max_bytes + 1 or got[0] == 'horizon':
        ctx.violation(key, '%s consumed %d bytes (> %d) from %s%s'
                      % (call, pos, T.max_bytes + 1, data.hex(), via), case)
        return
    if exp[0] == 'raise':
        if got[0] != 'raise':
            ctx.violation(key, '%s(%s)%s returned %r, must raise'
                          % (call, data.hex(), via, got[1:]), case)
        return
    if got[0] == 'raise':
        if exp[0] == 'value':
            ctx.violation(key, '%s(%s)%s raised %s, expected %d'
                          % (call, data.hex(), via, got[1], exp[1]), case)
        return
    v = got[1]
    if isinstance(v, bool) or not isinstance(v, int) or v < 0 or v != exp[1]:
        ctx.violation(key, '%s(%s)%s = %r, expected %d'
                      % (call, data.hex(), via, v, exp[1]), case)
    elif pos != exp[2]:
        ctx.violation(key, '%s(%s)%s left the cursor at %d, expected %d'
                      % (call, data.hex(), via, pos, exp[2]), case)


class Sink(object):
    def __init__(self):
        self.chunks = []
        self.total = 0

    def send(self, b):
        self.chunks.append(bytes(b))
        self.total += len(b)
        if self.total > 64:
            raise Horizon()


ARRAY_BELOW = 1 << 12       # encode: the array entry point for n below this
ARRAY_LEN = 1               # decode: ... for all byte strings up to this length


def encode_once(tname, n, traced, via):
    sink = Sink()
    conn_context()          # (imports are not part of the traced call)
    try:
        if traced:
            bounded(send_via, via, tname, n, sink)
        else:
            send_via(via, tname, n, sink)
        return ('bytes', b''.join(sink.chunks))
    except Horizon:
        return ('horizon',)
    except Exception as e:
        return ('raise', type(e).__name__)


def check_encode(ctx, tname, n, traced=False, array=None):
    """Through every entry point of VIAS; array (default: for the traced
    cases and n < ARRAY_BELOW): also as the one element of an array."""
    T = types()[tname]
    case = {'op': 'encode', 'type': tname, 'n': str(n)}
    if array is None:
        array = traced or 0 <= n < ARRAY_BELOW
    limit = 1 << (32 if tname == 'VarInt' else 64)
    want = ref.varnum(n) if 0 <= n < limit else None
    for via in VIAS + ((ARRAY,) if array else ()):
        key = 'encode %s %d' % (tname, n)
        call = via_text(tname, via, 'send')
        lead = b''
        if via != 'plain':
            key += ' via %s' % via
            ctx.cls('encode through %s' % via)
        if via == ARRAY:
            lead = b'\x01'
        got = encode_once(tname, n, traced, via)
        ctx.outcome('enc-%s' % got[0])
        if got[0] == 'horizon':
            ctx.violation(key, '%s(%d) does not terminate (horizon of %d '
                          'line events / 64 output bytes exceeded)'
                          % (call, n, HORIZON), case)
            continue
        if want is None:
            continue    # outside the stated range only termination is required
        if got != ('bytes', lead + want):
            ctx.violation(key, '%s(%d) -> %r, canonical form is %s'
                          % (call, n, got[1].hex() if got[0] == 'bytes'
                             else got, (lead + want).hex()), case)
            continue
        try:
            s = io.BytesIO(lead + want + b'\xaa')
            back = (read_via(via, tname, s), s.tell() - len(lead))
        except Exception as e:
            back = e
        if back != (n, len(want)):
            ctx.violation(key, '%s(%s + aa) = %r, expected %r (value, bytes '
                          'consumed)' % (via_text(tname, via, 'read'),
                                         (lead + want).hex(), back,
                                         (n, len(want))), case)
    if want is None:
        return
    try:
        size = T.size(n)
    except Exception as e:
        size = e
    if size != len(want):
        ctx.violation('encode %s %d' % (tname, n),
                      '%s.size(%d) = %r, encoded length is %d'
                      % (tname, n, size, len(want)), case)


# -- generators ---------------------------------------------------------------

def shapes():
    """Continuation shapes, each yielded once."""
    seen = set()
    for L in range(1, 14):
        for term in (True, False):
            flags = [0x80] * L
            if term:
                flags[-1] = 0
            bodies = [[p] * L for p in (0x00, 0x01, 0x7F)]
            for i in range(L):
                for d in (0x55, 0x7F):
                    b = [0] * L
                    b[i] = d
                    bodies.append(b)
            for body in bodies:
                s = bytes(f | p for f, p in zip(flags, body))
                if s not in seen:
                    seen.add(s)
                    yield s, term


TRAILERS = (b'', b'\x00', b'\xff\x80')


def w_strings(ctx, task):
    tname, length, first = task
    if length == 0:
        ctx.count()
        check_decode(ctx, tname, b'', array=True)
        return
    rest = length - 1
    n = 0
    for tail in range(256 ** rest):
        data = bytes([first]) + tail.to_bytes(rest, 'big')
        check_decode(ctx, tname, data, array=length <= ARRAY_LEN)
        n += 1
    ctx.count(n)
    ctx.note_distinct(n)


def w_encode_range(ctx, task):
    tname, lo, hi = task
    for n in range(lo, hi):
        check_encode(ctx, tname, n)
    ctx.count(hi - lo)
    ctx.note_distinct(hi - lo)


# -- stream kinds ---------------------------------------------------------------

SENTINEL = b'\xa5'


def compositions(n):
    """All 2^(n-1) ways to cut n bytes into non-empty segments (n = 0: the
    one empty segmentation)."""
    if n == 0:
        yield ()
        return
    for mask in range(1 << (n - 1)):
        lens, run = [], 1
        for i in range(n - 1):
            if mask >> i & 1:
                lens.append(run)
                run = 1
            else:
                run += 1
        lens.append(run)
        yield tuple(lens)


def uniform(L, septet, term=True):
    body = bytes([0x80 | septet]) * L
    return body[:-1] + bytes([septet]) if term else body


def stream_cases(kind, thorough):
    """(data, segment lengths, class label), each once."""
    seen = set()

    def put(data, lens, label):
        k = (data, lens)
        if k not in seen:
            seen.add(k)
            out.append((data, lens, label))
    out = []
    sock = kind.startswith('socket')
    for septet in ((0x7F,) if sock else (0x7F, 0x01, 0x55)):
        for L in range(1, 7):
            enc = uniform(L, septet)
            for lens in compositions(L + 1):
                put(enc + SENTINEL, lens,
                    'segment boundary inside the number'
                    if lens[0] < L else 'number within the first segment')
            for k in range(L):
                for lens in compositions(k):
                    put(enc[:k], lens, 'truncated number on a segmented '
                                       'stream' if k else 'empty stream')
    if sock:
        long_shapes = [(uniform(L, 0x7F, t), t) for L in (10, 11)
                       for t in (True, False)]
    elif thorough:
        long_shapes = list(shapes())
    else:
        long_shapes = [(uniform(L, p, t), t) for L in range(7, 14)
                       for p in (0x00, 0x01, 0x7F) for t in (True, False)]
    for sh, term in long_shapes:
        data = sh + SENTINEL
        for cut in range(1, len(data)):
            put(data, (cut, len(data) - cut),
                'long shape cut in two segments')
        put(data, (len(data),), 'long shape in one segment')
    return out


def w_streams(ctx, task):
    tname, kind = task
    for data, lens, label in stream_cases(kind, ctx.thorough):
        ctx.count()
        if data:
            ctx.note_distinct(1)
        check_decode(ctx, tname, data, stream=kind, lens=lens)
        ctx.cls('%s stream: %s' % (kind, label))
    ctx.cls('stream kind %s' % kind)


# -- histories: failed and re-entrant sends --------------------------------------
# An encoder must not carry anything from one call to the next: not when the
# sink's send() raised (the peer closed the connection, a signal interrupted
# the call, a wrapper object failed), and not when the sink's send() itself
# encodes a number (a length-prefixing wrapper) while the outer call is still
# in progress.  Every history runs in a fresh fork, so nothing it leaves
# behind reaches another one and a replay meets the same start state.

FAIL_KINDS = ('BrokenPipeError', 'InterruptedError', 'KeyError')
H_OPS = [('VarInt', 0), ('VarInt', 1), ('VarInt', 127), ('VarInt', 128),
         ('VarInt', 300), ('VarInt', 1 << 21), ('VarInt', (1 << 32) - 1),
         ('VarLong', 0), ('VarLong', 300), ('VarLong', 1 << 35),
         ('VarLong', (1 << 64) - 1)]
FILL = 1 << 14          # sent successfully before the failing call (3 bytes)
H_CHUNK = 13            # quick: histories run one after the other per fork


def make_exc(kind):
    return {'BrokenPipeError': BrokenPipeError(32, 'Broken pipe'),
            'InterruptedError': InterruptedError(4, 'Interrupted system '
                                                    'call'),
            'TimeoutError': TimeoutError('timed out'),
            'BlockingIOError': BlockingIOError(
                11, 'Resource temporarily unavailable'),
            'KeyError': KeyError('sink')}[kind]


class FailingSink(Sink):
    """send() raises at its k-th call (only then), works otherwise."""

    def __init__(self, k, kind):
        Sink.__init__(self)
        self.k, self.kind, self.calls, self.failed = k, kind, 0, None

    def send(self, b):
        self.calls += 1
        if self.calls == self.k:
            self.failed = bytes(b)
            raise make_exc(self.kind)
        Sink.send(self, b)


READ_FAILS = ('ConnectionResetError', 'InterruptedError', 'KeyError',
              'TimeoutError', 'BlockingIOError', 'end of stream')


class FailingStream(object):
    """read() raises at its k-th call ('end of stream': returns nothing from
    then on), hands out the data otherwise"""

    def __init__(self, data, k, kind):
        self.b, self.k, self.kind = io.BytesIO(data), k, kind
        self.calls, self.failed = 0, False

    def read(self, n=-1):
        self.calls += 1
        if self.calls > 64:
            raise Horizon()
        if self.calls >= self.k and self.kind == 'end of stream':
            self.failed = True
            return b''
        if self.calls == self.k:
            self.failed = True
            raise ConnectionResetError(104, 'Connection reset by peer') \
                if self.kind == 'ConnectionResetError' \
                else make_exc(self.kind)
        return self.b.read(n)

    def refill(self, data):
        """the same object, from now on an ordinary stream over `data` (a
        reader that keeps one buffer object and refills it per message)"""
        self.b, self.k, self.kind, self.calls = io.BytesIO(data), 0, None, 0


class PrefixSink(object):
    """A length-prefixing wrapper: every chunk handed to send() is written to
    the inner sink as <length as VarInt/VarLong> <chunk>."""

    def __init__(self, inner, tname):
        self.inner, self.tname, self.chunks = inner, tname, []

    def send(self, b):
        self.chunks.append(bytes(b))
        if len(self.chunks) > 64:
            raise Horizon()
        types()[self.tname].send(len(b), self.inner)
        self.inner.send(b)


def hsend(via, tname, n, sink):
    conn_context()          # (imports are not part of the traced call)
    try:
        bounded(send_via, via, tname, n, sink)
        return 'ok'
    except Horizon:
        return 'horizon'
    except Exception as e:
        return 'raise ' + type(e).__name__


def histories(thorough):
    out = []
    for first in H_OPS:
        for nxt in H_OPS:
            for kind in FAIL_KINDS:
                for k in ((1, 2, 3) if thorough else (1, 2)):
                    for target in ('fresh', 'same'):
                        out.append({'kind': 'fail', 'first': first,
                                    'next': nxt, 'exc': kind, 'k': k,
                                    'target': target})
            for kind in READ_FAILS:
                for k in ((1, 2, 3) if thorough else (1, 2)):
                    out.append({'kind': 'readfail', 'first': first,
                                'next': nxt, 'exc': kind, 'k': k})
            for tp in ('VarInt', 'VarLong'):
                for depth in (1, 2):
                    out.append({'kind': 'reenter', 'first': first,
                                'next': nxt, 'prefix': tp, 'depth': depth})
    return out


def h_case(h):
    c = dict(h)
    c['op'] = 'history'
    c['first'] = [h['first'][0], str(h['first'][1])]
    c['next'] = [h['next'][0], str(h['next'][1])]
    return c


def h_uncase(c):
    h = dict(c)
    h.pop('op', None)
    h.pop('before', None)
    h['first'] = (c['first'][0], int(c['first'][1]))
    h['next'] = (c['next'][0], int(c['next'][1]))
    return h


def run_history(ctx, h, before=()):
    """before: the histories already executed in this process (part of the
    case: a replay runs them first)"""
    t1, n1 = h['first']
    t2, n2 = h['next']
    case = h_case(h)
    if before:
        case['before'] = [h_case(x) for x in before]
    ctx.count()
    ctx.note_distinct(1)
    if h['kind'] == 'fail':
        k, kind = h['k'], h['exc']
        pre = 'after %s.send(%d) into a sink whose send() raised %s at its ' \
            'call %d' % (t1, n1, kind, k)
        F = FailingSink(k, kind)
        for i in range(k - 1):
            r = hsend('plain', t1, FILL, F)
            if F.failed is None and (
                    r != 'ok' or b''.join(F.chunks) !=
                    ref.varnum(FILL) * (i + 1)):
                ctx.violation('%s: the sends before the failure' % pre,
                              '%s.send(%d) number %d into the sink gave %s, '
                              'sink holds %s' % (t1, FILL, i + 1, r,
                                                 b''.join(F.chunks).hex()),
                              case)
        r = hsend('plain', t1, n1, F)
        ctx.outcome('send into a failing sink: %s' % r)
        if F.failed is not None and r == 'raise ' + kind:
            ctx.cls('history: send failed with %s' % kind)
        target = F if h['target'] == 'same' else Sink()
        where = 'the same sink (working again)' if target is F \
            else 'a fresh sink'
    elif h['kind'] == 'readfail':
        k, kind = h['k'], h['exc']
        enc = ref.varnum(n1)
        pre = 'after %s.read(%s) from a stream whose read() %s at its call ' \
            '%d' % (t1, enc.hex(), 'returned nothing' if
                    kind == 'end of stream' else 'raised ' + kind, k)
        st = FailingStream(enc + SENTINEL, k, kind)
        try:
            r = 'value' if types()[t1].read(st) == n1 else 'other value'
        except Horizon:
            r = 'horizon'
        except Exception as e:
            r = 'raise ' + type(e).__name__
        ctx.outcome('read from a failing stream: %s' % r)
        if st.failed and r.startswith('raise'):
            ctx.cls('history: read failed with %s' % kind)
        if r == 'horizon':
            ctx.violation('%s.read(%s) from a failing stream' % (t1,
                                                                enc.hex()),
                          '%s.read made more than 64 read() calls on a '
                          'stream over %s whose read() %s at call %d'
                          % (t1, enc.hex(), 'returned nothing' if
                             kind == 'end of stream' else 'raised ' + kind,
                             k), case)
        # the same stream object, refilled: what it yields now is all that
        # may matter, not what happened to a read on it before
        enc2 = ref.varnum(n2)
        st.refill(enc2 + SENTINEL)
        try:
            back = (types()[t2].read(st), st.b.tell())
        except BaseException as e:
            back = e
        ctx.cls('history: failed read, then the same stream object refilled')
        if back != (n2, len(enc2)):
            ctx.violation('%s: %s.read on the same stream object refilled'
                          % (pre, t2),
                          '%s, the same stream object was given the new '
                          'content %s + a5: %s.read = %r, expected %r'
                          % (pre, enc2.hex(), t2, back, (n2, len(enc2))),
                          case)
        target = Sink()
        where = 'a fresh sink'
    else:
        tp, depth = h['prefix'], h['depth']
        pre = 'after %s.send(%d) into a length-prefixing sink (%s lengths, ' \
            'depth %d)' % (t1, n1, tp, depth)
        chain = [Sink()]
        for _ in range(depth):
            chain.append(PrefixSink(chain[-1], tp))
        r = hsend('plain', t1, n1, chain[-1])
        ctx.cls('history: re-entrant send')
        top = b''.join(chain[-1].chunks)
        bad = None
        if r != 'ok' or top != ref.varnum(n1):
            bad = 'the call gave %s and handed %s to the sink, canonical ' \
                'form is %s' % (r, top.hex(), ref.varnum(n1).hex())
        else:
            for lvl in range(depth, 0, -1):
                w, below = chain[lvl], chain[lvl - 1]
                want = b''.join(ref.varnum(len(c)) + c for c in w.chunks)
                got = b''.join(below.chunks)
                if got != want:
                    bad = 'the wrapper at depth %d received the chunks %s ' \
                        'and wrote <length><chunk> for each, the sink below ' \
                        'it received %s instead of %s' % (
                            depth - lvl + 1,
                            [c.hex() for c in w.chunks], got.hex(),
                            want.hex())
                    break
        if bad:
            ctx.violation('%s.send(%d) into a length-prefixing sink (%s '
                          'lengths, depth %d)' % (t1, n1, tp, depth),
                          '%s.send(%d) into a sink whose send() writes the '
                          'length of each chunk as a %s and then the chunk '
                          '(nested %d deep): %s' % (t1, n1, tp, depth, bad),
                          case)
        target = Sink()
        where = 'a fresh sink'
    if h['kind'] == 'readfail':
        h_read_back(ctx, pre, t2, n2, case)     # the next decode comes first
    # the next number, and everything after it, must be canonical again
    steps = [('plain', t2, n2, target)]
    steps += [(via, t2, n2, Sink()) for via in VIAS[1:] + (ARRAY,)]
    steps += [('plain', t1, n1, Sink())]
    for i, (via, t, n, sink) in enumerate(steps):
        before = b''.join(sink.chunks)
        r = hsend(via, t, n, sink)
        got = b''.join(sink.chunks)[len(before):]
        want = (b'\x01' if via == ARRAY else b'') + ref.varnum(n)
        ctx.outcome('send after a history: %s' % r)
        if r != 'ok' or got != want:
            ctx.violation('%s: %s(%d)%s' % (pre, via_text(t, via, 'send'), n,
                                            '' if i == 0 else ' (call %d '
                                            'after it)' % (i + 1)),
                          '%s, call %d afterwards: %s(%d) into %s gave %s '
                          'and wrote %s, canonical form is %s'
                          % (pre, i + 1, via_text(t, via, 'send'), n,
                             where if i == 0 else 'a fresh sink', r,
                             got.hex(), want.hex()), case)
    h_read_back(ctx, pre, t2, n2, case)


def h_read_back(ctx, pre, t2, n2, case):
    for via in VIAS:
        try:
            s = io.BytesIO(ref.varnum(n2) + b'\xaa')
            back = (read_via(via, t2, s), s.tell())
        except Exception as e:
            back = e
        if back != (n2, len(ref.varnum(n2))):
            ctx.violation('%s: %s' % (pre, via_text(t2, via, 'read')),
                          '%s: %s(%s + aa) = %r, expected %r'
                          % (pre, via_text(t2, via, 'read'),
                             ref.varnum(n2).hex(), back,
                             (n2, len(ref.varnum(n2)))), case)


def _history_child(proto, hs):
    sub = Ctx(*proto)
    for j, h in enumerate(hs):
        run_history(sub, h, hs[:j])
    return sub.export()


def w_histories(ctx, task):
    """task: histories executed one after the other in ONE fresh fork"""
    proto = (ctx.pid, ctx.tier, ctx.seed, ctx.level)
    types()                 # imports only: the fork inherits them
    conn_context()
    ctx.absorb(explore.in_child(_history_child, proto, task))
    ctx.cls('history: fresh process')


# -- concurrent encoders / decoders ---------------------------------------------
# Nothing in VarInt/VarLong is meant to be shared between two calls.  Every
# pair of the operations below is run by two threads with every source line
# of the wire-type module a scheduling point (vf/interleave.py); in every
# schedule each thread must observe the reference result.

RACE_MODULES = ('minecraft.networking.types.basic',
                'minecraft.networking.types.utility')
RACE_OPS = [
    ('send', 'VarInt', 300), ('send', 'VarInt', (1 << 32) - 1),
    ('send', 'VarLong', (1 << 40) + 3), ('send', 'VarLong', (1 << 64) - 1),
    ('read', 'VarInt', 'ac02'), ('read', 'VarInt', 'feffffff0f'),
    ('read', 'VarLong', '8380808080200a'),
    ('read', 'VarLong', 'ffffffffffffffffff01'),
    ('size', 'VarInt', 300), ('size', 'VarInt', 1 << 31),
    ('size', 'VarLong', (1 << 62) + 1),
]


class RaceSink(object):
    """Observes a send twice: copies the data at the moment of the call, and
    keeps the object itself to read it when the operation has returned (a
    transport may consume the buffer later)."""

    def __init__(self):
        self.now, self.kept = [], []

    def send(self, data):
        self.now.append(bytes(data))
        self.kept.append(data)
        if len(self.now) > 64:
            raise ValueError('more than 64 send calls')

    def observed(self):
        return (b''.join(self.now).hex(),
                b''.join(bytes(k) for k in self.kept).hex())


def race_reference(op):
    kind, tname, arg = op
    if kind == 'send':
        return ('ok', (ref.varnum(arg).hex(),) * 2)
    if kind == 'size':
        return ('ok', len(ref.varnum(arg)))
    data = bytes.fromhex(arg) + SENTINEL
    exp = expect(data, 5 if tname == 'VarInt' else 10)
    if exp[0] != 'value':
        raise ToolError('race read operand %s is not a plain encoding' % arg)
    return ('ok', (exp[1], exp[2]))


def race_op(op):
    kind, tname, arg = op
    T = types()[tname]

    def send():
        sink = RaceSink()
        T.send(arg, sink)
        return sink.observed()

    def size():
        return T.size(arg)

    def read():
        s = io.BytesIO(bytes.fromhex(arg) + SENTINEL)
        v = T.read(s)
        return (v, s.tell())
    return {'send': send, 'size': size, 'read': read}[kind]


def _tries(ops):
    out = []
    for f in ops:
        try:
            out.append(('ok', f()))
        except Exception as e:
            out.append(('exc', '%s: %s' % (type(e).__name__, e)))
    return out


def race_body(W, params):
    ops = [race_op(o) for o in params['ops']]
    want = [race_reference(o) for o in params['ops']]
    alone = _tries(ops)
    got = interleave.race(W, ops)
    again = _tries(ops)
    viol = []
    for i, o in enumerate(params['ops']):
        what = '%s.%s' % (o[1], o[0])
        other = params['ops'][1 - i]
        note = ' (a send is observed as (bytes copied at each socket.send() ' \
            'call, objects passed to send() read after the operation ' \
            'returned))' if o[0] == 'send' else ''
        if got[i] != want[i]:
            viol.append(('concurrent %s differs' % what,
                         '%s(%s) run concurrently with %s.%s(%s) gave %r; '
                         'the reference says %r, alone it gave %r%s'
                         % (what, o[2], other[1], other[0], other[2],
                            got[i], want[i], alone[i], note)))
        if alone[i] != want[i]:
            viol.append(('before concurrent use %s differs' % what,
                         '%s(%s) alone gave %r, the reference says %r%s'
                         % (what, o[2], alone[i], want[i], note)))
        elif again[i] != want[i]:
            viol.append(('after concurrent use %s differs' % what,
                         '%s(%s) gives %r after the concurrent run, %r '
                         'before%s' % (what, o[2], again[i], alone[i], note)))
    return {'outcome': tuple(got), 'violations': viol}


def race_factory(params):
    def scenario(prefix, expect, visited=None, budget=0):
        return interleave.run(lambda W: race_body(W, params), prefix, expect,
                              budget, modules=RACE_MODULES)
    return scenario


def run_races(ctx, ex):
    bound = 2 if ctx.thorough else 1
    pairs = [(i, j) for i in range(len(RACE_OPS))
             for j in range(i + 1, len(RACE_OPS))]
    execs = 0
    for i, j in pairs:
        res = ex.explore(ctx, race_factory,
                         {'ops': [list(RACE_OPS[i]), list(RACE_OPS[j])]},
                         bound, label='race ')
        execs += res.execs
        ctx.cls('concurrent pair of VarInt/VarLong calls, all schedules')
        if RACE_OPS[i][:2] == RACE_OPS[j][:2]:
            ctx.cls('concurrent pair: same operation, two values')
    ctx.extra['concurrent'] = {
        'operations': len(RACE_OPS), 'pairs': len(pairs),
        'preemption_bound': bound, 'schedules_executed': execs,
        'points': 'every source line of ' + ', '.join(RACE_MODULES)}


REQUIRED_CLASSES = [
    'stream kind buffered', 'stream kind raw', 'stream kind socket-buffered',
    'stream kind socket-unbuffered',
    'buffered stream: segment boundary inside the number',
    'buffered stream: truncated number on a segmented stream',
    'buffered stream: long shape cut in two segments',
    'raw stream: segment boundary inside the number',
    'socket-buffered stream: segment boundary inside the number',
    'socket-buffered stream: truncated number on a segmented stream',
    'socket-unbuffered stream: segment boundary inside the number',
    'negative',
    'decode through class-ctx', 'decode through instance-ctx',
    'decode through array-ctx', 'encode through class-ctx',
    'encode through instance-ctx', 'encode through array-ctx',
    'history: send failed with BrokenPipeError',
    'history: send failed with InterruptedError',
    'history: send failed with KeyError', 'history: re-entrant send',
    'history: read failed with ConnectionResetError',
    'history: read failed with InterruptedError',
    'history: read failed with KeyError',
    'history: read failed with TimeoutError',
    'history: read failed with BlockingIOError',
    'history: failed read, then the same stream object refilled',
    'history: read failed with end of stream', 'history: fresh process',
]


def run(ctx):
    use_repo()
    ex = explore.Explorer(memo=False)    # forks its workers before anything runs
    try:
        _run(ctx, ex)
    finally:
        ex.close()


def _run(ctx, ex):
    # histories first: their forks start from a process that has not run
    # any codec yet
    hs = histories(ctx.thorough)
    per = 1 if ctx.thorough else H_CHUNK
    hctx = ctx.fork()
    hctx.pmap(w_histories, [hs[i:i + per] for i in range(0, len(hs), per)])
    _rest(ctx, ex, bool(hctx.violations))
    # what the histories found is reported unless the plain cases already
    # fail (then 'X is wrong after a history' says nothing new)
    if ctx.violations and hctx.violations:
        ctx.extra['history_violations_not_reported'] = len(hctx.violations)
        hctx.violations = {}
    ctx.absorb(hctx)
    ctx.extra['histories'] = {
        'histories per fresh process': per,
        'failed send then next send': sum(h['kind'] == 'fail' for h in hs),
        'failed read then next read and send': sum(h['kind'] == 'readfail'
                                                   for h in hs),
        're-entrant send then next send': sum(h['kind'] == 'reenter'
                                              for h in hs),
        'operations': len(H_OPS), 'exceptions': list(FAIL_KINDS)}
    ctx.sample({'history': 'VarInt.send(300) into a sink that raises '
                           'BrokenPipeError, then VarInt.send(0) into a '
                           'fresh sink', 'expect': ref.varnum(0)})
    for c in REQUIRED_CLASSES:
        if not ctx.classes.get(c):
            raise ToolError('vacuity guard: class %r was never exercised' % c)


def _rest(ctx, ex, skip_races):
    maxlen = 3 if ctx.thorough else 2
    tasks = []
    for tname in ('VarInt', 'VarLong'):
        tasks.append((tname, 0, 0))
        for L in range(1, maxlen + 1):
            tasks += [(tname, L, f) for f in range(256)]
    ctx.pmap(w_strings, tasks, chunksize=8)
    # shapes, trailers, truncations (instrumented stream: read calls counted)
    done = set()
    for tname in ('VarInt', 'VarLong'):
        for s, term in shapes():
            variants = [s + t for t in TRAILERS] if term else [s]
            variants += [s[:k] for k in range(len(s))]
            for data in variants:
                if (tname, data) in done:
                    continue
                done.add((tname, data))
                ctx.count()
                if data:
                    ctx.note_distinct(1)
                check_decode(ctx, tname, data, counting=True, array=True)
                ctx.cls('shape len=%d' % len(data))
    ctx.sample({'decode': 'ff ff ff ff 0f + trailer', 'type': 'VarInt',
                'expect': expect(bytes.fromhex('ffffffff0f00'), 5)})
    ctx.sample({'decode': '80*6 (over-long)', 'type': 'VarInt',
                'expect': expect(b'\x80' * 6, 5)})
    # every kind of stream, every segmentation
    ctx.pmap(w_streams, [(t, k) for t in ('VarInt', 'VarLong')
                         for k in STREAM_KINDS])
    ctx.sample({'decode': 'ac 02 | a5 from a buffered stream in the '
                          'segments ac | 02 a5', 'type': 'VarInt',
                'expect': expect(bytes.fromhex('ac02a5'), 5)})
    # encoding
    top = 1 << (21 if ctx.thorough else 16)
    step = top // 64
    tasks = [(t, lo, lo + step) for t in ('VarInt', 'VarLong')
             for lo in range(0, top, step)]
    ctx.pmap(w_encode_range, tasks)
    extra = set()
    for k in range(0, 78):
        extra |= {(1 << k) - 1, 1 << k, (1 << k) + 1}
    import random
    rnd = random.Random(ctx.seed)
    extra |= {rnd.getrandbits(rnd.choice((24, 31, 32, 40, 63, 64)))
              for _ in range(64)}
    extra = sorted(x for x in extra if x >= top)
    for tname in ('VarInt', 'VarLong'):
        for n in extra:
            ctx.count()
            ctx.note_distinct(1)
            check_encode(ctx, tname, n, traced=True)
        for n in (-1, -2, -128, -(1 << 31), -(1 << 63), -(1 << 70)):
            ctx.count()
            ctx.note_distinct(1)
            ctx.cls('negative')
            check_encode(ctx, tname, n, traced=True)
    ctx.sample({'encode': 300, 'canonical': ref.varnum(300)})
    ctx.extra['decode_max_string_length'] = maxlen
    ctx.extra['encode_exhaustive_below'] = top
    if not ctx.violations and not skip_races:
        run_races(ctx, ex)


def replay(ctx, case):
    use_repo()
    ctx.count()
    if 'choices' in case:
        x = race_factory(case['params'])(list(case['choices']), None, None,
                                         'replay')
        res = x.result or {}
        viol = list(res.get('violations', ()))
        if x.failure is not None:
            viol.append((x.failure[0], '%s: %s' % x.failure))
        for key, what in viol:
            ctx.violation('race %s' % key, what, case)
        return
    if case['op'] == 'history':
        before = [h_uncase(c) for c in case.get('before', ())]
        for j, h in enumerate(before):
            run_history(ctx, h, before[:j])
        run_history(ctx, h_uncase(case), before)
    elif case['op'] == 'decode':
        if case.get('stream'):
            check_decode(ctx, case['type'], case['data'],
                         stream=case['stream'], lens=tuple(case['lens']))
        else:
            check_decode(ctx, case['type'], case['data'], counting=True,
                         array=bool(case.get('array')))
    else:
        check_encode(ctx, case['type'], int(case['n']), traced=True)
