"""C03 - VarInt/VarLong decoding is bounded; encoding terminates, canonical."""
import io
import sys

from vf.runner import use_repo, ToolError
from vf.refproto import codec as ref

LEVEL = 'exploration'
RULE = ('Decoding: every byte string of length <= 2 (quick) / <= 3 (thorough) '
        'and every continuation-bit shape of length 1..13 (terminated or not) '
        'with uniform septets {00,01,7F} or one distinguished septet per '
        'position, followed by 0-2 trailing bytes, plus every strict prefix '
        'of each shape; for VarInt and VarLong.  Encoding: every n < 2^16 '
        '(quick) / 2^21 (thorough), every 2^k-1, 2^k, 2^k+1 for k <= 77, a '
        'seed-derived set, and negatives under a step horizon.  A case is '
        'non-trivial unless it is the empty string; all cases are distinct '
        'by construction (enumerated without repetition), counted per '
        'generator.')
ASSUMPTIONS = ['non-termination is judged by a horizon of 20000 traced line '
               'events per call (a correct encoder needs < 100)']

HORIZON = 20000


class Horizon(BaseException):
    pass


def bounded(fn, *args):
    """Run fn under a line-event horizon; Horizon => did not terminate."""
    n = [0]

    def tracer(frame, event, arg):
        n[0] += 1
        if n[0] > HORIZON:
            raise Horizon()
        return tracer
    old = sys.gettrace()
    sys.settrace(tracer)
    try:
        return fn(*args)
    finally:
        sys.settrace(old)


class CountingStream(object):
    def __init__(self, data):
        self.b = io.BytesIO(data)
        self.calls = 0
        self.asked = 0

    def read(self, n=-1):
        self.calls += 1
        self.asked += n if n and n > 0 else 0
        if self.calls > 64:
            raise Horizon()
        return self.b.read(n)


def types():
    use_repo()
    from minecraft.networking.types import VarInt, VarLong
    return {'VarInt': VarInt, 'VarLong': VarLong}


def expect(data, max_bytes):
    """Reference verdict for decoding data from offset 0.
    -> ('value', v, used) | ('either', v, used) | ('raise', max_read)"""
    v = 0
    for i, b in enumerate(data):
        if i > max_bytes:           # 0..max_bytes => at most max_bytes+1 read
            return ('raise', max_bytes + 1)
        v |= (b & 0x7F) << (7 * i)
        if b < 0x80:
            if i + 1 <= max_bytes:
                return ('value', v, i + 1)
            return ('either', v, i + 1)
    if len(data) > max_bytes:
        return ('raise', max_bytes + 1)
    return ('raise', len(data))      # end of stream inside the number


def check_decode(ctx, tname, data, counting=False):
    T = types()[tname]
    exp = expect(data, T.max_bytes)
    s = CountingStream(data) if counting else io.BytesIO(data)
    try:
        got = ('value', T.read(s))
    except Horizon:
        got = ('horizon',)
    except Exception as e:
        got = ('raise', type(e).__name__)
    pos = (s.b if counting else s).tell()
    case = {'op': 'decode', 'type': tname, 'data': data}
    key = 'decode %s %s' % (tname, data[:14].hex())
    ctx.outcome('%s:%s' % (got[0], got[1] if got[0] == 'raise' else ''))
    if pos > T.max_bytes + 1 or got[0] == 'horizon':
        ctx.violation(key, '%s.read consumed %d bytes (> %d) from %s'
                      % (tname, pos, T.max_bytes + 1, data.hex()), case)
        return
    if exp[0] == 'raise':
        if got[0] != 'raise':
            ctx.violation(key, '%s.read(%s) returned %r, must raise'
                          % (tname, data.hex(), got[1:]), case)
        return
    if got[0] == 'raise':
        if exp[0] == 'value':
            ctx.violation(key, '%s.read(%s) raised %s, expected %d'
                          % (tname, data.hex(), got[1], exp[1]), case)
        return
    v = got[1]
    if isinstance(v, bool) or not isinstance(v, int) or v < 0 or v != exp[1]:
        ctx.violation(key, '%s.read(%s) = %r, expected %d'
                      % (tname, data.hex(), v, exp[1]), case)
    elif pos != exp[2]:
        ctx.violation(key, '%s.read(%s) left the cursor at %d, expected %d'
                      % (tname, data.hex(), pos, exp[2]), case)


class Sink(object):
    def __init__(self):
        self.chunks = []
        self.total = 0

    def send(self, b):
        self.chunks.append(bytes(b))
        self.total += len(b)
        if self.total > 64:
            raise Horizon()


def check_encode(ctx, tname, n, traced=False):
    T = types()[tname]
    case = {'op': 'encode', 'type': tname, 'n': str(n)}
    key = 'encode %s %d' % (tname, n)
    sink = Sink()
    try:
        if traced:
            bounded(T.send, n, sink)
        else:
            T.send(n, sink)
        got = ('bytes', b''.join(sink.chunks))
    except Horizon:
        got = ('horizon',)
    except Exception as e:
        got = ('raise', type(e).__name__)
    ctx.outcome('enc-%s' % got[0])
    if got[0] == 'horizon':
        ctx.violation(key, '%s.send(%d) does not terminate (horizon of %d '
                      'line events / 64 output bytes exceeded)'
                      % (tname, n, HORIZON), case)
        return
    limit = 1 << (32 if tname == 'VarInt' else 64)
    if not 0 <= n < limit:
        return      # outside the stated range only termination is required
    want = ref.varnum(n)
    if got != ('bytes', want):
        ctx.violation(key, '%s.send(%d) -> %r, canonical form is %s'
                      % (tname, n, got[1].hex() if got[0] == 'bytes'
                         else got, want.hex()), case)
        return
    try:
        back = T.read(io.BytesIO(want + b'\xaa'))
    except Exception as e:
        back = e
    if back != n:
        ctx.violation(key, '%s.read(%s) = %r, expected %d'
                      % (tname, want.hex(), back, n), case)
    try:
        size = T.size(n)
    except Exception as e:
        size = e
    if size != len(want):
        ctx.violation(key, '%s.size(%d) = %r, encoded length is %d'
                      % (tname, n, size, len(want)), case)


# -- generators ---------------------------------------------------------------

def shapes():
    """Continuation shapes, each yielded once."""
    seen = set()
    for L in range(1, 14):
        for term in (True, False):
            flags = [0x80] * L
            if term:
                flags[-1] = 0
            bodies = [[p] * L for p in (0x00, 0x01, 0x7F)]
            for i in range(L):
                for d in (0x55, 0x7F):
                    b = [0] * L
                    b[i] = d
                    bodies.append(b)
            for body in bodies:
                s = bytes(f | p for f, p in zip(flags, body))
                if s not in seen:
                    seen.add(s)
                    yield s, term


TRAILERS = (b'', b'\x00', b'\xff\x80')


def w_strings(ctx, task):
    tname, length, first = task
    if length == 0:
        ctx.count()
        check_decode(ctx, tname, b'')
        return
    rest = length - 1
    n = 0
    for tail in range(256 ** rest):
        data = bytes([first]) + tail.to_bytes(rest, 'big')
        check_decode(ctx, tname, data)
        n += 1
    ctx.count(n)
    ctx.note_distinct(n)


def w_encode_range(ctx, task):
    tname, lo, hi = task
    for n in range(lo, hi):
        check_encode(ctx, tname, n)
    ctx.count(hi - lo)
    ctx.note_distinct(hi - lo)


def run(ctx):
    use_repo()
    maxlen = 3 if ctx.thorough else 2
    tasks = []
    for tname in ('VarInt', 'VarLong'):
        tasks.append((tname, 0, 0))
        for L in range(1, maxlen + 1):
            tasks += [(tname, L, f) for f in range(256)]
    ctx.pmap(w_strings, tasks, chunksize=8)
    # shapes, trailers, truncations (instrumented stream: read calls counted)
    done = set()
    for tname in ('VarInt', 'VarLong'):
        for s, term in shapes():
            variants = [s + t for t in TRAILERS] if term else [s]
            variants += [s[:k] for k in range(len(s))]
            for data in variants:
                if (tname, data) in done:
                    continue
                done.add((tname, data))
                ctx.count()
                if data:
                    ctx.note_distinct(1)
                check_decode(ctx, tname, data, counting=True)
                ctx.cls('shape len=%d' % len(data))
    ctx.sample({'decode': 'ff ff ff ff 0f + trailer', 'type': 'VarInt',
                'expect': expect(bytes.fromhex('ffffffff0f00'), 5)})
    ctx.sample({'decode': '80*6 (over-long)', 'type': 'VarInt',
                'expect': expect(b'\x80' * 6, 5)})
    # encoding
    top = 1 << (21 if ctx.thorough else 16)
    step = top // 64
    tasks = [(t, lo, lo + step) for t in ('VarInt', 'VarLong')
             for lo in range(0, top, step)]
    ctx.pmap(w_encode_range, tasks)
    extra = set()
    for k in range(0, 78):
        extra |= {(1 << k) - 1, 1 << k, (1 << k) + 1}
    import random
    rnd = random.Random(ctx.seed)
    extra |= {rnd.getrandbits(rnd.choice((24, 31, 32, 40, 63, 64)))
              for _ in range(64)}
    extra = sorted(x for x in extra if x >= top)
    for tname in ('VarInt', 'VarLong'):
        for n in extra:
            ctx.count()
            ctx.note_distinct(1)
            check_encode(ctx, tname, n, traced=True)
        for n in (-1, -2, -128, -(1 << 31), -(1 << 63), -(1 << 70)):
            ctx.count()
            ctx.note_distinct(1)
            ctx.cls('negative')
            check_encode(ctx, tname, n, traced=True)
    ctx.sample({'encode': 300, 'canonical': ref.varnum(300)})
    ctx.extra['decode_max_string_length'] = maxlen
    ctx.extra['encode_exhaustive_below'] = top


def replay(ctx, case):
    use_repo()
    ctx.count()
    if case['op'] == 'decode':
        check_decode(ctx, case['type'], case['data'], counting=True)
    else:
        check_encode(ctx, case['type'], int(case['n']), traced=True)
