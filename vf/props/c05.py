"""C05 - every packet class round-trips under every supported protocol version.

For each (protocol version, state/direction table, packet class) the check
builds instances from per-field boundary alphabets, writes each with the real
``Packet.write`` into a ``PacketBuffer``, parses the frame with the reference
reader, and reads the payload back with a fresh instance of the same class.
The same is done for generated user-defined packets ("programs"), and for
every way of grouping the fields of a program into the entries of its
definition ("shapes").

The oracle is the round trip itself (no byte-exactness: that is C02/C07).
"""
import itertools
import os
import random
import re

from vf.runner import use_repo, ToolError, REPO, h64
from vf import explore, interleave
from vf.refproto import codec as ref

LEVEL = 'exploration'
RULE = (
    'For each protocol version of the tier (quick: release versions plus, '
    'for every constant of a protocol_later/earlier/in_range call in the '
    'packet and type modules of the tree under test, the supported versions '
    'just before, at and just after it; thorough: all supported versions) '
    'and each class of the 8 get_packets tables: a default instance (built '
    'three ways: attribute assignment, constructor keywords, context '
    'assigned last), an all-first and an all-last instance, and every '
    'instance that differs from the default in ONE field taking each member '
    'of the boundary alphabet of its wire type at that version (alphabets '
    'are derived from cls(context).definition; one seed-derived member is '
    'added per scalar type).  Hand-written codecs additionally get the full '
    'product of their optional structure (MapPacket pixels x 0-2 icons '
    'named/unnamed x tracking x locked; PlayerListItemPacket 5 action types '
    'x 0-2 actions x 0-2 signed/unsigned properties x display name; '
    'SpawnObjectPacket data alphabet x velocity set/unset; the 3 combat '
    'events; FacePlayerPacket entity/no entity; PluginResponsePacket '
    'successful/unsuccessful/derived), and JoinGamePacket, '
    'ClientSettingsPacket and BlockChangePacket get their property/default '
    'variants.  Programs: every field-list definition of length <= 2 '
    '(thorough: <= 3) over 25 library types (TrailingByteArray last only), '
    'declared as class attribute / classmethod / staticmethod get_definition '
    'x id from class attribute / get_id / instance attribute; length <= 2 '
    'with one-field-at-a-time variation, length 3 with default/first/last '
    'instances; programs containing Position under 4 versions around the '
    '443 switch, the others under the newest version.  Shapes of a '
    'definition (an entry of a definition is a dict that may map one name, '
    'several names or none): every field list of length <= 2 over the 25 '
    'types and of length 3 over 6 of them (thorough: all 25) is declared '
    'under EVERY way of cutting it into consecutive entries ([a][b][c], '
    '[a,b][c], [a][b,c], [a,b,c]), each without and with an empty entry {} '
    'before, between and after the groups (length 0: [] and [{}]), as class '
    'attribute / classmethod / staticmethod get_definition (versions as for '
    'the programs); instances: all-default, all-first, all-last and '
    '"stagger" (field k takes member k+1 of its alphabet, so that fields of '
    'one type differ).  Each must be written as exactly the frame the '
    'one-name-per-entry declaration writes, that frame must be length + id '
    '(reference VarInts) + for each field in turn the bytes a packet '
    'consisting of that field alone carries (no byte-exactness of the TYPES: '
    'that is C02), and it must round-trip like every other packet (class, '
    'values, exact consumption, id, repr).  Histories (same '
    'thread, same context object): for every version of the tier and every '
    'registered class A, with poison = a value that cannot be encoded (out '
    'of range for the integer type, wrong Python type, malformed UUID, bad '
    'element inside an array / nested record) placed in a field after the '
    'first: [valid default A, A with one poisoned field (expected to raise), '
    'valid default A] into ONE shared sink, for every poison of every field '
    'at release versions and in the thorough tier, for the first and last '
    'poison otherwise; and [valid A, poisoned B, valid C, valid A] with B, C '
    'the next classes of the version, once into one shared sink and once '
    'into fresh sinks.  Every valid write of a history must produce exactly '
    'the frame the same packet produces in a clean state (written twice in '
    'a row beforehand, both must agree) and must round-trip.  A poisoned '
    'write that does not raise is counted, not judged.  Every instance and '
    'sequence is distinct by construction: (version, class, label).  '
    'Concurrency (protocol 757): pairs of packet operations (write of 7 '
    'serverbound and 2 clientbound packets, some compressed; read of 7 '
    'clientbound packets) are run by two threads sharing one context under '
    'the controlled scheduler, every source line of types/basic, '
    'types/utility, types/enum, packets/packet, packet_buffer and the '
    'hand-written clientbound packet modules a scheduling point; quick: all '
    '36 pairs of 9 operations with <= 1 preemption; thorough: all 120 pairs '
    'of 16 with <= 1 and the 6 pairs of four small operations with <= 2; '
    'each thread must get the frame / the decoded fields it gets alone, '
    'also afterwards.  Sessions: six orders of three versions are coded '
    'one after the other (every class, every instance) in a throw-away '
    'child process that never coded anything before.  First use: 9 pairs of write/read operations on '
    'ChatPacket, UpdateHealthPacket, PositionAndLookPacket, KeepAlivePacket '
    '(same class twice with different values, and mixed) at protocol 757 '
    '(thorough: also 340) are run by two threads in a FRESH FORK of a '
    'process in which no packet was ever written or read, one fork per '
    'schedule, all schedules with <= 1 (2) preemptions; frames and decoded '
    'fields must be those a process gets that does the same alone (computed '
    'in a throw-away child), also afterwards.')
ASSUMPTIONS = [
    'the version thresholds at which the six hand-written codecs carry '
    'optional fields (MapPacket 107/364/373/452, SpawnObjectPacket '
    '49/100/458, FacePlayerPacket 353; also JoinGamePacket 738 for the '
    'hardcore bit and the 741 layout of MultiBlockChangePacket records for '
    'the range of y) are those of the protocol history and are transcribed '
    'in this module; the ORDER of versions is taken from '
    'minecraft.PROTOCOL_VERSION_INDICES',
    'MapPacket offsets are enumerated in 0..127 only (the reader uses a '
    'signed and the writer an unsigned byte; the protocol never uses other '
    'values)',
    'VarInt fields are enumerated in 0..2^31-1 (pyCraft represents VarInts '
    'unsigned and rejects negatives)',
    'Angle and FixedPoint fields are compared exactly for values on the '
    'wire grid and within one quantum otherwise; SoundEffectPacket pitch '
    'before protocol 204 (byte or float scaled by 63.5) is compared exactly '
    'when (b/63.5)*63.5 == b in IEEE arithmetic and within one quantum '
    '(byte) / 1e-6 relative (float) otherwise',
    '0.0 and -0.0 compare equal',
    'user-defined definitions: the names of one entry are on the wire in the '
    'order in which the dict lists them (dicts keep insertion order; '
    'packet.py documents the definition as "a list of fields, each of which '
    'is a dict mapping attribute names to data types"), and an empty entry '
    'stands for nothing on the wire (the library\'s own definitions use {} '
    'for a field that is absent under a version); the frame of a user-defined '
    'packet is therefore a function of the flattened field list alone',
    'a packet class that overrides read/write_fields, has no definition and '
    'is not one of the six known hand-written codecs, or a field Type this '
    'module has no alphabet for, is a TOOL-ERROR (the check must be '
    'extended), never silently skipped',
]

PRE = 1 << 30
STATES = ('handshake', 'status', 'login', 'play')
UNSET = ('<unset>',)        # sentinel: attribute deliberately not assigned
FROM_ORIG = ('<orig>',)     # sentinel: expected value is read off the original


def vfmt(v):
    return 'PRE|%d' % (v & ~PRE) if v & PRE else str(v)


# ---------------------------------------------------------------------------
# value alphabets

class Spec(object):
    """default + boundary values of one wire type, and its equality."""
    __slots__ = ('name', 'default', 'values', 'eq')

    def __init__(self, name, default, values, eq):
        self.name, self.default, self.eq = name, default, eq
        seen = {_ident(default)}
        self.values = []
        for v in values:
            k = _ident(v)
            if k not in seen:
                seen.add(k)
                self.values.append(v)

    @property
    def first(self):
        return self.values[0] if self.values else self.default

    @property
    def last(self):
        return self.values[-1] if self.values else self.default


def _ident(v):
    return (type(v).__name__, repr(v))


def eq_plain(w, g):
    try:
        return bool(w == g) and not bool(w != g)
    except Exception:
        return False


def eq_bytes(w, g):
    if w is None or g is None:
        return w is None and g is None
    return isinstance(g, (bytes, bytearray)) and bytes(w) == bytes(g)


def eq_num(w, g):
    return isinstance(g, (int, float)) and g == w


Q_ANGLE = 360.0 / 256


def eq_angle(w, g):
    if isinstance(g, bool) or not isinstance(g, (int, float)):
        return False
    k = w / Q_ANGLE
    if k == int(k):
        return g == w % 360
    d = abs(g - w) % 360
    return min(d, 360 - d) <= Q_ANGLE and 0 <= g < 360 \
        and g / Q_ANGLE == int(g / Q_ANGLE)


def make_eq_fixed(den):
    def eq_fixed(w, g):
        if isinstance(g, bool) or not isinstance(g, (int, float)):
            return False
        raw = w * den
        if raw == int(raw):
            return g == w
        return abs(g - w) < 1.0 / den and g * den == int(g * den)
    return eq_fixed


def nbt_canon(tag):
    import pynbt as N
    if isinstance(tag, N.TAG_Compound):
        return ('compound', tuple((k, nbt_canon(tag[k])) for k in sorted(tag)))
    if isinstance(tag, N.TAG_List):
        return ('list', tuple(nbt_canon(t) for t in tag))
    if isinstance(tag, (N.TAG_Byte_Array, N.TAG_Int_Array, N.TAG_Long_Array)):
        return (type(tag).__name__, tuple(int(x) for x in tag.value))
    if isinstance(tag, N.BaseTag):
        return (type(tag).__name__, tag.value)
    raise TypeError('not an NBT tag: %r' % (tag,))


def eq_nbt(w, g):
    try:
        return nbt_canon(w) == nbt_canon(g)
    except Exception:
        return False


def nbt_values():
    import pynbt as N
    C, L = N.TAG_Compound, N.TAG_List
    dim = C({
        'piglin_safe': N.TAG_Byte(0), 'natural': N.TAG_Byte(1),
        'ambient_light': N.TAG_Float(0.0),
        'infiniburn': N.TAG_String('minecraft:infiniburn_overworld'),
        'logical_height': N.TAG_Int(256),
        'coordinate_scale': N.TAG_Double(1.0),
        'fixed_time': N.TAG_Long(6000),
        'effects': N.TAG_String('minecraft:overworld'),
    })
    codec = C({
        'minecraft:dimension_type': C({
            'type': N.TAG_String('minecraft:dimension_type'),
            'value': L(N.TAG_Compound, [
                C({'name': N.TAG_String('minecraft:overworld'),
                   'id': N.TAG_Int(0),
                   'element': C({'natural': N.TAG_Byte(1),
                                 'height': N.TAG_Int(384)})}),
                C({'name': N.TAG_String('minecraft:the_nether'),
                   'id': N.TAG_Int(1),
                   'element': C({'natural': N.TAG_Byte(0),
                                 'fixed_time': N.TAG_Long(18000)})}),
            ])}),
        'minecraft:worldgen/biome': C({
            'type': N.TAG_String('minecraft:worldgen/biome'),
            'value': L(N.TAG_Compound, [])}),
    })
    every = C({
        'b': N.TAG_Byte(-1), 's': N.TAG_Short(300), 'i': N.TAG_Int(-2 ** 31),
        'l': N.TAG_Long(2 ** 63 - 1), 'f': N.TAG_Float(1.5),
        'd': N.TAG_Double(0.1), 'str': N.TAG_String(u'\xe9€'),
        'ba': N.TAG_Byte_Array(bytearray(b'\x00\x7f\x80\xff')),
        'ia': N.TAG_Int_Array([1, -2, 2 ** 31 - 1]),
        'la': N.TAG_Long_Array([-2 ** 63, 0]),
        'li': L(N.TAG_Int, [N.TAG_Int(1), N.TAG_Int(2)]),
        'll': L(N.TAG_List, [L(N.TAG_String, [N.TAG_String('x')])]),
        'e': C({}),
    })
    default = C({'a': N.TAG_Int(1), 'n': C({'s': N.TAG_String('v')})})
    return default, [C({}), C({'a': N.TAG_Int(1)}), dim, every, codec]


INT_RANGES = {
    'Byte': (-128, 127, 18), 'UnsignedByte': (0, 255, 200),
    'Short': (-2 ** 15, 2 ** 15 - 1, 0x1234),
    'UnsignedShort': (0, 2 ** 16 - 1, 0xABCD),
    'Integer': (-2 ** 31, 2 ** 31 - 1, 0x12345678),
    'Long': (-2 ** 63, 2 ** 63 - 1, 0x123456789ABCDEF0),
    'UnsignedLong': (0, 2 ** 64 - 1, 0xFEDCBA9876543210),
}


def int_values(lo, hi):
    if lo < 0:
        return [lo, -1, 0, 1, hi]
    return [0, 1, hi >> 1, (hi >> 1) + 1, hi]


F32_MAX = 3.4028234663852886e38
F32_VALUES = [0.0, -0.0, 1.5, -2.25, 1e10, F32_MAX, -F32_MAX, 2.0 ** -149,
              float('inf')]


class Env(object):
    """Everything that depends on the tree under test and on one version."""

    def __init__(self, version, seed):
        mc = use_repo()
        from minecraft.networking import types as T
        from minecraft.networking.connection import ConnectionContext
        from minecraft.networking.packets import Packet, PacketBuffer
        self.mc, self.T, self.Packet, self.PacketBuffer = \
            mc, T, Packet, PacketBuffer
        self.version, self.seed = version, seed
        self.context = ConnectionContext(protocol_version=version)
        self.index = mc.PROTOCOL_VERSION_INDICES
        self._cache = {}
        self._prog_types = None

    def ge(self, other):
        """this version was published at or after `other`."""
        return self.index[self.version] >= self.index[other]

    def rnd(self, name):
        return random.Random('c05:%d:%s' % (self.seed, name))

    # -- specs --------------------------------------------------------------
    def spec(self, typ):
        T = self.T
        if isinstance(typ, T.FixedPoint):
            return self._fixed(typ)
        if isinstance(typ, T.PrefixedArray):
            return self._array(typ)
        if not isinstance(typ, type):
            raise ToolError('C05 has no alphabet for field type %r' % (typ,))
        if typ in self._cache:
            return self._cache[typ]
        s = None
        for base in typ.__mro__:
            s = self._class_spec(base)
            if s is not None:
                break
        if s is None:
            raise ToolError('C05 has no alphabet for field type %r; extend '
                            'vf/props/c05.py' % (typ,))
        self._cache[typ] = s
        return s

    def _int_spec(self, name):
        lo, hi, default = INT_RANGES[name]
        extra = self.rnd(name).randint(lo, hi)
        return Spec(name, default, int_values(lo, hi) + [extra], eq_num)

    def _class_spec(self, typ):
        T = self.T
        name = typ.__name__
        qual = getattr(typ, '__qualname__', name)
        mod = getattr(typ, '__module__', '')
        if not mod.startswith('minecraft.networking.'):
            return None
        if mod.endswith('types.basic'):
            if name in INT_RANGES:
                return self._int_spec(name)
            if name == 'Boolean':
                return Spec(name, True, [False], eq_plain)
            if name == 'VarInt':
                r = self.rnd(name)
                return Spec(name, 300, [0, 1, 127, 128, 16383, 16384,
                                        2 ** 31 - 1, r.randint(0, 2 ** 31 - 1)],
                            eq_num)
            if name == 'VarLong':
                r = self.rnd(name)
                return Spec(name, 2 ** 35 + 5,
                            [0, 1, 127, 128, 2 ** 31 - 1, 2 ** 32,
                             2 ** 63 - 1, r.randint(0, 2 ** 63 - 1)], eq_num)
            if name == 'Float':
                r = self.rnd(name)
                bits = r.getrandbits(32)
                while (bits >> 23) & 0xFF == 0xFF:
                    bits = r.getrandbits(32)
                return Spec(name, ref.bits_f32(ref.f32_bits(-123.456)),
                            F32_VALUES + [ref.bits_f32(bits)], eq_num)
            if name == 'Double':
                r = self.rnd(name)
                bits = r.getrandbits(64)
                while (bits >> 52) & 0x7FF == 0x7FF:
                    bits = r.getrandbits(64)
                return Spec(name, -123.456,
                            F32_VALUES + [0.1, 1.7976931348623157e308, 5e-324,
                                          ref.bits_f64(bits)], eq_num)
            if name == 'String':
                r = self.rnd(name)
                extra = u''.join(
                    r.choice(u'abcXYZ 0189_\xe9\xdfЖ€中￮')
                    for _ in range(r.randint(2, 40)))
                return Spec(name, u'abc',
                            [u'', u'a', u'\xe9€\U0001F600', u'x' * 300,
                             extra], eq_plain)
            if name == 'UUID':
                r = self.rnd(name)
                return Spec(name, '12345678-1234-5678-1234-567812345678',
                            ['00000000-0000-0000-0000-000000000000',
                             'ffffffff-ffff-ffff-ffff-ffffffffffff',
                             ref.uuid_text(bytes(r.getrandbits(8)
                                                 for _ in range(16)))],
                            eq_plain)
            if name == 'Angle':
                r = self.rnd(name)
                return Spec(name, 90.0,
                            [k * Q_ANGLE for k in (0, 1, 64, 127, 128, 255)]
                            + [45.3, 359.9, r.randrange(256) * Q_ANGLE],
                            eq_angle)
            if name in ('VarIntPrefixedByteArray', 'ShortPrefixedByteArray',
                        'TrailingByteArray'):
                r = self.rnd(name)
                return Spec(name, b'\x01\x02\x03',
                            [b'', b'\x00', bytes(range(256)),
                             bytes(r.getrandbits(8) for _ in range(5))],
                            eq_bytes)
            if name == 'Position':
                P = T.Position
                r = self.rnd(name)
                hi, yhi = 2 ** 25, 2 ** 11
                return Spec(name, P(x=100, y=64, z=-200), [
                    P(x=0, y=0, z=0), P(x=1, y=2, z=3), P(x=-1, y=-1, z=-1),
                    P(x=hi - 1, y=yhi - 1, z=hi - 1), P(x=-hi, y=-yhi, z=-hi),
                    P(x=-hi, y=yhi - 1, z=1), (7, -8, 9),
                    P(x=r.randint(-hi, hi - 1), y=r.randint(-yhi, yhi - 1),
                      z=r.randint(-hi, hi - 1))], eq_vector)
            if name == 'NBT':
                default, values = nbt_values()
                return Spec(name, default, values, eq_nbt)
            return None
        if qual == 'ExplosionPacket.Record':
            return Spec(qual, typ(1, 2, 3),
                        [typ(-128, 0, 127), typ(-1, -1, -1), typ(127, -128, 0)],
                        eq_vector)
        if qual == 'MultiBlockChangePacket.ChunkSectionPos':
            return Spec(qual, typ(100, 5, -200), [
                typ(0, 0, 0), typ(1, 2, 3), typ(-1, -1, -1),
                typ(2 ** 21 - 1, 2 ** 19 - 1, 2 ** 21 - 1),
                typ(-2 ** 21, -2 ** 19, -2 ** 21), typ(-2 ** 21, 2 ** 19 - 1, 1)],
                eq_vector)
        if qual == 'MultiBlockChangePacket.Record':
            ymax = 15 if self.ge(741) else 255
            return Spec(qual, typ(x=5, y=9, z=12, block_state_id=300), [
                typ(x=0, y=0, z=0, block_state_id=0),
                typ(x=15, y=ymax, z=15, block_state_id=2 ** 31 - 1),
                typ(x=15, y=0, z=0, block_state_id=1),
                typ(x=0, y=ymax, z=0, block_state_id=127),
                typ(x=0, y=0, z=15, block_state_id=128),
                typ(x=1, y=2, z=3)], self.eq_deep)
        if qual == 'SoundEffectPacket.EffectPosition':
            V = T.Vector
            return Spec(qual, V(1.5, -2.25, 100.125), [
                V(0.0, 0.0, 0.0), V(-2 ** 31 / 8.0, (2 ** 31 - 1) / 8.0, -0.125),
                V(0.125, 1.0, -1.0)], eq_vector)
        if qual == 'SoundEffectPacket.Pitch':
            return self._pitch()
        return None

    def _pitch(self):
        if self.ge(204):
            return Spec('Pitch>=204', 1.0, [0.0, 0.5, 2.0, 1.5, F32_MAX], eq_num)
        grid = [b / 63.5 for b in (0, 1, 63, 64, 127, -1, -128, 100)]
        if self.ge(201):
            def eq(w, g):
                if isinstance(g, bool) or not isinstance(g, (int, float)):
                    return False
                b = w * 63.5
                if b == int(b) and (b / 63.5) == w:
                    return g == w
                return abs(g - w) <= 1e-6 * max(1.0, abs(w))
            return Spec('Pitch 201..203', 1.0, grid + [2.0, 0.5], eq)

        def eq(w, g):
            if isinstance(g, bool) or not isinstance(g, (int, float)):
                return False
            b = w * 63.5
            if b == int(b):
                return g == w
            return abs(g - w) <= 1 / 63.5 + 1e-12
        return Spec('Pitch<201', 63 / 63.5, grid + [1.0, 0.5], eq)

    def _fixed(self, typ):
        it = typ.integer_type
        name = getattr(it, '__name__', None)
        if name not in INT_RANGES or \
                not getattr(it, '__module__', '').endswith('types.basic'):
            raise ToolError('C05: FixedPoint over unknown integer type %r'
                            % (it,))
        den = typ.denominator
        lo, hi, default = INT_RANGES[name]
        extra = self.rnd('fixed' + name).randint(lo, hi)
        vals = [float(r) / den for r in int_values(lo, hi) + [extra]]
        return Spec('FixedPoint(%s,/%d)' % (name, den), float(default) / den,
                    vals + [0.3, -0.3], make_eq_fixed(den))

    def _array(self, typ):
        e = self.spec(typ.element_type)
        lt = typ.length_type
        if getattr(lt, '__name__', '') not in INT_RANGES and \
                getattr(lt, '__name__', '') not in ('VarInt', 'VarLong'):
            raise ToolError('C05: PrefixedArray with unknown length type %r'
                            % (lt,))

        def eq(w, g):
            return isinstance(g, (list, tuple)) and len(g) == len(w) and \
                all(e.eq(a, b) for a, b in zip(w, g))
        three = [e.first, e.default, e.last]
        return Spec('PrefixedArray(%s,%s)' % (lt.__name__, e.name),
                    [e.default, e.last], [[], [e.first], three,
                                          list(reversed(three)) + [e.default]],
                    eq)

    # -- values that cannot be encoded ("poison") ---------------------------
    def poison(self, typ):
        """Values of the wrong range / Python type for a field of this wire
        type; writing one is expected to raise."""
        T = self.T
        if isinstance(typ, T.FixedPoint):
            hi = INT_RANGES[typ.integer_type.__name__][1]
            return [None, float(hi + 1) / typ.denominator]
        if isinstance(typ, T.PrefixedArray):
            e = self.spec(typ.element_type)
            inner = self.poison(typ.element_type)
            return [[e.default, inner[0]]] * bool(inner) + [None]
        for base in typ.__mro__:
            name = base.__name__
            qual = getattr(base, '__qualname__', name)
            mod = getattr(base, '__module__', '')
            if not mod.startswith('minecraft.networking.'):
                continue
            if mod.endswith('types.basic'):
                if name in INT_RANGES:
                    return [INT_RANGES[name][1] + 1, 'x']
                if name in ('VarInt', 'VarLong'):
                    return [-1, 'x']
                if name == 'Float':
                    return ['x', 1e39]
                if name in ('Double', 'Angle'):
                    return ['x', None]
                if name == 'String':
                    return [None, 5]
                if name == 'UUID':
                    return ['zz', None]
                if name in ('VarIntPrefixedByteArray', 'TrailingByteArray',
                            'ShortPrefixedByteArray'):
                    return [None, 5]
                if name == 'Position':
                    return [None, (1, 2)]
                if name == 'NBT':
                    return [5, {'a': 5}]
                if name == 'Boolean':
                    return []       # struct '?' accepts every object
                continue
            if qual == 'ExplosionPacket.Record':
                return [base(1, 2, 300), None]
            if qual == 'MultiBlockChangePacket.ChunkSectionPos':
                return [base(1, None, 2), (1, 2)]
            if qual == 'MultiBlockChangePacket.Record':
                return [base(x=1, y=2, z=3, block_state_id=-1),
                        base(x=1, y=2, z=None)]
            if qual == 'SoundEffectPacket.EffectPosition':
                return [T.Vector(1.0, None, 2.0), None]
            if qual == 'SoundEffectPacket.Pitch':
                return [None, 'x']
        return []

    # -- structural equality of records ---------------------------------------
    def eq_deep(self, w, g):
        T = self.T
        if isinstance(w, T.MutableRecord):
            if type(g) is not type(w):
                return False
            for a in type(w)._all_slots():
                if hasattr(w, a) != hasattr(g, a):
                    return False
                if hasattr(w, a) and not self.eq_deep(getattr(w, a),
                                                      getattr(g, a)):
                    return False
            try:
                return bool(w == g) and not bool(w != g)
            except AttributeError:
                return False
        if isinstance(w, list):
            return isinstance(g, list) and len(w) == len(g) and \
                all(self.eq_deep(a, b) for a, b in zip(w, g))
        if isinstance(w, tuple):
            return isinstance(g, tuple) and len(w) == len(g) and \
                all(self.eq_deep(a, b) for a, b in zip(w, g))
        if isinstance(w, (bytes, bytearray)):
            return eq_bytes(w, g)
        return eq_plain(w, g)

    # -- program type alphabet --------------------------------------------------
    def prog_types(self):
        if self._prog_types is None:
            T = self.T
            A = T.PrefixedArray
            self._prog_types = [
                ('Boolean', T.Boolean), ('UnsignedByte', T.UnsignedByte),
                ('Byte', T.Byte), ('Short', T.Short),
                ('UnsignedShort', T.UnsignedShort), ('Integer', T.Integer),
                ('Long', T.Long), ('UnsignedLong', T.UnsignedLong),
                ('VarInt', T.VarInt), ('VarLong', T.VarLong),
                ('Float', T.Float), ('Double', T.Double),
                ('String', T.String), ('UUID', T.UUID), ('Angle', T.Angle),
                ('FixedPoint(Integer)', T.FixedPoint(T.Integer)),
                ('FixedPoint(Short,12)', T.FixedPoint(T.Short, 12)),
                ('Position', T.Position),
                ('VarIntPrefixedByteArray', T.VarIntPrefixedByteArray),
                ('ShortPrefixedByteArray', T.ShortPrefixedByteArray),
                ('NBT', T.NBT),
                ('Array(VarInt,String)', A(T.VarInt, T.String)),
                ('Array(Byte,Array(VarInt,Position))',
                 A(T.Byte, A(T.VarInt, T.Position))),
                ('Array(Short,Array(Integer,Array(VarInt,UUID)))',
                 A(T.Short, A(T.Integer, A(T.VarInt, T.UUID)))),
                ('TrailingByteArray', T.TrailingByteArray),
            ]
        return self._prog_types


def eq_vector(w, g):
    """3-vectors (Position may be given as a plain tuple)."""
    try:
        return isinstance(g, tuple) and len(g) == 3 and tuple(w) == tuple(g) \
            and (g.x, g.y, g.z) == tuple(w)
    except Exception:
        return False


POSITION_PROGS = ('Position', 'Array(Byte,Array(VarInt,Position))')
TRAILING = 'TrailingByteArray'


# ---------------------------------------------------------------------------
# instances

class Inst(object):
    """One packet to round-trip: attributes to set, attributes to compare."""
    __slots__ = ('label', 'sets', 'checks', 'tags', 'mode')

    def __init__(self, label, sets, checks=None, tags=(), mode='attr'):
        self.label = label
        self.sets = [(a, v) for a, v in sets if v is not UNSET]
        self.checks = checks
        self.tags = tuple(tags)
        self.mode = mode


def vary(prefix, leaves, build):
    """default, first, last, and one-leaf-at-a-time instances."""
    base = dict((n, s.default) for n, s in leaves)
    yield build(prefix + 'base', dict(base))
    yield build(prefix + 'first', dict((n, s.first) for n, s in leaves))
    yield build(prefix + 'last', dict((n, s.last) for n, s in leaves))
    for n, s in leaves:
        for j, v in enumerate(s.values):
            d = dict(base)
            d[n] = v
            yield build('%s%s#%d' % (prefix, n, j), d)


def gen_definition(env, cls, definition, prefix=''):
    """Instances of a definition-driven class."""
    fields, specs = [], {}
    for d in definition:
        for name, typ in d.items():
            if name not in specs:
                fields.append(name)
                specs[name] = env.spec(typ)
    leaves = [(n, specs[n]) for n in fields]

    def build(label, d, mode='attr'):
        return Inst(label, [(n, d[n]) for n in fields],
                    [(n, d[n], specs[n].eq) for n in fields], mode=mode)
    for inst in vary(prefix, leaves, build):
        yield inst
    base = dict((n, s.default) for n, s in leaves)
    yield build(prefix + 'base-kw', base, 'kw')
    yield build(prefix + 'base-late', base, 'late')
    for inst in definition_extras(env, cls, fields, specs, base):
        yield inst


def definition_extras(env, cls, fields, specs, base):
    """Property / class-default interplay of three definition-driven classes."""
    if not cls.__module__.startswith('minecraft.networking.packets.'):
        return
    name = cls.__name__

    def mk(label, drop=(), add=(), tags=()):
        sets = [(n, base[n]) for n in fields if n not in drop] + list(add)
        checks = [(n, base[n], specs[n].eq) for n in fields if n not in drop]
        checks += [(a, FROM_ORIG, eq_plain) for a in drop]
        checks += [(a, FROM_ORIG, eq_plain) for a, _ in add]
        return Inst(label, sets, checks, tags=tags)
    if name == 'JoinGamePacket' and not env.ge(738):
        # before 738 hardcore is bit 3 of game_mode; both views must survive
        for gm in (0, 1, 3):
            for hc in (False, True):
                for mode in ('attr', 'late'):
                    i = mk('hardcore gm=%d hc=%d %s' % (gm, hc, mode),
                           drop=('game_mode',),
                           add=[('game_mode', gm), ('is_hardcore', hc)],
                           tags=['join:is_hardcore in game_mode'])
                    i.checks.append(('pure_game_mode', FROM_ORIG, eq_plain))
                    i.mode = mode
                    yield i
    if name == 'JoinGamePacket' and env.ge(738):
        for gm in (0, 1, 3):
            i = mk('pure_game_mode=%d' % gm, drop=('game_mode',),
                   add=[('pure_game_mode', gm)], tags=['join:pure_game_mode'])
            yield i
    if name == 'ClientSettingsPacket':
        if 'enable_text_filtering' in fields:
            yield mk('text-filtering-default', drop=('enable_text_filtering',),
                     tags=['settings:enable default'])
            for v in (False, True):
                yield mk('disable-alias=%d' % v,
                         drop=('enable_text_filtering',),
                         add=[('disable_text_filtering', v)],
                         tags=['settings:disable alias on 757'])
        if 'disable_text_filtering' in fields:
            yield mk('text-filtering-default', drop=('disable_text_filtering',),
                     tags=['settings:disable default'])
            for v in (False, True):
                yield mk('enable-alias=%d' % v,
                         drop=('disable_text_filtering',),
                         add=[('enable_text_filtering', v)],
                         tags=['settings:enable alias on 755'])
        if 'allow_server_listings' in fields:
            yield mk('server-listings-default', drop=('allow_server_listings',),
                     tags=['settings:listings default'])
    if name == 'BlockChangePacket' and 'block_state_id' in fields:
        yield mk('block-state-default', drop=('block_state_id',),
                 tags=['blockchange:default state'])
        for bid, meta in ((0, 0), (1, 15), (255, 7)):
            yield mk('blockId=%d meta=%d' % (bid, meta),
                     drop=('block_state_id',),
                     add=[('blockId', bid), ('blockMeta', meta)],
                     tags=['blockchange:id/meta'])


# -- hand-written codecs ------------------------------------------------------

def gen_map(env, cls):
    T = env.T
    ge = env.ge
    Icon = cls.MapIcon
    s_vi, s_b, s_ub = env.spec(T.VarInt), env.spec(T.Byte), \
        env.spec(T.UnsignedByte)
    s_bool, s_str = env.spec(T.Boolean), env.spec(T.String)
    s_bytes = env.spec(T.VarIntPrefixedByteArray)
    nib = Spec('nibble', 5, [0, 1, 15, 8], eq_num)
    off = Spec('offset', 3, [0, 1, 127], eq_num)
    dim = Spec('dimension', 2, [1, 127, 128, 255], eq_num)
    has_name, wide = ge(364), ge(373)
    leaves = [('map_id', s_vi), ('scale', s_b)]
    if ge(107):
        leaves.append(('tracking', s_bool))
    if ge(452):
        leaves.append(('locked', s_bool))
    leaves += [('icon_type', s_vi if wide else nib),
               ('icon_dir', s_ub if wide else nib),
               ('icon_x', s_b), ('icon_z', s_b)]
    if has_name:
        leaves.append(('icon_name', s_str))
    leaves += [('width', dim), ('height', s_ub), ('off_x', off),
               ('off_z', off), ('pixels', s_bytes)]

    def build(label, d, pixels=True, shape=None, tracking=None, locked=None,
              mode='attr'):
        if shape is None:
            shape = (has_name, False)
        tracking = d.get('tracking', UNSET) if tracking is None else tracking
        locked = d.get('locked', UNSET) if locked is None else locked
        icons = []
        for k, named in enumerate(shape):
            if k == 0:
                icons.append(Icon(d['icon_type'], d['icon_dir'],
                                  (d['icon_x'], d['icon_z']),
                                  d.get('icon_name', u'n') if named else None))
            else:
                icons.append(Icon(3 + k, 9, (-7, 100 + k),
                                  u'second \xe9' if named else None))
        sets = [('map_id', d['map_id']), ('scale', d['scale']),
                ('is_tracking_position', tracking), ('is_locked', locked),
                ('icons', icons)]
        if pixels:
            sets += [('width', d['width']), ('height', d['height']),
                     ('offset', (d['off_x'], d['off_z'])),
                     ('pixels', d['pixels'])]
        else:
            sets += [('width', 0), ('height', 0), ('offset', None),
                     ('pixels', None)]
        checks = [(a, v, env.eq_deep) for a, v in sets if v is not UNSET]
        tags = ['map:%s' % ('pixels' if pixels else 'no pixels'),
                'map:%d icons' % len(shape)]
        if any(shape):
            tags.append('map:named icon')
        if locked is True:
            tags.append('map:is_locked')
        return Inst(label, sets, checks, tags=tags, mode=mode)
    for inst in vary('', leaves, build):
        yield inst
    base = dict((n, s.default) for n, s in leaves)
    yield build('base-kw', base, mode='kw')
    yield build('base-late', base, mode='late')
    d = dict(base)
    d['pixels'] = bytearray(b'\x05\x06\x07')
    yield build('pixels-bytearray', d)
    names = (False, True) if has_name else (False,)
    shapes = [()] + [(a,) for a in names] + \
        [(a, b) for a in names for b in names]
    trackings = (True, False) if ge(107) else (True, UNSET)
    lockeds = (True, False) if ge(452) else (False, UNSET)
    for pixels in (True, False):
        for shape in shapes:
            for tr in trackings:
                for lk in lockeds:
                    yield build('struct pixels=%d icons=%s tracking=%s '
                                'locked=%s' % (
                                    pixels, ''.join('NU'[not x] for x in shape)
                                    or '-', 'unset' if tr is UNSET else int(tr),
                                    'unset' if lk is UNSET else int(lk)),
                                base, pixels, shape, tr, lk)


def gen_player_list(env, cls, thorough):
    T = env.T
    s_uuid, s_str, s_vi = env.spec(T.UUID), env.spec(T.String), \
        env.spec(T.VarInt)
    Prop = cls.PlayerProperty
    U2 = 'aaaaaaaa-bbbb-cccc-dddd-eeeeeeeeeeee'

    def props(shape, d=None):
        out = []
        for k, signed in enumerate(shape):
            if k == 0 and d is not None:
                out.append(Prop(name=d['prop_name'], value=d['prop_value'],
                                signature=d['prop_sig'] if signed else None))
            else:
                out.append(Prop(name=u'textures%d' % k, value=u'dmFsdWU=',
                                signature=u'c2ln' if signed else None))
        return out

    def pack(label, atype, actions, tags=(), mode='attr'):
        sets = [('action_type', atype), ('actions', actions)]
        checks = [('action_type', atype, lambda w, g: g is w),
                  ('actions', actions, env.eq_deep)]
        return Inst(label, sets, checks,
                    tags=['pli:%s' % atype.__name__,
                          'pli:%d actions' % len(actions)] + list(tags),
                    mode=mode)
    # one leaf at a time around an AddPlayer action with a signed and an
    # unsigned property and a display name
    leaves = [('uuid', s_uuid), ('name', s_str), ('gamemode', s_vi),
              ('ping', s_vi), ('display_name', s_str), ('prop_name', s_str),
              ('prop_value', s_str), ('prop_sig', s_str)]

    def build_add(label, d, mode='attr'):
        a = cls.AddPlayerAction(
            uuid=d['uuid'], name=d['name'], properties=props((True, False), d),
            gamemode=d['gamemode'], ping=d['ping'],
            display_name=d['display_name'])
        return pack('add ' + label, cls.AddPlayerAction, [a], mode=mode)
    for inst in vary('', leaves, build_add):
        yield inst
    base = dict((n, s.default) for n, s in leaves)
    yield build_add('base-kw', base, 'kw')
    yield build_add('base-late', base, 'late')
    simple = [
        (cls.UpdateGameModeAction, [('uuid', s_uuid), ('gamemode', s_vi)]),
        (cls.UpdateLatencyAction, [('uuid', s_uuid), ('ping', s_vi)]),
        (cls.UpdateDisplayNameAction, [('uuid', s_uuid),
                                       ('display_name', s_str)]),
        (cls.RemovePlayerAction, [('uuid', s_uuid)]),
    ]
    for atype, lv in simple:
        def build(label, d, atype=atype):
            return pack('%s %s' % (atype.__name__, label), atype,
                        [atype(**d)])
        for inst in vary('', lv, build):
            yield inst
    # structure: AddPlayer shapes
    pshapes = [(), (True,), (False,), (True, False), (False, True),
               (True, True), (False, False)]
    ashapes = [(p, n) for p in pshapes for n in (None, u'Display \xe9')]

    def add_action(k, shape):
        p, n = shape
        return cls.AddPlayerAction(
            uuid=(s_uuid.default, U2)[k], name=(u'alice', u'bob')[k],
            properties=props(p), gamemode=k, ping=40 + 200 * k, display_name=n)

    def sname(shape):
        return '%s/%s' % (''.join('US'[x] for x in shape[0]) or '-',
                          'N' if shape[1] else '-')
    yield pack('struct add x0', cls.AddPlayerAction, [])
    for i, sh in enumerate(ashapes):
        tags = []
        if len(sh[0]) == 2:
            tags.append('pli:add 2 properties')
        if sh[1] is None:
            tags.append('pli:add no display name')
        if any(sh[0]):
            tags.append('pli:signed property')
        yield pack('struct add x1 %s' % sname(sh), cls.AddPlayerAction,
                   [add_action(0, sh)], tags=tags)
    for i, a in enumerate(ashapes):
        for j, b in enumerate(ashapes):
            if not thorough and j not in (i, (i + 5) % len(ashapes)):
                continue
            yield pack('struct add x2 %s %s' % (sname(a), sname(b)),
                       cls.AddPlayerAction,
                       [add_action(0, a), add_action(1, b)])
    for atype, lv in simple:
        yield pack('struct %s x0' % atype.__name__, atype, [])
        if atype is cls.UpdateDisplayNameAction:
            for n1 in (None, u'One'):
                yield pack('struct dn x1 %r' % (n1,), atype,
                           [atype(uuid=s_uuid.default, display_name=n1)],
                           tags=['pli:display name none'] if n1 is None
                           else [])
                for n2 in (None, u'Two'):
                    yield pack('struct dn x2 %r %r' % (n1, n2), atype,
                               [atype(uuid=s_uuid.default, display_name=n1),
                                atype(uuid=U2, display_name=n2)])
        else:
            d = dict((n, s.default) for n, s in lv)
            d2 = dict((n, s.last) for n, s in lv)
            yield pack('struct %s x2' % atype.__name__, atype,
                       [atype(**d), atype(**d2)])


def gen_spawn_object(env, cls):
    T = env.T
    ge = env.ge
    s_vi, s_short, s_int = env.spec(T.VarInt), env.spec(T.Short), \
        env.spec(T.Integer)
    s_angle = env.spec(T.Angle)
    s_xyz = env.spec(T.Double) if ge(100) else s_int
    s_type = s_vi if ge(458) else env.spec(T.Byte)
    s_data = Spec('data', 1, s_int.values + [s_int.default], eq_num)
    leaves = [('entity_id', s_vi)]
    if ge(49):
        leaves.append(('object_uuid', env.spec(T.UUID)))
    leaves += [('type_id', s_type), ('x', s_xyz), ('y', s_xyz), ('z', s_xyz),
               ('pitch', s_angle), ('yaw', s_angle), ('data', s_data),
               ('velocity_x', s_short), ('velocity_y', s_short),
               ('velocity_z', s_short)]
    specs = dict(leaves)
    vel = ('velocity_x', 'velocity_y', 'velocity_z')

    def build(label, d, set_velocity=True, mode='attr'):
        carried = ge(49) or d['data'] > 0
        sets = [(n, d[n]) for n, _ in leaves
                if set_velocity or n not in vel]
        checks = [(n, d[n], specs[n].eq) for n, _ in leaves
                  if carried or n not in vel]
        tags = ['spawn:velocity carried' if carried
                else 'spawn:velocity not carried (data<=0, <49)']
        return Inst(label, sets, checks, tags=tags, mode=mode)
    for inst in vary('', leaves, build):
        yield inst
    base = dict((n, s.default) for n, s in leaves)
    yield build('base-kw', base, mode='kw')
    yield build('base-late', base, mode='late')
    if not ge(49):
        for j, v in enumerate(s_data.values):
            if v <= 0:
                d = dict(base)
                d['data'] = v
                yield build('data#%d velocity-unset' % j, d, False)
    # the type_id <-> type name property
    names = ['BOAT', 'WITHER_SKULL', 'ITEM_STACK']
    for n in names:
        sets = [(a, base[a]) for a, _ in leaves if a != 'type_id']
        sets.append(('type', n))
        checks = [(a, base[a], specs[a].eq) for a, _ in leaves
                  if a != 'type_id']
        checks += [('type', n, eq_plain), ('type_id', FROM_ORIG, eq_plain)]
        yield Inst('type=%s' % n, sets, checks, tags=['spawn:type by name'])


def gen_combat(env, cls):
    T = env.T
    s_vi, s_int, s_str = env.spec(T.VarInt), env.spec(T.Integer), \
        env.spec(T.String)

    def pack(label, ev, mode='attr'):
        return Inst(label, [('event', ev)], [('event', ev, env.eq_deep)],
                    tags=['combat:%s' % type(ev).__name__], mode=mode)
    yield pack('enter', cls.EnterCombatEvent())
    yield pack('enter-kw', cls.EnterCombatEvent(), 'kw')
    yield pack('enter-late', cls.EnterCombatEvent(), 'late')
    for etype, lv in (
            (cls.EndCombatEvent, [('duration', s_vi), ('entity_id', s_int)]),
            (cls.EntityDeadEvent, [('player_id', s_vi), ('entity_id', s_int),
                                   ('message', s_str)])):
        def build(label, d, etype=etype):
            return pack('%s %s' % (etype.__name__, label), etype(**d))
        for inst in vary('', lv, build):
            yield inst


def gen_face_player(env, cls):
    T = env.T
    s_vi, s_d = env.spec(T.VarInt), env.spec(T.Double)
    if env.ge(353):
        leaves = [('origin', s_vi), ('x', s_d), ('y', s_d), ('z', s_d),
                  ('entity_id', s_vi), ('entity_origin', s_vi)]
        specs = dict(leaves)

        def build(label, d, entity=True, mode='attr'):
            sets = [(n, d[n]) for n, _ in leaves]
            if not entity:
                sets = [(n, v) for n, v in sets
                        if n not in ('entity_id', 'entity_origin')]
                sets.append(('entity_id', None))
            checks = [(n, v, specs[n].eq if v is not None else eq_plain)
                      for n, v in sets]
            return Inst(label + ('' if entity else ' no-entity'), sets,
                        checks, mode=mode,
                        tags=['face:%s' % ('entity' if entity
                                           else 'no entity')])
        for inst in vary('', leaves, build):
            yield inst
        base = dict((n, s.default) for n, s in leaves)
        yield build('base-kw', base, mode='kw')
        yield build('base-late', base, mode='late')
        for inst in vary('', leaves[:4], lambda l, d: build(
                l, dict(base, **d), False)):
            yield inst
        # entity_origin left over from an earlier use must not be written
        i = build('stale-entity-origin', base, False)
        i.sets.append(('entity_origin', 1))
        yield i
    else:       # protocol 352
        def with_entity(label, d):
            return Inst('352 entity ' + label, [('entity_id', d['entity_id'])],
                        [('entity_id', d['entity_id'], eq_num)],
                        tags=['face:352 entity'])

        def without(label, d):
            sets = [('entity_id', None)] + [(n, d[n]) for n in 'xyz']
            return Inst('352 no-entity ' + label, sets,
                        [(n, v, eq_plain) for n, v in sets],
                        tags=['face:352 no entity'])
        for inst in vary('', [('entity_id', s_vi)], with_entity):
            yield inst
        for inst in vary('', [('x', s_d), ('y', s_d), ('z', s_d)], without):
            yield inst
        yield Inst('352 entity with stale xyz',
                   [('entity_id', 7), ('x', 1.0), ('y', 2.0), ('z', 3.0)],
                   [('entity_id', 7, eq_num)], tags=['face:352 entity'])


def gen_plugin_response(env, cls):
    T = env.T
    s_vi, s_bytes = env.spec(T.VarInt), env.spec(T.TrailingByteArray)
    leaves = [('message_id', s_vi), ('data', s_bytes)]

    def ok(label, d, explicit=True, mode='attr'):
        sets = [('message_id', d['message_id'])]
        if explicit:
            sets.append(('successful', True))
        sets.append(('data', d['data']))
        checks = [('message_id', d['message_id'], eq_num),
                  ('successful', True, eq_plain),
                  ('data', d['data'], eq_bytes)]
        return Inst(('ok ' if explicit else 'ok-derived ') + label, sets,
                    checks, mode=mode,
                    tags=['plugin:successful' if explicit
                          else 'plugin:successful derived from data'])
    for inst in vary('', leaves, ok):
        yield inst
    base = dict((n, s.default) for n, s in leaves)
    yield ok('base-kw', base, mode='kw')
    yield ok('base-late', base, mode='late')
    for inst in vary('', leaves, lambda l, d: ok(l, d, False)):
        yield inst
    for j, mid in enumerate([s_vi.default] + s_vi.values):
        for succ in (False, UNSET):
            for data in (None, UNSET):
                sets = [('message_id', mid), ('successful', succ),
                        ('data', data)]
                checks = [('message_id', mid, eq_num),
                          ('successful', False, eq_plain)]
                if data is None:
                    checks.append(('data', None, eq_plain))
                yield Inst('fail id#%d successful=%s data=%s' % (
                    j, 'unset' if succ is UNSET else 'False',
                    'unset' if data is UNSET else 'None'), sets, checks,
                    tags=['plugin:unsuccessful'])


HAND = {
    'MapPacket': lambda env, cls, th: gen_map(env, cls),
    'PlayerListItemPacket': gen_player_list,
    'SpawnObjectPacket': lambda env, cls, th: gen_spawn_object(env, cls),
    'CombatEventPacket': lambda env, cls, th: gen_combat(env, cls),
    'FacePlayerPacket': lambda env, cls, th: gen_face_player(env, cls),
    'PluginResponsePacket':
        lambda env, cls, th: gen_plugin_response(env, cls),
}


def instances(env, cls, thorough):
    """-> (kind, iterator of Inst) for a library packet class."""
    Packet = env.Packet
    plain = cls.read is Packet.read and cls.write_fields is Packet.write_fields
    library = cls.__module__.startswith('minecraft.networking.packets.')
    if not plain and library and cls.__name__ in HAND:
        return 'hand-written', HAND[cls.__name__](env, cls, thorough)
    definition = cls(context=env.context).definition
    if definition is None:
        raise ToolError('C05: %s.%s overrides read/write_fields, has no '
                        'definition and no generator in vf/props/c05.py'
                        % (cls.__module__, cls.__name__))
    return ('definition' if plain else 'definition+override'), \
        gen_definition(env, cls, definition)


# ---------------------------------------------------------------------------
# the round trip

SAMPLED = ('JoinGamePacket', 'PlayerListItemPacket', 'SpawnObjectPacket',
           'ClientSettingsPacket')


def short(v, n=160):
    r = repr(v)
    return r if len(r) <= n else r[:n] + '...(%d chars)' % len(r)


def describe(inst):
    return ', '.join('%s=%s' % (a, short(v, 60)) for a, v in inst.sets)


def build_packet(cls, context, inst):
    if inst.mode == 'kw':
        return cls(context=context, **dict(inst.sets))
    if inst.mode == 'late':
        p = cls()
        for a, v in inst.sets:
            setattr(p, a, v)
        p.context = context
        return p
    p = cls(context=context)
    for a, v in inst.sets:
        setattr(p, a, v)
    return p


def roundtrip(ctx, env, cls, ident, inst, case, want_id=None,
              instance_id=None, sink=None, expect=None, after='',
              expect_kind=None):
    """Execute one case; report at most one violation.  -> outcome label.
    sink: write into this (shared) buffer instead of a fresh one; expect: the
    frame this packet produces in a clean state; after: what was written
    before (history cases); expect_kind: (kind, text with two %s: got and
    expected frame) when `expect` is something else."""
    context = env.context
    ctx.count()

    def fail(kind, text):
        ctx.violation(
            '%s v=%s %s' % (ident, vfmt(env.version), kind),
            '%s at protocol %s, instance "%s" {%s}: %s'
            % (ident, vfmt(env.version), inst.label, describe(inst), text),
            dict(case, label=inst.label))
        ctx.outcome(kind.split(' ')[0])
        return kind
    try:
        p = build_packet(cls, context, inst)
        if instance_id is not None:
            p.id = instance_id
    except Exception as e:
        return fail('build-raises', 'constructing / assigning fields raised '
                    '%s: %s' % (type(e).__name__, e))
    originals = {}
    for a, w, _ in inst.checks:
        if w is FROM_ORIG:
            try:
                originals[a] = getattr(p, a)
            except Exception as e:
                return fail('build-raises', 'reading %s off the packet just '
                            'built raised %s: %s' % (a, type(e).__name__, e))
    buf = env.PacketBuffer() if sink is None else sink
    start = len(buf.get_writable())
    try:
        p.write(buf)
    except Exception as e:
        return fail('write-raises', 'Packet.write raised %s: %s%s'
                    % (type(e).__name__, e, after))
    data = buf.get_writable()[start:]
    if expect is not None and data != expect and expect_kind is not None:
        return fail(expect_kind[0], expect_kind[1]
                    % (data.hex()[:200], expect.hex()[:200]))
    if expect is not None and data != expect:
        return fail('state', 'write() is not a function of the packet alone: '
                    'it produced the frame %s, the same packet written in a '
                    'clean state produces %s%s'
                    % (data.hex()[:200], expect.hex()[:200], after))
    try:
        r = ref.Reader(data)
        body = r.take(r.varnum())
        if r.left:
            raise ref.Malformed('%d bytes after the frame' % r.left)
        rb = ref.Reader(body)
        wire_id = rb.varnum()
        payload = rb.rest()
    except (ref.Short, ref.Malformed) as e:
        return fail('frame', 'written bytes %s are not one frame '
                    '(length, id, payload): %s' % (data.hex()[:120], e))
    try:
        expect_id = want_id if want_id is not None else cls.get_id(context)
        pid = p.id
    except Exception as e:
        return fail('id', 'get_id / id raised %s: %s' % (type(e).__name__, e))
    if instance_id is None and (isinstance(expect_id, bool) or
                                not isinstance(expect_id, int)):
        return fail('id', 'get_id(context) = %r is not an int' % (expect_id,))
    if wire_id != expect_id or pid != expect_id:
        return fail('id', 'frame carries id 0x%02X, packet.id = %r, '
                    'registered id is %r' % (wire_id, pid, expect_id))
    try:
        new = cls(context=context)
        if instance_id is not None:
            new.id = instance_id
    except Exception as e:
        return fail('instantiate', '%s(context=...) raised %s: %s'
                    % (cls.__name__, type(e).__name__, e))
    pb = env.PacketBuffer()
    pb.send(payload)
    pb.reset_cursor()
    try:
        new.read(pb)
    except Exception as e:
        return fail('read-raises', 'reading back the %d payload bytes %s '
                    'raised %s: %s' % (len(payload), payload.hex()[:160],
                                       type(e).__name__, e))
    rest = pb.read()
    if rest != b'':
        return fail('leftover', 'read() left %d of %d payload bytes unread '
                    '(payload %s)' % (len(rest), len(payload),
                                      payload.hex()[:160]))
    if type(new) is not cls:
        return fail('class', 'read produced %r' % (type(new),))
    for a, w, eq in inst.checks:
        if w is FROM_ORIG:
            w = originals[a]
        try:
            g = getattr(new, a)
        except Exception as e:
            return fail('mismatch %s' % a, 'field %s: wrote %s, reading the '
                        'attribute back raised %s: %s'
                        % (a, short(w), type(e).__name__, e))
        if not eq(w, g):
            return fail('mismatch %s' % a, 'field %s: wrote %s, read back %s '
                        '(payload %s)' % (a, short(w), short(g),
                                          payload.hex()[:160]))
    for which, obj in (('original', p), ('re-read', new)):
        try:
            s = repr(obj)
        except Exception as e:
            return fail('repr', 'repr() of the %s packet raised %s: %s'
                        % (which, type(e).__name__, e))
        if not isinstance(s, str):
            return fail('repr', 'repr() of the %s packet returned %r'
                        % (which, type(s)))
    ctx.outcome('ok')
    if inst.label == 'base' and env.version == 757 and \
            cls.__name__ in SAMPLED:
        ctx.sample({'class': ident, 'version': env.version,
                    'instance': describe(inst), 'payload': payload[:64]})
    return 'ok'


# ---------------------------------------------------------------------------
# library classes

def tables():
    use_repo()
    from minecraft.networking.packets import clientbound, serverbound
    out = []
    for direction, pkg in (('clientbound', clientbound),
                           ('serverbound', serverbound)):
        for st in STATES:
            out.append((direction, st, getattr(pkg, st).get_packets))
    return out


def run_class(ctx, env, direction, state, cls, only_label=None):
    ident = '%s/%s/%s' % (direction, state, cls.__name__)
    case = {'kind': 'class', 'version': env.version, 'direction': direction,
            'state': state, 'class': cls.__name__, 'seed': env.seed,
            'tier': ctx.tier}
    try:
        cls(context=env.context)
    except Exception as e:
        ctx.count()
        ctx.violation('%s v=%s instantiate' % (ident, vfmt(env.version)),
                      '%s(context=ConnectionContext(protocol_version=%s)) '
                      'raised %s: %s' % (ident, vfmt(env.version),
                                         type(e).__name__, e),
                      dict(case, label='<instantiate>'))
        ctx.outcome('instantiate')
        return
    try:
        kind, gen = instances(env, cls, ctx.thorough)
        n = 0
        labels = set()
        for inst in gen:
            if inst.label in labels:
                raise ToolError('C05: duplicate label %r for %s'
                                % (inst.label, ident))
            labels.add(inst.label)
            if only_label is not None and inst.label != only_label:
                continue
            n += 1
            roundtrip(ctx, env, cls, ident, inst, case)
            for t in inst.tags:
                ctx.cls(t)
    except ToolError:
        raise
    except Exception as e:
        # get_definition or a nested record constructor of the tree under
        # test raised while the instances were being prepared
        import traceback
        tb = traceback.extract_tb(e.__traceback__)
        if tb and os.path.abspath(tb[-1].filename).startswith(
                os.path.dirname(os.path.abspath(__file__))):
            raise
        ctx.count()
        ctx.violation('%s v=%s prepare' % (ident, vfmt(env.version)),
                      '%s at protocol %s: preparing instances (definition / '
                      'nested records) raised %s: %s'
                      % (ident, vfmt(env.version), type(e).__name__, e),
                      dict(case, label='<prepare>'))
        ctx.outcome('prepare')
        return
    if only_label is not None and n == 0:
        raise ToolError('C05 replay: no instance labelled %r for %s at %s'
                        % (only_label, ident, vfmt(env.version)))
    if only_label is None:
        if n == 0:
            raise ToolError('C05: no instance generated for %s' % ident)
        ctx.note_distinct(n)
        ctx.cls(ident, n)
        ctx.cls('kind:%s' % kind, n)
        ctx.extra['class_versions'] = ctx.extra.get('class_versions', 0) + 1


def w_version(ctx, version):
    env = Env(version, ctx.seed)
    entries = []
    for direction, state, get_packets in tables():
        try:
            classes = sorted(get_packets(env.context),
                             key=lambda c: (c.__name__, c.__module__))
        except Exception as e:
            ctx.count()
            ctx.violation('%s/%s v=%s table' % (direction, state,
                                                vfmt(version)),
                          'get_packets raised %s: %s' % (type(e).__name__, e),
                          {'kind': 'table', 'version': version,
                           'direction': direction, 'state': state})
            continue
        for cls in classes:
            run_class(ctx, env, direction, state, cls)
            entries.append((direction, state, cls))
    run_history(ctx, env, entries)
    if version in (47, 757):
        ctx.sample({'version': version, 'classes':
                    sum(len(g(env.context)) for _, _, g in tables())})


# ---------------------------------------------------------------------------
# histories: write() must not depend on what was written before

def hand_poisons(env, cls, base):
    """(label, overrides) for the hand-written codecs; each override makes
    write_fields raise after at least one field has been encoded."""
    name = cls.__name__
    d = dict(base.sets)
    if name == 'MapPacket':
        bad_icon = cls.MapIcon(None, 0, (0, 0))
        return [('scale=300', [('scale', 300)]),
                ('icon.type=None', [('icons', list(d['icons']) + [bad_icon])]),
                ('pixels=None', [('pixels', None)])]
    if name == 'PlayerListItemPacket':
        A = cls.AddPlayerAction
        mk = lambda **k: A(**dict(dict(          # noqa: E731
            uuid=d['actions'][0].uuid, name=u'n', properties=[], gamemode=0,
            ping=0, display_name=None), **k))
        return [('2nd action name=None',
                 [('actions', list(d['actions']) + [mk(name=None)])]),
                ('2nd action uuid=zz',
                 [('actions', list(d['actions']) + [mk(uuid='zz')])]),
                ('2nd action ping=-1',
                 [('actions', list(d['actions']) + [mk(ping=-1)])])]
    if name == 'SpawnObjectPacket':
        return [('data=2^31', [('data', 2 ** 31)]),
                ('velocity_z=None', [('velocity_z', None)]),
                ('type_id=x', [('type_id', 'x')])]
    if name == 'CombatEventPacket':
        E = cls.EntityDeadEvent
        return [('entity_id=2^31', [('event', E(player_id=1, entity_id=2 ** 31,
                                                message=u'm'))]),
                ('message=None', [('event', E(player_id=1, entity_id=2,
                                              message=None))])]
    if name == 'FacePlayerPacket':
        if env.ge(353):
            return [('z=x', [('z', 'x')]),
                    ('entity_origin=None', [('entity_origin', None)])]
        return [('entity_id=x', [('entity_id', 'x')])]
    if name == 'PluginResponsePacket':
        return [('data=5', [('successful', True), ('data', 5)]),
                ('message_id=-1', [('message_id', -1)])]
    raise ToolError('C05: no poison values for hand-written %s' % name)


def history_material(env, cls, thorough):
    """-> (valid default Inst, [(label, overrides)]) for one class."""
    kind, gen = instances(env, cls, thorough)
    base = next(iter(gen))
    if kind == 'hand-written':
        return base, hand_poisons(env, cls, base)
    definition = cls(context=env.context).definition
    fields = []
    for d in definition:
        for name, typ in d.items():
            if name not in [f for f, _ in fields]:
                fields.append((name, typ))
    poisons = []
    for i, (name, typ) in enumerate(fields):
        if i == 0 and len(fields) > 1:
            continue        # prefer a failure after a valid field was encoded
        for j, v in enumerate(env.poison(typ)):
            poisons.append(('%s=%s' % (name, short(v, 30)), [(name, v)]))
    return base, poisons


def failing_write(ctx, env, cls, base, overrides, sink):
    """Write a packet with a value that cannot be encoded.  -> exception type
    name, or None when pyCraft accepted it (not judged)."""
    ctx.count()
    try:
        p = cls(context=env.context)
        for a, v in base.sets:
            setattr(p, a, v)
        for a, v in overrides:
            setattr(p, a, v)
    except Exception as e:
        ctx.cls('history:poison rejected on assignment')
        return 'assignment:' + type(e).__name__
    try:
        p.write(sink if sink is not None else env.PacketBuffer())
    except Exception as e:
        ctx.cls('history:poisoned write raised')
        return type(e).__name__
    ctx.cls('history:poison accepted (not judged)')
    return None


def clean_frame(env, cls, base):
    """The frame of the default instance, written twice in a row with nothing
    failing in between; None when that already raises (reported by the
    round-trip enumeration)."""
    out = []
    for _ in range(2):
        buf = env.PacketBuffer()
        try:
            build_packet(cls, env.context, base).write(buf)
        except Exception:
            return None, None
        out.append(buf.get_writable())
    return out[0], out[1]


def run_history(ctx, env, entries, only=None):
    """entries: [(direction, state, cls)] of one version, in table order."""
    mats = []
    for direction, state, cls in entries:
        ident = '%s/%s/%s' % (direction, state, cls.__name__)
        try:
            base, poisons = history_material(env, cls, ctx.thorough)
        except ToolError:
            raise
        except Exception:
            continue            # reported as 'prepare' by run_class
        first, frame = clean_frame(env, cls, base)
        if frame is None:
            continue            # reported as 'write-raises' by run_class
        case = {'kind': 'history', 'version': env.version,
                'direction': direction, 'state': state,
                'class': cls.__name__, 'seed': env.seed, 'tier': ctx.tier}
        if first != frame:
            ctx.count()
            ctx.violation('%s v=%s state' % (ident, vfmt(env.version)),
                          '%s at protocol %s: the default instance written '
                          'twice in a row gives %s and then %s'
                          % (ident, vfmt(env.version), first.hex()[:200],
                             frame.hex()[:200]), dict(case, seq='<twice>'))
        mats.append((ident, cls, base, poisons, frame, case))
    n = len(mats)
    release = env.version in env.mc.RELEASE_PROTOCOL_VERSIONS
    sequences = 0
    for i, (ident, cls, base, poisons, frame, case) in enumerate(mats):
        if only is not None and (case['direction'], case['state'],
                                 case['class']) != only[:3]:
            continue

        def valid(m, sink, seq, after):
            roundtrip(ctx, env, m[1], m[0], m[2], dict(case, seq=seq),
                      sink=sink, expect=m[4], after=after)
        # (1) valid A, (2) failing A', (3) valid A -- one shared sink
        chosen = poisons if (release or ctx.thorough) else poisons[:1] + \
            poisons[-1:] if len(poisons) > 1 else poisons
        for plabel, overrides in chosen:
            seq = 'same %s' % plabel
            if only is not None and only[3] not in (seq, '<twice>'):
                continue
            sink = env.PacketBuffer()
            valid(mats[i], sink, seq, '')
            exc = failing_write(ctx, env, cls, base, overrides, sink)
            valid(mats[i], sink, seq,
                  ' [history: valid %s, then %s with %s -> %s, then this '
                  'write; one shared sink]'
                  % (cls.__name__, cls.__name__, plabel,
                     exc or 'no exception'))
            sequences += 1
        # valid A, failing B, valid C, valid A -- B, C the next classes
        others = [mats[(i + k) % n] for k in range(1, n)]
        bs = [m for m in others if m[3]]
        if not bs:
            continue
        b = bs[0]
        cs = [m for m in others if m is not b] or [mats[i]]
        c = cs[0]
        for mode in ('shared', 'fresh'):
            seq = 'interleave %s' % mode
            if only is not None and only[3] not in (seq, '<twice>'):
                continue
            sink = env.PacketBuffer() if mode == 'shared' else None
            valid(mats[i], sink, seq, '')
            plabel, overrides = b[3][0]
            exc = failing_write(ctx, env, b[1], b[2], overrides, sink)
            note = ' [history: valid %s, then %s with %s -> %s, then valid ' \
                '%s, then valid %s; %s sink]' % (
                    cls.__name__, b[1].__name__, plabel,
                    exc or 'no exception', c[1].__name__, cls.__name__, mode)
            valid(c, sink, seq, note)
            valid(mats[i], sink, seq, note)
            sequences += 1
    ctx.cls('history:sequences', sequences)
    ctx.note_distinct(sequences)


# ---------------------------------------------------------------------------
# programs

DECLS = ('attr', 'classmethod', 'staticmethod')
IDMODES = ('attr', 'get_id', 'instance')
PROG_IDS = (0x00, 0x7F, 0x80, 300)


def make_program(env, names, decl, idmode, pid, shape=None):
    table = dict(env.prog_types())
    fields = [{'f%d' % i: table[n]} for i, n in enumerate(names)]
    if shape is not None:
        fields = shaped(fields, *shape)
    ns = {'packet_name': 'program'}
    if decl == 'attr':
        ns['definition'] = fields
    elif decl == 'classmethod':
        ns['get_definition'] = classmethod(lambda cls, context: fields)
    else:
        ns['get_definition'] = staticmethod(lambda context: fields)
    if idmode == 'attr':
        ns['id'] = pid
    elif idmode == 'get_id':
        ns['get_id'] = staticmethod(lambda context: pid)
    if names:
        ns['F0'] = env.T.Difficulty      # an Enum attached to field f0
    return type('Program', (env.Packet,), ns), fields


def run_program(ctx, env, names, decl, idmode, pid, full, only_label=None):
    cls, fields = make_program(env, names, decl, idmode, pid)
    ident = 'program[%s] %s/%s' % (','.join(names), decl, idmode)
    case = {'kind': 'program', 'version': env.version, 'types': list(names),
            'decl': decl, 'idmode': idmode, 'pid': pid, 'full': full,
            'seed': env.seed}
    n = 0
    for inst in gen_definition(env, cls, fields):
        if not full and inst.label not in ('base', 'first', 'last'):
            continue
        if only_label is not None and inst.label != only_label:
            continue
        n += 1
        roundtrip(ctx, env, cls, ident, inst, case, want_id=pid,
                  instance_id=pid if idmode == 'instance' else None)
    if only_label is not None and n == 0:
        raise ToolError('C05 replay: no instance labelled %r for %s'
                        % (only_label, ident))
    return n


# -- the SHAPE of a definition -------------------------------------------------
# packet.py: "`definition', a list of fields, each of which is a dict mapping
# attribute names to data types": an entry may map one name, several names
# (they are on the wire in the order the dict lists them) or none ({}: the
# library's own way of saying "not present under this version").  The same
# list of typed fields, cut into entries in every way, must give the same
# frame and the same values read back.

SHAPE_TYPES3 = ('Boolean', 'Short', 'VarInt', 'String', 'Position',
                'Array(VarInt,String)')      # quick tier, length 3
SHAPE_LABELS = ('base', 'first', 'last')


def compositions(n):
    """Every way to cut n items into consecutive non-empty groups (sizes)."""
    if n == 0:
        return [()]
    out = []
    for first in range(1, n + 1):
        for rest in compositions(n - first):
            out.append((first,) + rest)
    return out


def shaped(flat, groups, empties):
    """flat: one-name entries; -> the same names cut into `groups`, with an
    empty entry before, between and after the groups if `empties`."""
    if sum(groups) != len(flat):
        raise ToolError('C05: groups %r do not cover %d fields'
                        % (groups, len(flat)))
    out, i = ([{}] if empties else []), 0
    for size in groups:
        entry = {}
        for d in flat[i:i + size]:
            entry.update(d)
        if len(entry) != size:
            raise ToolError('C05: repeated field name in %r' % (flat,))
        out.append(entry)
        i += size
        if empties:
            out.append({})
    return out


def shape_text(groups, empties):
    return '%s%s' % ('+'.join(str(g) for g in groups) or '0',
                     '/{}' if empties else '')


def clean_write(env, cls, inst, pid=None):
    p = build_packet(cls, env.context, inst)
    if pid is not None:
        p.id = pid
    buf = env.PacketBuffer()
    p.write(buf)
    return bytes(buf.get_writable())


def alone_payload(env, tn, typ, v):
    """What a packet made of this one field puts on the wire: the frame
    minus length and id (how a TYPE is encoded is C02's business; here only
    how a definition strings its fields together is judged)."""
    cls = env._cache.get(('alone', tn))
    if cls is None:
        cls = env._cache['alone', tn] = type(
            'OneField', (env.Packet,), {'packet_name': 'one field', 'id': 0,
                                        'definition': [{'f0': typ}]})
    r = ref.Reader(clean_write(env, cls, Inst('alone', [('f0', v)])))
    rb = ref.Reader(r.take(r.varnum()))
    rb.varnum()
    return rb.rest()


def shape_instances(env, cls, flat):
    """base / first / last of the field list, and 'stagger': the k-th field
    takes the k-th member of its alphabet (fields of one type differ)."""
    specs = []
    for d in flat:
        (name, typ), = d.items()
        specs.append((name, env.spec(typ)))
    out = []
    for label in SHAPE_LABELS + ('stagger',):
        sets, checks = [], []
        for k, (name, sp) in enumerate(specs):
            if label == 'stagger':
                vals = [sp.default] + list(sp.values)
                v = vals[(k + 1) % len(vals)]
            else:
                v = {'base': sp.default, 'first': sp.first,
                     'last': sp.last}[label]
            sets.append((name, v))
            checks.append((name, v, sp.eq))
        out.append(Inst(label, sets, checks))
    return out


def run_shape(ctx, env, names, decl, groups, empties, pid, only_label=None):
    """One field list under one shape: every instance must be written as the
    one-name-per-entry form writes it (and as the reference says), and read
    back with the values written."""
    table = dict(env.prog_types())
    flat_cls, flat = make_program(env, names, decl, 'attr', pid)
    cls, fields = make_program(env, names, decl, 'attr', pid,
                               shape=(groups, empties))
    ident = 'program[%s] shape %s %s' % (','.join(names),
                                         shape_text(groups, empties), decl)
    case = {'kind': 'shape', 'version': env.version, 'types': list(names),
            'decl': decl, 'groups': list(groups), 'empties': bool(empties),
            'pid': pid, 'seed': env.seed}
    n = 0
    for inst in shape_instances(env, cls, flat):
        if only_label is not None and inst.label != only_label:
            continue
        n += 1
        try:
            frame = clean_write(env, flat_cls, inst)
        except Exception:
            # (the one-name-per-entry form is judged by run_program)
            frame = None
            ctx.cls('shape: the one-name-per-entry form cannot be written')
        if frame is not None:
            parts = []
            for (name, v), tn in zip(inst.sets, names):
                try:
                    parts.append(alone_payload(env, tn, table[tn], v))
                except Exception:
                    parts = None
                    break
            if parts is not None:
                body = ref.varnum(pid) + b''.join(parts)
                want = ref.varnum(len(body)) + body
                ctx.cls('shape: frame compared with length + id + the bytes '
                        'of each field alone')
                if frame != want:
                    ctx.count()
                    ctx.outcome('layout')
                    ctx.violation(
                        '%s v=%s layout' % (ident, vfmt(env.version)),
                        '%s at protocol %s, instance "%s" {%s}: the '
                        'one-name-per-entry definition writes the frame %s; '
                        'length, id and what each field puts on the wire '
                        'alone, one after the other, are %s'
                        % (ident, vfmt(env.version), inst.label,
                           describe(inst), frame.hex()[:200],
                           want.hex()[:200]), dict(case, label=inst.label))
                    continue
                frame = want
        roundtrip(ctx, env, cls, ident, inst, case, want_id=pid,
                  expect=frame, expect_kind=(
                      'shape', 'the definition %s writes the frame %%s; the '
                      'same fields declared one name per entry (and the '
                      'reference) give %%s'
                      % repr(fields).replace('%', '%%')))
    if only_label is not None and n == 0:
        raise ToolError('C05 replay: no instance labelled %r for %s'
                        % (only_label, ident))
    return n


def w_shapes(ctx, task):
    first, length, pool = task
    mc = use_repo()
    pos_versions, newest = program_versions(mc)
    envs = {}

    def env_for(v):
        if v not in envs:
            envs[v] = Env(v, ctx.seed)
        return envs[v]
    pools = [] if length == 0 else [[first]] + [pool] * (length - 1)
    k = 0
    for combo in itertools.product(*pools):
        if TRAILING in combo[:-1]:
            continue
        has_pos = any(n in POSITION_PROGS for n in combo)
        for v in (pos_versions if has_pos else [newest]):
            for groups in compositions(length):
                for empties in (False, True):
                    if not empties and len(groups) == length:
                        continue          # the plain programs
                    for decl in DECLS:
                        k += 1
                        pid = PROG_IDS[k % len(PROG_IDS)]
                        n = run_shape(ctx, env_for(v), combo, decl, groups,
                                      empties, pid)
                        ctx.note_distinct(n)
                        ctx.cls('shape len=%d' % length, n)
                        ctx.cls('shape decl=%s' % decl, n)
                        ctx.cls('shape %s' % shape_text(groups, empties), n)
                        if any(g > 1 for g in groups):
                            ctx.cls('shape: several names in one entry', n)
                        if empties:
                            ctx.cls('shape: empty entries', n)
        ctx.extra['shaped_programs'] = ctx.extra.get('shaped_programs', 0) + 1


def program_versions(mc):
    sup = sorted(mc.SUPPORTED_PROTOCOL_VERSIONS,
                 key=mc.PROTOCOL_VERSION_INDICES.get)
    i443 = mc.PROTOCOL_VERSION_INDICES[443]
    before = [v for v in sup if mc.PROTOCOL_VERSION_INDICES[v] < i443]
    after = [v for v in sup if mc.PROTOCOL_VERSION_INDICES[v] >= i443]
    pos = [sup[0]] + before[-1:] + after[:1] + [sup[-1]]
    out = []
    for v in pos:
        if v not in out:
            out.append(v)
    return out, sup[-1]


def w_programs(ctx, task):
    first, length = task
    mc = use_repo()
    pos_versions, newest = program_versions(mc)
    envs = {}

    def env_for(v):
        if v not in envs:
            envs[v] = Env(v, ctx.seed)
        return envs[v]
    names = [n for n, _ in env_for(newest).prog_types()]
    if length == 0:
        pools = []
    else:
        pools = [[first]] + [names] * (length - 1)
    k = 0
    for combo in itertools.product(*pools):
        if TRAILING in combo[:-1]:
            continue
        has_pos = any(n in POSITION_PROGS for n in combo)
        for v in (pos_versions if has_pos else [newest]):
            for decl in DECLS:
                for idmode in IDMODES:
                    k += 1
                    pid = PROG_IDS[k % len(PROG_IDS)]
                    n = run_program(ctx, env_for(v), combo, decl, idmode, pid,
                                    full=length <= 2)
                    ctx.note_distinct(n)
                    ctx.cls('program len=%d' % length, n)
                    ctx.cls('program decl=%s' % decl, n)
                    ctx.cls('program id=%s' % idmode, n)
                    if has_pos:
                        ctx.cls('program with Position v=%s' % vfmt(v), n)
        if TRAILING in combo:
            ctx.cls('program ending in TrailingByteArray')
        ctx.extra['programs'] = ctx.extra.get('programs', 0) + 1


# ---------------------------------------------------------------------------
# versions

CALL = re.compile(r'protocol_(?:later_eq|later|earlier_eq|earlier|in_range)'
                  r'\(([^()]*)\)')
CONST = re.compile(r'^\s*(?:PRE\s*\|\s*(\d+)|(\d+))\s*$')


def boundary_constants():
    """Every version constant used in a protocol comparison in the packet and
    type modules of the tree under test."""
    out = set()
    root = os.path.join(REPO, 'minecraft', 'networking')
    for sub in ('packets', 'types'):
        for d, _, files in sorted(os.walk(os.path.join(root, sub))):
            for f in sorted(files):
                if not f.endswith('.py'):
                    continue
                with open(os.path.join(d, f), encoding='utf-8') as fh:
                    src = fh.read()
                for m in CALL.finditer(src):
                    for arg in m.group(1).split(','):
                        c = CONST.match(arg)
                        if c:
                            out.add(PRE | int(c.group(1)) if c.group(1)
                                    else int(c.group(2)))
    return sorted(out)


def tier_versions(ctx):
    mc = use_repo()
    idx = mc.PROTOCOL_VERSION_INDICES
    sup = sorted(mc.SUPPORTED_PROTOCOL_VERSIONS, key=idx.get)
    if ctx.thorough:
        return sup, None
    chosen = set(v for v in mc.RELEASE_PROTOCOL_VERSIONS if v in sup)
    consts = boundary_constants()
    unknown = [c for c in consts if c not in idx]
    for c in consts:
        if c not in idx:
            continue
        i = idx[c]
        before = [v for v in sup if idx[v] < i]
        after = [v for v in sup if idx[v] > i]
        chosen.update(before[-1:])
        chosen.update(after[:1])
        if c in sup:
            chosen.add(c)
    return [v for v in sup if v in chosen], \
        {'constants': len(consts), 'unknown_constants': unknown}


# ---------------------------------------------------------------------------

# -- concurrent packet codecs ---------------------------------------------------
# Writing or reading one packet must not depend on what another thread is
# writing or reading at the same time (the networking thread encodes queued
# packets while user threads build and force-write their own, and several
# connections share the process).  Every pair of operations below is run by
# two threads under the controlled scheduler, every source line of the codec
# modules a scheduling point; each thread must observe what it observes alone.

RACE_MODULES = ('minecraft.networking.types.basic',
                'minecraft.networking.types.utility',
                'minecraft.networking.types.enum',
                'minecraft.networking.packets.packet',
                'minecraft.networking.packets.packet_buffer',
                'minecraft.networking.packets.clientbound.play.map_packet',
                'minecraft.networking.packets.clientbound.play.'
                'player_list_item_packet',
                'minecraft.networking.packets.clientbound.play.'
                'block_change_packet',
                'minecraft.networking.packets.clientbound.play.'
                'explosion_packet',
                'minecraft.networking.packets.clientbound.play.'
                'join_game_and_respawn_packets')
RACE_VERSION = 757
RACE_OPS = [
    ('serverbound', 'play', 'ChatPacket', 'write', None),
    ('serverbound', 'play', 'ChatPacket', 'write', 1),
    ('serverbound', 'play', 'PositionAndLookPacket', 'write', None),
    ('serverbound', 'play', 'KeepAlivePacket', 'write', None),
    ('serverbound', 'play', 'ClientSettingsPacket', 'write', 16),
    ('serverbound', 'play', 'PluginMessagePacket', 'write', None),
    ('serverbound', 'play', 'PlayerBlockPlacementPacket', 'write', None),
    ('clientbound', 'play', 'MapPacket', 'write', None),
    ('clientbound', 'play', 'PlayerListItemPacket', 'write', 1),
    ('clientbound', 'play', 'ChatMessagePacket', 'read', None),
    ('clientbound', 'play', 'MapPacket', 'read', None),
    ('clientbound', 'play', 'PlayerListItemPacket', 'read', None),
    ('clientbound', 'play', 'JoinGamePacket', 'read', None),
    ('clientbound', 'play', 'MultiBlockChangePacket', 'read', None),
    ('clientbound', 'play', 'ExplosionPacket', 'read', None),
    ('clientbound', 'play', 'KeepAlivePacket', 'read', None),
]


RACE_QUICK = (0, 1, 2, 6, 7, 9, 11, 12, 13)
RACE_DEEP = (1, 3, 9, 15)


def _race_class(direction, state, name):
    import importlib
    mod = importlib.import_module('minecraft.networking.packets.%s.%s'
                                  % (direction, state))
    return getattr(mod, name)


def _race_state(p):
    def canon(v, depth=0):
        if depth > 6:
            return '...'
        if isinstance(v, (list, tuple)):
            return [canon(x, depth + 1) for x in v]
        if isinstance(v, (bytes, bytearray)):
            return bytes(v).hex()
        if hasattr(v, '__slots__') or (hasattr(v, '__dict__') and
                                        not isinstance(v, type)):
            names = []
            for c in type(v).__mro__:
                names += list(getattr(c, '__slots__', ()))
            names += list(getattr(v, '__dict__', {}))
            return (type(v).__name__,
                    [(n, canon(getattr(v, n, None), depth + 1))
                     for n in sorted(set(names)) if n != 'context'])
        return repr(v)
    return repr(canon(p))


_RACE_MAT = {}      # harness data only (instances, reference payloads)
_RACE_ENV = {}


def race_op(env, op):
    direction, state, name, kind, threshold = op
    cls = _race_class(direction, state, name)
    if (env.version, op) not in _RACE_MAT:
        base, _ = history_material(env, cls, False)
        first, frame = clean_frame(env, cls, base)
        if frame is None:
            raise ToolError('C05 race: %s cannot be written at %d'
                            % (name, env.version))
        r = ref.Reader(frame)
        rb = ref.Reader(r.take(r.varnum()))
        rb.varnum()
        _RACE_MAT[env.version, op] = (base, rb.rest())
    base, payload = _RACE_MAT[env.version, op]

    def write():
        buf = env.PacketBuffer()
        p = build_packet(cls, env.context, base)
        if threshold is None:
            p.write(buf)
        else:
            p.write(buf, threshold)
        return buf.get_writable().hex()

    def read():
        pb = env.PacketBuffer()
        pb.send(payload)
        pb.reset_cursor()
        new = cls(context=env.context)
        new.read(pb)
        return _race_state(new), len(pb.read())
    return write if kind == 'write' else read


def race_body(W, params):
    use_repo()
    if params['version'] not in _RACE_ENV:
        _RACE_ENV[params['version']] = Env(params['version'], 0)
    env = _RACE_ENV[params['version']]
    ops = [race_op(env, tuple(o)) for o in params['ops']]

    def alone_run():
        out = []
        for f in ops:
            try:
                out.append(('ok', f()))
            except Exception as e:
                out.append(('exc', '%s: %s' % (type(e).__name__, e)))
        return out
    alone = alone_run()
    got = interleave.race(W, ops)
    again = alone_run()
    viol = []
    for i, o in enumerate(params['ops']):
        what = '%s %s/%s/%s%s' % (o[3], o[0], o[1], o[2],
                                  '' if o[4] is None else
                                  ' threshold=%d' % o[4])
        other = params['ops'][1 - i]
        if got[i] != alone[i]:
            viol.append(('concurrent %s differs' % what,
                         'protocol %d: %s run concurrently with %s %s gave '
                         '%s; alone it gives %s'
                         % (params['version'], what, other[3], other[2],
                            str(got[i])[:300], str(alone[i])[:300])))
        if again[i] != alone[i]:
            viol.append(('after concurrent use %s differs' % what,
                         'protocol %d: %s gives %s after the concurrent '
                         'run, %s before' % (params['version'], what,
                                             str(again[i])[:300],
                                             str(alone[i])[:300])))
    return {'outcome': tuple(h64(repr(g)) for g in got), 'violations': viol}


def race_factory(params):
    def scenario(prefix, expect, visited=None, budget=0):
        return interleave.run(lambda W: race_body(W, params), prefix, expect,
                              budget, modules=RACE_MODULES, horizon=400000)
    return scenario


def run_races(ctx, ex):
    # quick: every pair of the 9 operations in RACE_QUICK, <= 1 preemption;
    # thorough: every pair of all operations with <= 1, and the pairs of the
    # four small operations in RACE_DEEP with <= 2
    allp = [(i, j) for i in range(len(RACE_OPS))
            for j in range(i + 1, len(RACE_OPS))]
    if ctx.thorough:
        pairs = [(i, j, 2 if i in RACE_DEEP and j in RACE_DEEP else 1)
                 for i, j in allp]
    else:
        pairs = [(i, j, 1) for i, j in allp
                 if i in RACE_QUICK and j in RACE_QUICK]
    bound = max(b for _, _, b in pairs)
    execs = 0
    for i, j, b in pairs:
        res = ex.explore(ctx, race_factory,
                         {'version': RACE_VERSION,
                          'ops': [list(RACE_OPS[i]), list(RACE_OPS[j])]},
                         b, label='race ')
        execs += res.execs
        ctx.cls('concurrent pair of packet codec calls, all schedules')
    ctx.extra['concurrent'] = {
        'version': RACE_VERSION, 'operations': len(RACE_OPS),
        'pairs': len(pairs), 'preemption_bound': bound,
        'schedules_executed': execs,
        'points': 'every source line of ' + ', '.join(RACE_MODULES)}


# -- first use, concurrently ------------------------------------------------------
# Every scenario above runs in a process in which each class has been used
# before, so whatever the library builds lazily on first use is already there.
# Here every execution is a fresh fork of a process in which NO packet has
# ever been written or read (explore(..., cold=True)); two threads make the
# first use of a (class, version) pair at the same time.  Expected frames
# are computed once in a throw-away child process.

COLD_OPS = {
    'chat1': ('serverbound', 'play', 'ChatPacket', {'message': 'hello'}),
    'chat2': ('serverbound', 'play', 'ChatPacket',
              {'message': 'a much longer message, ' * 4}),
    'health1': ('clientbound', 'play', 'UpdateHealthPacket',
                {'health': 1.5, 'food': 7, 'food_saturation': 0.25}),
    'health2': ('clientbound', 'play', 'UpdateHealthPacket',
                {'health': 20.0, 'food': 20, 'food_saturation': 5.0}),
    'pos': ('serverbound', 'play', 'PositionAndLookPacket',
            {'x': 1.0, 'feet_y': 2.0, 'z': 3.0, 'yaw': 4.0, 'pitch': 5.0,
             'on_ground': True}),
    'ka1': ('clientbound', 'play', 'KeepAlivePacket',
            {'keep_alive_id': 123456789}),
    'ka2': ('clientbound', 'play', 'KeepAlivePacket', {'keep_alive_id': 7}),
}
COLD_PAIRS = [('chat1', 'w', 'chat2', 'w'), ('health1', 'w', 'health2', 'w'),
              ('health1', 'w', 'health2', 'r'), ('health1', 'r', 'health2', 'r'),
              ('ka1', 'w', 'ka2', 'w'), ('ka1', 'r', 'ka2', 'w'),
              ('chat1', 'w', 'pos', 'w'), ('pos', 'w', 'pos', 'w'),
              ('health1', 'w', 'ka1', 'r')]
COLD_VERSIONS = (340, 757)


def _cold_packet(context, name):
    direction, state, cname, kw = COLD_OPS[name]
    cls = _race_class(direction, state, cname)
    return cls, cls(context=context, **kw)


def _cold_write(context, name):
    from minecraft.networking.packets import PacketBuffer
    cls, p = _cold_packet(context, name)
    buf = PacketBuffer()
    p.write(buf)
    return buf.get_writable().hex()


def _cold_read(context, name, frame_hex):
    from minecraft.networking.packets import PacketBuffer
    direction, state, cname, kw = COLD_OPS[name]
    cls = _race_class(direction, state, cname)
    r = ref.Reader(bytes.fromhex(frame_hex))
    rb = ref.Reader(r.take(r.varnum()))
    rb.varnum()
    pb = PacketBuffer()
    pb.send(rb.rest())
    pb.reset_cursor()
    new = cls(context=context)
    new.read(pb)
    return _race_state(new), len(pb.read())


def cold_expected(version):
    """(in a throw-away child process) name -> (frame, decoded state)"""
    use_repo()
    from minecraft.networking.connection import ConnectionContext
    out = {}
    for name in sorted(COLD_OPS):
        context = ConnectionContext(protocol_version=version)
        try:
            frame = _cold_write(context, name)
            out[name] = (frame, _cold_read(context, name, frame))
        except Exception as e:
            # the tree under test cannot write / read back this packet even
            # alone: that is for the sequential sections to report
            return {'<failed>': '%s alone: %s: %s'
                    % (COLD_OPS[name][2], type(e).__name__, e)}
    return out


def cold_body(W, params):
    use_repo()
    from minecraft.networking.connection import ConnectionContext
    context = ConnectionContext(protocol_version=params['version'])
    exp = params['expected']
    ops, want = [], []
    for name, kind in params['pair']:
        frame, decoded = exp[name]
        if kind == 'w':
            ops.append(lambda n=name: _cold_write(context, n))
            want.append(('ok', frame))
        else:
            ops.append(lambda n=name, f=frame: _cold_read(context, n, f))
            want.append(('ok', (decoded[0], decoded[1])))
    got = interleave.race(W, ops)
    again = []
    for f in ops:
        try:
            again.append(('ok', f()))
        except Exception as e:
            again.append(('exc', '%s: %s' % (type(e).__name__, e)))
    viol = []
    for i, (name, kind) in enumerate(params['pair']):
        what = '%s %s' % ('write' if kind == 'w' else 'read',
                          COLD_OPS[name][2])
        g = got[i] if got[i][0] != 'ok' else ('ok', got[i][1] if kind == 'w'
                                              else tuple(got[i][1]))
        a = again[i] if again[i][0] != 'ok' else (
            'ok', again[i][1] if kind == 'w' else tuple(again[i][1]))
        w = (want[i][0], want[i][1] if kind == 'w' else tuple(want[i][1]))
        if g != w:
            viol.append(('first use, concurrent: %s differs' % what,
                         'protocol %d: %s as the first use of the class in '
                         'the process, concurrently with %s, gave %s; a '
                         'process that does it alone gets %s'
                         % (params['version'], what,
                            params['pair'][1 - i][0], str(g)[:300],
                            str(w)[:300])))
        elif a != w:
            viol.append(('after a concurrent first use: %s differs' % what,
                         'protocol %d: %s gives %s after two threads made '
                         'the first use concurrently; expected %s'
                         % (params['version'], what, str(a)[:300],
                            str(w)[:300])))
    return {'outcome': tuple(h64(repr(g)) for g in got), 'violations': viol}


def cold_factory(params):
    def scenario(prefix, expect, visited=None, budget=0):
        return interleave.run(lambda W: cold_body(W, params), prefix, expect,
                              budget, modules=RACE_MODULES, horizon=400000)
    scenario.prepare = lambda: interleave.install(RACE_MODULES)
    return scenario


def run_cold(ctx, ex):
    bound = 2 if ctx.thorough else 1
    execs = 0
    for v in (COLD_VERSIONS if ctx.thorough else COLD_VERSIONS[-1:]):
        expected = explore.in_child(cold_expected, v)
        if '<failed>' in expected:
            ctx.extra['concurrent_first_use_skipped'] = \
                'protocol %d: %s' % (v, expected['<failed>'])
            continue
        expected = dict((k, [e[0], list(e[1])]) for k, e in expected.items())
        for a, ka, b, kb in COLD_PAIRS:
            res = ex.explore(ctx, cold_factory,
                             {'version': v, 'pair': [[a, ka], [b, kb]],
                              'expected': expected},
                             bound, label='cold ', cold=True)
            execs += res.execs
            ctx.cls('concurrent first use of a packet class')
    ctx.extra['concurrent_first_use'] = {
        'versions': list(COLD_VERSIONS), 'pairs': len(COLD_PAIRS),
        'preemption_bound': bound, 'schedules_executed': execs,
        'each_execution': 'a fresh fork of a process in which no packet '
                          'was ever written or read'}


# -- sessions of different versions one after the other in ONE process ----------
# The version tasks are farmed out to pool workers in a seed-dependent order,
# so whether one process ever codes a class under two versions would be luck.
# Here it is by construction, each order in a throw-away child process that
# never coded anything before.

SESSION_ORDERS = ((340, 757, 340), (757, 340, 757), (735, 751, 735),
                  (751, 735, 751), (47, 578, 47), (404, 477, 404))


def _sessions_in_child(proto, order):
    from vf.runner import Ctx
    sub = Ctx(*proto)
    use_repo()
    for v in order:
        w_version(sub, v)
    return sub.export()


def check_session_orders(ctx):
    for order in SESSION_ORDERS:
        d = explore.in_child(_sessions_in_child,
                             (ctx.pid, ctx.tier, ctx.seed, ctx.level), order)
        before = set(ctx.violations)
        ctx.absorb(d)
        for k in set(ctx.violations) - before:
            rec = ctx.violations[k]
            rec['what'] += ('  (Found in a process that coded for the '
                            'protocols %s in this order.)' % (list(order),))
            rec['case'] = {'kind': 'sessions', 'order': list(order),
                           'version': order[0]}
        ctx.cls('sessions of several versions in one process, in order')


def run(ctx):
    use_repo()
    # (imported before the fork so that every process sees the same class
    # objects; nothing is written or read here)
    import minecraft.networking.connection        # noqa: F401
    import minecraft.networking.packets.clientbound.play   # noqa: F401
    import minecraft.networking.packets.serverbound.play   # noqa: F401
    ex = explore.Explorer(memo=False)   # forks its workers before anything runs
    try:
        run_cold(ctx, ex)           # first: the parent is still cold too
        check_session_orders(ctx)
        _run(ctx)
        if ctx.extra.get('concurrent_first_use_skipped') and \
                not ctx.violations:
            raise ToolError('C05: a packet could not be coded alone in a '
                            'cold process (%s) but the sequential sections '
                            'report nothing'
                            % ctx.extra['concurrent_first_use_skipped'])
        if not ctx.violations:
            run_races(ctx, ex)
    finally:
        ex.close()


def _run(ctx):
    use_repo()
    versions, info = tier_versions(ctx)
    order = list(versions)
    random.Random(ctx.seed).shuffle(order)
    ctx.pmap(w_version, order)
    env = Env(versions[-1], ctx.seed)
    names = [n for n, _ in env.prog_types()]
    maxlen = 3 if ctx.thorough else 2
    tasks = [(None, 0)]
    for length in range(1, maxlen + 1):
        tasks += [(n, length) for n in names]
    random.Random(ctx.seed + 1).shuffle(tasks)
    ctx.pmap(w_programs, tasks)
    # the same field lists under every SHAPE of the definition
    tasks = [(None, 0, names)]
    for length in (1, 2, 3):
        pool = names if length < 3 or ctx.thorough else \
            [n for n in names if n in SHAPE_TYPES3]
        if len(pool) < min(len(names), 4):
            raise ToolError('C05: shape type alphabet %r' % (pool,))
        tasks += [(n, length, pool) for n in pool]
    random.Random(ctx.seed + 2).shuffle(tasks)
    ctx.pmap(w_shapes, tasks)
    ctx.extra['shape_type_alphabet_length_3'] = \
        names if ctx.thorough else [n for n in names if n in SHAPE_TYPES3]
    ctx.extra['versions'] = len(versions)
    ctx.extra['version_list'] = [vfmt(v) for v in versions]
    ctx.extra['program_max_length'] = maxlen
    ctx.extra['program_type_alphabet'] = names
    if info:
        ctx.extra['boundary_constants'] = info['constants']
        if info['unknown_constants']:
            ctx.extra['boundary_constants_not_known_versions'] = \
                info['unknown_constants']
    failing = {}
    for key in sorted(ctx.violations):
        ident, _, rest = key.partition(' v=')
        v, _, kind = rest.partition(' ')
        failing.setdefault('%s: %s' % (ident, kind), []).append(v)
    if failing:
        ctx.extra['failing_versions'] = failing
    # vacuity guards: the structural classes must have been exercised
    need = ['map:pixels', 'map:no pixels', 'map:named icon', 'map:is_locked',
            'pli:AddPlayerAction', 'pli:2 actions', 'pli:0 actions',
            'pli:signed property', 'pli:add no display name',
            'pli:RemovePlayerAction', 'spawn:velocity carried',
            'spawn:velocity not carried (data<=0, <49)',
            'combat:EntityDeadEvent', 'face:entity', 'face:no entity',
            'plugin:unsuccessful', 'plugin:successful',
            'join:is_hardcore in game_mode', 'kind:hand-written',
            'kind:definition', 'program len=2', 'shape len=3',
            'shape: several names in one entry', 'shape: empty entries',
            'shape 3', 'shape 1+2', 'shape 2+1/{}', 'shape 0/{}',
            'shape decl=attr', 'shape decl=staticmethod',
            'shape: frame compared with length + id + the bytes of each '
            'field alone',
            'history:sequences',
            'history:poisoned write raised',
            'program ending in TrailingByteArray',
            'clientbound/play/DeathCombatEventPacket',
            'serverbound/play/ClientSettingsPacket']
    missing = [t for t in need if not ctx.classes.get(t)]
    if missing and not ctx.violations:
        raise ToolError('C05 vacuity guard: classes never exercised: %s'
                        % missing)


def replay(ctx, case):
    use_repo()
    if 'choices' in case:
        fac = cold_factory if 'pair' in case['params'] else race_factory
        x = fac(case['params'])(list(case['choices']), None, None, 'replay')
        res = x.result or {}
        viol = list(res.get('violations', ()))
        if x.failure is not None:
            viol.append((x.failure[0], '%s: %s' % x.failure))
        for key, what in viol:
            ctx.violation('race %s' % key, what, case)
        return
    if case.get('kind') == 'sessions':
        check_session_orders(ctx)
        return
    seed = case.get('seed', ctx.seed)
    env = Env(case['version'], seed)
    if case.get('tier'):
        ctx.tier = case['tier']
    if case['kind'] == 'table':
        w_version(ctx, case['version'])
        return
    if case['kind'] == 'program':
        run_program(ctx, env, tuple(case['types']), case['decl'],
                    case['idmode'], case['pid'], case['full'],
                    only_label=case['label'])
        return
    if case['kind'] == 'shape':
        run_shape(ctx, env, tuple(case['types']), case['decl'],
                  tuple(case['groups']), case['empties'], case['pid'],
                  only_label=case['label'])
        return
    if case['kind'] == 'history':
        entries = []
        for direction, state, get_packets in tables():
            for cls in sorted(get_packets(env.context),
                              key=lambda c: (c.__name__, c.__module__)):
                entries.append((direction, state, cls))
        run_history(ctx, env, entries, only=(
            case['direction'], case['state'], case['class'], case['seq']))
        return
    get_packets = dict(((d, s), g) for d, s, g in tables())[
        case['direction'], case['state']]
    found = [c for c in get_packets(env.context)
             if c.__name__ == case['class']]
    if not found:
        raise ToolError('C05 replay: %s not in the %s/%s table at %s'
                        % (case['class'], case['direction'], case['state'],
                           vfmt(case['version'])))
    label = case.get('label')
    run_class(ctx, env, case['direction'], case['state'], found[0],
              only_label=None if label in ('<instantiate>', '<prepare>')
              else label)
