"""C12 - concurrent writers: every packet hits the wire once, whole, in order.

Stateless preemption-bounded exploration (vf.explore) of the real Connection:
user threads issue queued writes, forced writes and disconnects against the
networking thread's own write loop.  Scheduling points: controlled lock and
queue operations, every virtual socket/file/select operation, thread
start/finish/join and every bytecode of connection.py that touches a shared
attribute.  The oracle is the independent server's deframed byte log.
"""
from vf import harness, explore, statehash
from vf.runner import ToolError, REPO

LEVEL = 'model_checking'
RULE = ('For each thread program (P1 two queued writes || one forced write, '
        'then join and disconnect; P2 queued+forced || two queued || '
        'concurrent disconnect; P3 two queued || disconnect(immediate); '
        'P4 three writers one op each, then disconnect; after P3 the same '
        'object connects again and must not send leftovers; plus, on the '
        'canonical schedule, n queued packets then disconnect for n around '
        'the 300-packet write batch) under {plain, '
        'compression with a threshold that compresses some packets, '
        'encryption}: all schedules with at most 2 (quick) / 3 (thorough) '
        'preemptions inside the window that starts when the play state is '
        'reached, choice 0 elsewhere.  states = distinct (agent program '
        'counters, bytes on the wire) vectors seen at choice points; '
        'transitions = scheduling points executed; traces = executions, all '
        'on the real code.  distinct_nontrivial = distinct observable '
        'outcomes (server frame sequence + thread results).  P5: a listener '
        'on the networking thread forces a write while a user thread forces '
        'one.  P6 (login): the server sends a plugin request and the '
        'encryption request in one burst; a user thread answers the plugin '
        'request with a forced write while the networking thread switches to '
        'encryption: the answer must arrive exactly once, in clear before or '
        'encrypted after the encryption response.  P7: an outgoing-packet '
        'listener calls disconnect() from inside the write of the second of '
        'four queued packets: nothing twice, nothing out of order, socket '
        'closed.')
ASSUMPTIONS = ['single bytecodes are atomic (CPython GIL)',
               'nothing is claimed beyond the preemption bound',
               'vnet models the socket API (selftest/vnet_conformance)']

# a2: > 127 bytes raw but < 128 compressed (the two lengths need different
# VarInt widths); b1: above the threshold, both lengths one byte wide
TEXT = {'a1': 'a1', 'a2': 'a2' + 'x' * 200, 'b': 'b', 'b1': 'b1' + 'y' * 66,
        'b2': 'b2', 'c': 'c' * 3, 'L': 'L' + 'w' * 150}

PROGRAMS = {
    # name: (threads {tid: [ops]}, final driver ops after join)
    'P1': ({'A': [('q', 'a1'), ('q', 'a2')], 'B': [('f', 'b')]},
           [('disc', False)]),
    'P2': ({'A': [('q', 'a1'), ('f', 'a2')], 'B': [('q', 'b1'), ('q', 'b2')],
            'D': [('disc', False)]}, []),
    'P3': ({'A': [('q', 'a1'), ('q', 'a2')], 'D': [('disc', True)]}, []),
    'P4': ({'A': [('q', 'a1')], 'B': [('f', 'b')], 'C': [('q', 'c')]},
           [('disc', False)]),
    # a packet listener running on the networking thread issues a forced
    # write (the server's keep-alive 55 triggers it) while a user thread
    # forces one too
    'P5': ({'A': [('srv', 55)], 'B': [('f', 'b')]}, [('disc', False)]),
}
MODES = ('plain', 'compress', 'encrypt')
VERSION = 757
CANON = statehash.Canon(REPO, (__file__,))


def login_race_body(W):
    """P6: a user thread forces a write while the networking thread switches
    the connection to encryption.  The server sends a login plugin request
    and the encryption request in one burst; an early listener takes the
    plugin request over and a user thread answers it with a forced write.
    Whatever the interleaving, everything after the encryption response must
    reach the server encrypted (and everything before it in clear)."""
    S = W.S
    from minecraft.networking.connection import IgnorePacket
    from minecraft.networking.packets import serverbound, clientbound
    W.serve(login=[('plugin', 7, 'vf:chan', b'x'),
                   ('encrypt', 'srv', b'\x01\x02\x03\x04')],
            mode='burst', rsa=harness.rsa_key())
    errs = []
    conn = W.connection(allowed_versions={VERSION},
                        handle_exception=lambda e, i: errs.append(
                            type(e).__name__))
    flag = {'go': False}

    def take_over(p):
        flag['go'] = True
        raise IgnorePacket
    conn.register_packet_listener(
        take_over, clientbound.login.PluginRequestPacket, early=True)
    conn.connect()          # nothing written or read yet
    results = {}
    S.state_fn = statehash.make_state_fn(W, CANON, [conn],
                                         extra=lambda: (results, errs, flag))

    def user():
        S.block_until(lambda: flag['go'], 'wait-for-request')
        S.event('call', 'A:f:plugin')
        try:
            conn.write_packet(serverbound.login.PluginResponsePacket(
                message_id=7, successful=False), force=True)
            results['A'] = 'ok'
        except Exception as e:
            results['A'] = type(e).__name__
        S.event('ret', 'A:f:plugin')
    S.window = True
    a = S.spawn(user, name='userA')
    S.join(a)
    S.wait_quiescent()
    S.window = False
    W.settle()
    srv = W.servers[-1]
    viol = []
    if srv.errors:
        viol.append(('torn-or-malformed-frame',
                     'a forced write from a user thread during the switch '
                     'to encryption: the server could not make sense of the '
                     'client byte stream: %s' % srv.errors[:2]))
    elif srv.secret is None:
        viol.append(('no-encryption', 'the server never received a usable '
                     'encryption response (client errors %r)' % (errs,)))
    elif [tuple(r) for r in srv.plugin_replies] != [(7, False, None)]:
        viol.append(('lost-or-duplicated', 'the plugin response written '
                     'with force=True reached the server as %r, expected '
                     'exactly one (7, unsuccessful)' % (srv.plugin_replies,)))
    if results.get('A') != 'ok':
        viol.append(('write-raised', 'the forced write raised %r'
                     % (results.get('A'),)))
    if [e for e in errs]:
        viol.append(('client-error', 'errors reported: %r' % (errs,)))
    outcome = ('P6', tuple(results.items()),
               'reply %s the switch' % (
                   'after' if srv.encrypted_rx_bytes > 0 else 'before'))
    conn.disconnect(immediate=True)
    W.settle()
    return {'outcome': outcome, 'violations': viol}


def listener_disconnect_body(W, mode):
    """P7: an outgoing-packet listener (it runs on whichever thread writes,
    inside the write, under the re-entrant write lock) calls disconnect()
    when it sees the packet 'bye'.  Every queued packet must still reach the
    wire exactly once, in order, and the socket must be closed."""
    S = W.S
    from minecraft.networking.packets import serverbound
    login = [('compress', 64)] if mode == 'compress' else []
    W.serve(login=login + [('success',)], rsa=harness.rsa_key())
    errs = []
    conn = W.connection(allowed_versions={VERSION},
                        handle_exception=lambda e, i: errs.append(
                            '%s: %s' % (type(e).__name__, e)))
    seen = []

    def on_out(p):
        seen.append(p.message)
        if p.message == 'bye' and seen.count('bye') == 1:
            conn.disconnect()
    conn.register_packet_listener(on_out, serverbound.play.ChatPacket,
                                  outgoing=True)
    conn.connect()
    W.settle()
    srv = W.servers[-1]
    if srv.state != 'play':
        raise ToolError('set-up did not reach play')
    S.state_fn = statehash.make_state_fn(W, CANON, [conn],
                                         extra=lambda: (seen, errs))
    msgs = ['a1', 'bye', TEXT['L'], 'c']

    def user():
        for m in msgs:
            conn.write_packet(serverbound.play.ChatPacket(message=m))
    S.window = True
    a = S.spawn(user, name='userA')
    S.join(a)
    S.wait_quiescent()
    S.window = False
    W.settle()
    got = [r[1] for r in srv.play_rx if r[0] == 'chat']
    viol = []
    if srv.errors:
        viol.append(('torn-or-malformed-frame', 'server: %s'
                     % srv.errors[:2]))
    # whatever was queued when the listener disconnected is flushed; what
    # the user thread queues after that may or may not go out - but nothing
    # twice, nothing out of order
    if any(got.count(m) > 1 for m in got):
        viol.append(('duplicated', 'an outgoing listener called '
                     'disconnect() from inside the write of \'bye\': the '
                     'wire carried %r' % ([g[:6] for g in got],)))
    elif [m for m in msgs if m in got] != got or 'bye' not in got or \
            'a1' not in got:
        viol.append(('lost-or-reordered', 'wire carried %r for the queue %r'
                     % ([g[:6] for g in got], [m[:6] for m in msgs])))
    if not srv.client_gone:
        viol.append(('not-closed', 'the socket was not closed after the '
                     'listener\'s disconnect()'))
    real = [e for e in errs if not e.startswith(('ValueError', 'EOFError',
                                                 'OSError', 'BrokenPipe'))]
    if real:
        viol.append(('client-error', 'errors reported: %r' % (real,)))
    return {'outcome': ('P7', tuple(g[:6] for g in got)),
            'violations': viol}


def body(W, prog, mode):
    if prog == 'P6':
        return login_race_body(W)
    if prog == 'P7':
        return listener_disconnect_body(W, mode)
    S = W.S
    login = []
    if mode == 'encrypt':
        login.append(('encrypt', 'srv', b'\x01\x02\x03\x04'))
    if mode == 'compress':
        login.append(('compress', 64))
    login.append(('success',))
    W.serve(login=login, rsa=harness.rsa_key())
    errs = []
    conn = W.connection(allowed_versions={VERSION},
                        handle_exception=lambda e, i: errs.append(
                            type(e).__name__),
                        handle_exit=lambda: S.event('exit'))
    from minecraft.networking.packets import serverbound, clientbound

    def forced_from_listener(p):
        if p.keep_alive_id == 55:
            conn.write_packet(serverbound.play.ChatPacket(message=TEXT['L']),
                              force=True)
    if prog == 'P5':
        conn.register_packet_listener(forced_from_listener,
                                      clientbound.play.KeepAlivePacket)
    conn.connect()
    W.settle()
    srv = W.servers[-1]
    if srv.state != 'play' or type(conn.reactor).__name__ != 'PlayingReactor':
        if srv.errors:
            # single-threaded set-up already puts malformed frames on the
            # wire: that is this property's business, not a tool problem
            return {'outcome': ('setup', tuple(srv.errors[:1])),
                    'violations': [(
                        'torn-or-malformed-frame',
                        'already during the single-threaded login the server '
                        'could not deframe the client byte stream: %s'
                        % srv.errors[:2])]}
        raise ToolError('set-up did not reach play: %r %r %r'
                        % (srv.state, srv.errors, errs))
    base = len(S.log)
    threads, final = PROGRAMS[prog]
    results = {}
    S.state_fn = statehash.make_state_fn(W, CANON, [conn],
        extra=lambda: (results, errs))

    def do(tid, op):
        kind, arg = op
        tag = '%s:%s:%s' % (tid, kind, arg)
        S.event('call', tag)
        try:
            if kind == 'q':
                conn.write_packet(serverbound.play.ChatPacket(
                    message=TEXT[arg]))
            elif kind == 'f':
                conn.write_packet(serverbound.play.ChatPacket(
                    message=TEXT[arg]), force=True)
            elif kind == 'disc':
                conn.disconnect(immediate=arg)
            elif kind == 'srv':
                srv.play(('keepalive', arg))
        except Exception as e:
            S.event('raise', tag, type(e).__name__)
            results[tag] = type(e).__name__
        else:
            S.event('ret', tag)
            results[tag] = 'ok'

    def runner(tid, ops):
        def f():
            for op in ops:
                do(tid, op)
        return f

    S.window = True
    agents = [S.spawn(runner(tid, ops), name='user' + tid)
              for tid, ops in sorted(threads.items())]
    for a in agents:
        S.join(a)
    S.wait_quiescent()
    # the window covers the concurrent phase only; a final disconnect from
    # the driver (P1, P4) runs on the canonical schedule - disconnects that
    # race with writers are the business of P2 and P3
    S.window = False
    for op in final:
        do('M', op)
    S.wait_quiescent()
    # let a still-running networking thread see the end of the stream
    for s in W.servers:
        s.close()
    W.settle()
    out = judge(W, S, conn, srv, prog, mode, results, errs, base)
    if prog == 'P3' and not out['violations'] and not S.live():
        # 'an immediate disconnect sends nothing further' - not on the next
        # connection of the same object either
        n0 = len(W.servers)
        try:
            conn.connect()
            W.settle()
        except Exception as e:
            out['violations'].append(('reconnect-failed', 'connect() after '
                                      'the immediate disconnect raised %s: '
                                      '%s' % (type(e).__name__, e)))
        else:
            srv2 = W.servers[-1]
            stale = [r for r in srv2.play_rx if r[0] == 'chat']
            if len(W.servers) == n0 or srv2.errors or stale or \
                    srv2.state != 'play':
                out['violations'].append((
                    'stale-packets-after-immediate-disconnect',
                    'on the next connection of the same object the server '
                    'saw errors %r / chat frames %r (state %s): packets left '
                    'over from before disconnect(immediate=True) were sent'
                    % (srv2.errors[:2], [c[1][:4] for c in stale],
                       srv2.state)))
    return out


def judge(W, S, conn, srv, prog, mode, results, errs, base):
    viol = []
    log = S.log[base:]
    idx = {}
    for i, ev in enumerate(log):
        if ev[0] in ('call', 'ret', 'raise'):
            idx[(ev[0], ev[1])] = i
    threads, final = PROGRAMS[prog]
    all_ops = [(tid, op) for tid, ops in threads.items() for op in ops] + \
              [('M', op) for op in final]
    disc = [(tid, op) for tid, op in all_ops if op[0] == 'disc'][0]
    disc_tag = '%s:disc:%s' % (disc[0], disc[1][1])
    immediate = bool(disc[1][1])
    disc_call = idx[('call', disc_tag)]
    disc_ret = idx.get(('ret', disc_tag))
    if disc_ret is None:
        viol.append(('disconnect-raised',
                     'disconnect raised %s' % results.get(disc_tag)))
    # 1. whole frames only
    if srv.errors:
        viol.append(('torn-or-malformed-frame',
                     'the server could not deframe the client byte stream: '
                     '%s' % srv.errors[:2]))
    if srv.pt:
        viol.append(('partial-frame-at-end',
                     '%d bytes of an incomplete frame remain at the server '
                     'after the connection ended: %s'
                     % (len(srv.pt), bytes(srv.pt[:20]).hex())))
    chats = [r[1] for r in srv.play_rx if r[0] == 'chat']
    others = [r for r in srv.play_rx if r[0] != 'chat'
              and not (prog == 'P5' and r == ('keepalive', 55))]
    if others:
        viol.append(('unexpected-frame', 'server received %r' % others[:3]))
    # 2. exactly once for packets handed in before the disconnect began;
    #    never more than once; nothing that was not handed in
    handed = {}
    for tid, op in all_ops:
        if op[0] in ('q', 'f'):
            handed[TEXT[op[1]]] = '%s:%s:%s' % (tid, op[0], op[1])
    if prog == 'P5':
        handed[TEXT['L']] = 'listener:f:L'
    for msg in set(chats):
        if msg not in handed:
            viol.append(('alien-frame', 'chat %r was never written' % msg))
        elif chats.count(msg) > 1:
            viol.append(('duplicate-frame', 'chat %r arrived %d times'
                         % (msg[:8], chats.count(msg))))
    for msg, tag in handed.items():
        ret = idx.get(('ret', tag))
        if ret is not None and ret < disc_call and msg not in chats \
                and not immediate:
            viol.append(('lost-packet',
                         'packet %s was handed to the connection before '
                         'disconnect() was called but never reached the '
                         'wire (server got %r)' % (tag, [c[:4] for c in
                                                         chats])))
        if results.get(tag) not in ('ok', None) and \
                idx.get(('raise', tag), 0) < disc_call:
            viol.append(('write-raised', 'write_packet %s raised %s before '
                         'any disconnect' % (tag, results[tag])))
    # 3. queued packets of one thread in program order
    for tid, ops in threads.items():
        seq = [TEXT[a] for k, a in ops if k == 'q']
        got = [c for c in chats if c in seq]
        want = [m for m in seq if m in got]
        if got != want:
            viol.append(('reordered', 'thread %s queued %r but the wire '
                         'shows %r' % (tid, [m[:4] for m in seq],
                                       [m[:4] for m in got])))
    # 4./5. disconnect semantics
    sends_after = [ev for i, ev in enumerate(log)
                   if ev[0] == 'send' and disc_ret is not None
                   and i > disc_ret]
    if sends_after:
        viol.append(('send-after-disconnect',
                     '%d bytes were sent after disconnect() returned'
                     % sum(len(e[3]) for e in sends_after)))
    if immediate:
        # an immediate disconnect sends nothing itself (others may still be
        # sending while it waits for the lock; once it returns, nobody may)
        who = [a.id for a in S.agents if a.name == 'user' + disc[0]]
        end = disc_ret if disc_ret is not None else len(log)
        own = [ev for i, ev in enumerate(log) if ev[0] == 'send'
               and disc_call < i < end and ev[2] in who]
        if own:
            viol.append(('immediate-disconnect-sent',
                         'disconnect(immediate=True) itself sent %d bytes '
                         '(queued packets were flushed)'
                         % sum(len(e[3]) for e in own)))
    if not srv.client_gone and disc_ret is not None:
        viol.append(('socket-not-closed', 'after disconnect() the server '
                     'does not see the connection closed'))
    # 6. everything terminates
    live = S.live()
    if live:
        viol.append(('thread-never-ends', 'after disconnect and end of '
                     'stream these agents are still alive: %r' % live))
    for a in S.agents:
        if a.exc is not None and a.name.startswith('user'):
            raise ToolError('user agent crashed: %r' % a.exc)
    outcome = (tuple(c[:3] for c in chats),
               tuple(sorted((k, v) for k, v in results.items())),
               tuple(sorted(set(errs))), bool(srv.client_gone))
    return {'outcome': outcome, 'violations': viol}


def bulk_body(W, n, mode):
    """n queued packets, then a non-immediate disconnect: everything queued
    before it is sent, in order, whatever the write-batch limit."""
    S = W.S
    login = [('compress', 64)] if mode == 'compress' else []
    W.serve(login=login + [('success',)])
    errs = []
    conn = W.connection(allowed_versions={VERSION},
                        handle_exception=lambda e, i: errs.append(
                            type(e).__name__))
    from minecraft.networking.packets import serverbound
    conn.connect()
    W.settle()
    srv = W.servers[-1]
    msgs = ['m%d' % i + 'z' * (i % 90) for i in range(n)]
    for m in msgs:
        conn.write_packet(serverbound.play.ChatPacket(message=m))
    conn.disconnect()
    W.settle()
    for s in W.servers:
        s.close()
    W.settle()
    got = [r[1] for r in srv.play_rx if r[0] == 'chat']
    viol = []
    if srv.errors:
        viol.append(('torn-or-malformed-frame', 'server errors %r'
                     % srv.errors[:2]))
    if got != msgs:
        viol.append(('bulk-flush', '%d packets were queued before a '
                     'non-immediate disconnect(); the server received %d '
                     '(first difference at index %d)'
                     % (n, len(got), next((i for i, (a, b) in enumerate(
                         zip(got, msgs)) if a != b), min(len(got),
                                                         len(msgs))))))
    if S.live():
        viol.append(('thread-never-ends', 'threads alive: %r' % S.live()))
    return {'outcome': (len(got), tuple(sorted(set(errs)))),
            'violations': viol}


def w_bulk(ctx, task):
    n, mode = task
    x = harness.run(lambda W: bulk_body(W, n, mode), horizon=200000)
    ctx.count()
    ctx.traces += 1
    ctx.transitions += x.steps
    res = x.result or {}
    viol = list(res.get('violations', ()))
    if x.failure is not None:
        viol.append((x.failure[0], '%s: %s' % x.failure))
    ctx.outcome('bulk %s' % (res.get('outcome'),))
    for key, what in viol:
        ctx.violation('bulk/%s n=%d %s' % (mode, n, key), what,
                      {'bulk': n, 'mode': mode})


def factory(params):
    prog, mode = params['prog'], params['mode']

    def scenario(prefix, expect, visited=None, budget=0):
        return harness.run(lambda W: body(W, prog, mode), prefix,
                           tracing=True, expect=expect, horizon=30000,
                           visited=visited, budget=budget if budget != 'replay' else 0,
                           lenient=budget == 'replay')
    return scenario


# (program, mode) -> preemption bound per tier.  Costs measured on 16 cores
# with the shared visited table: P1/P3 bound 2 ~ 6-10 s, P4 bound 2 ~ 60 s,
# P2 bound 1 ~ 15 s, P2 bound 2 ~ 6 min.
QUICK = {('P1', 'plain'): 2, ('P1', 'compress'): 2, ('P1', 'encrypt'): 2,
         ('P5', 'plain'): 2, ('P5', 'encrypt'): 1,
         ('P3', 'plain'): 2, ('P3', 'compress'): 1, ('P3', 'encrypt'): 1,
         ('P2', 'plain'): 1, ('P4', 'plain'): 1, ('P6', 'encrypt'): 1,
         ('P7', 'plain'): 1, ('P7', 'compress'): 1}
THOROUGH = {(p, m): 2 for p in PROGRAMS for m in MODES}
THOROUGH.update({('P1', 'plain'): 3, ('P3', 'plain'): 3, ('P6', 'encrypt'): 2,
                 ('P7', 'plain'): 2, ('P7', 'compress'): 2})


def run(ctx):
    plan = THOROUGH if ctx.thorough else QUICK
    total_pre = 0
    ex = explore.Explorer(table_bits=25 if ctx.thorough else 23)
    try:
        total_pre = _run(ctx, ex, plan)
    finally:
        ex.close()
    # canonical schedule, sizes around the 300-packet write batch
    sizes = [1, 50, 299, 300, 301, 350] + ([600, 601, 950]
                                           if ctx.thorough else [])
    ctx.pmap(w_bulk, [(n, m) for n in sizes for m in ('plain', 'compress')])
    ctx.extra['executions_with_preemption'] = total_pre
    ctx.sample({'program': 'P1', 'threads': PROGRAMS['P1'][0],
                'then': PROGRAMS['P1'][1], 'mode': 'plain',
                'schedule': 'choice list, e.g. [0,0,1,0,2]: index into the '
                'enabled agents (running agent first, then ascending id) at '
                'each choice point'})


def _run(ctx, ex, plan):
    total_pre = 0
    for (prog, mode), b in sorted(plan.items()):
        params = {'prog': prog, 'mode': mode}
        res = ex.explore(ctx, factory, params, b,
                         label='%s/%s ' % (prog, mode))
        ctx.cls('%s/%s bound=%d' % (prog, mode, b))
        ctx.extra['%s/%s' % (prog, mode)] = {
            'preemption_bound': b, 'complete_executions': res.execs,
            'executions_cut_at_a_visited_state': res.pruned,
            'states_hashed': res.state_keys,
            'distinct_outcomes': len(res.outcomes),
            'executions_with_preemption': res.with_pre}
        total_pre += res.with_pre
        if len(res.outcomes) < 2 and b >= 1 and not res.violations:
            raise ToolError('vacuous exploration: %s/%s has one outcome'
                            % (prog, mode))
    return total_pre


def replay(ctx, case):
    harness.setup()
    if 'bulk' in case:
        return w_bulk(ctx, (case['bulk'], case['mode']))
    scenario = factory(case['params'])
    x = scenario(list(case['choices']), None, None, 'replay')
    if getattr(x, 'diverged', False):
        print('  note: the recorded schedule cannot be followed on this tree '
              '(different choice points); what the execution did instead is '
              'judged below')
    ctx.count()
    res = x.result or {}
    viol = list(res.get('violations', ()))
    if x.failure is not None:
        viol.append((x.failure[0], '%s: %s' % x.failure))
    for key, what in viol:
        ctx.violation('%s/%s %s' % (case['params']['prog'],
                                    case['params']['mode'], key), what, case)
