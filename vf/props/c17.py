"""C17 - session server hash = Java BigInteger(sha1).toString(16).

generate_verification_hash(server_id, shared_secret, public_key) must equal
the SHA-1 of  utf8(server_id) || secret || key  read as a signed big-endian
number and printed in lower-case hex, no leading zeros, '-' when negative.

Oracle: hashlib.sha1 over bytes assembled here (server id encoded by a
hand-written UTF-8 encoder, not by str.encode) and formatted by
vf.refproto.javahash.java_hex (two's-complement negation on bytes; never
int.from_bytes(signed=True)).  The published vectors are additionally compared
against their literal strings.
"""
import hashlib
import itertools
import random

from vf.runner import use_repo, ToolError
from vf.refproto import javahash as ref

LEVEL = 'exploration'
RULE = ('Every server id of length 0..2 (quick) / 0..3 (thorough) over a '
        'fixed 40-code-point alphabet (ASCII letters, digits, "-", space, '
        'NUL, DEL, and 18 non-ASCII characters sitting on every UTF-8 width '
        'boundary: widths 2, 3 and 4) x 4 secrets (00*16, ff*16, 00..0f, one '
        'seed-derived) x 3 keys (empty, 1 byte, a 162-byte DER-shaped RSA '
        'SubjectPublicKeyInfo); plus the three published vectors (Notch, '
        'jeb_, simon) through both minecraft_sha1_hash_digest and '
        'generate_verification_hash, plus explicit triples whose six part '
        'orders give six different digests.  Every case is one real digest '
        'computation and therefore non-trivial; (id, secret, key) triples '
        'are enumerated without repetition, so distinct by construction.  '
        'Classes (top bit set, leading zero nibble / byte after sign '
        'handling, part swaps observable) are counted from the reference '
        'digest and must all be non-empty.')
ASSUMPTIONS = ['hashlib.sha1 (shared with pyCraft as the platform SHA-1) is '
               'correct; checked against the three published vectors',
               'server ids are Unicode strings without lone surrogates (they '
               'arrive as UTF-8 on the wire)']

# -- alphabet -----------------------------------------------------------------

ALPHA = ([ord(c) for c in 'abejnszAJNZ'] +            # 11 letters
         [ord(c) for c in '01579'] +                  # 5 digits
         [ord(c) for c in '- _.'] +                   # 4 punctuation
         [0x00, 0x7F] +                               # ASCII edges
         [0x80, 0xDF, 0xE9, 0xFF, 0x100, 0x3A9, 0x7FF] +            # width 2
         [0x800, 0x20AC, 0x4E2D, 0xD7FF, 0xE000, 0xFEFF, 0xFFFD,
          0xFFFF] +                                                  # width 3
         [0x10000, 0x1F600, 0x10FFFF])                               # width 4
N = len(ALPHA)


def utf8(cp):
    """UTF-8 by the bit layout of RFC 3629; no codec machinery."""
    if cp < 0x80:
        return bytes([cp])
    if cp < 0x800:
        return bytes([0xC0 | cp >> 6, 0x80 | cp & 0x3F])
    if cp < 0x10000:
        return bytes([0xE0 | cp >> 12, 0x80 | cp >> 6 & 0x3F,
                      0x80 | cp & 0x3F])
    return bytes([0xF0 | cp >> 18, 0x80 | cp >> 12 & 0x3F,
                  0x80 | cp >> 6 & 0x3F, 0x80 | cp & 0x3F])


ALPHA_B = [utf8(cp) for cp in ALPHA]
ALPHA_C = [chr(cp) for cp in ALPHA]

# -- secrets and keys ---------------------------------------------------------

DER162 = (bytes.fromhex('30819f300d06092a864886f70d010101050003818d00'
                        '308189028181 00'.replace(' ', '')) +
          bytes([0x80 | 0xC1] + [(0xC1 + 0x3B * i) & 0xFF
                                 for i in range(1, 128)]) +
          bytes.fromhex('0203010001'))
KEYS = [('empty', b''), ('one', b'\x01'), ('der162', DER162)]


def secrets_for(seed):
    out = [('zero', b'\x00' * 16), ('ones', b'\xff' * 16),
           ('counter', bytes(range(16)))]
    s = hashlib.blake2b(b'C17 secret %d' % seed, digest_size=16).digest()
    if s not in [b for _, b in out]:
        out.append(('seed:' + s.hex(), s))
    return out


VECTORS = [('Notch', '4ed1f46bbe04bc756bcb17c0c7ce3e4632f06a48'),
           ('jeb_', '-7c9d5b0044c130109a5d7b5fb5c317c02b4e28c1'),
           ('simon', '88e16a1019277b15d58faf0541e11910eb756f6')]

# (code points, secret, key): all six orders of the parts differ
ORDER_CASES = [
    ([ord(c) for c in 'Notch'], bytes(range(16)), DER162),
    ([0xE9, 0x20AC, 0x1F600], b'\xff' * 16, b'\x01'),
    ([ord('a')], b'a' * 15 + b'b', b'ba'),          # shared prefixes
    ([0x00], b'\x00' * 15 + b'\x01', b'\x01\x00'),
    ([ord('-')], b'\x2d' * 8 + b'\x00' * 8, DER162[:2]),
    ([0x30, 0x81, 0x9F], DER162[:16], DER162),       # id is a prefix of key
    ([ord(c) for c in 'jeb_'], b'\x00' * 16, b'\x00\x01'),
]

MAXV_PER_TASK = 2       # violations recorded in full per task; all counted

C_NEG = 'digest negative (top bit set)'
C_POS = 'digest positive'
C_ZN = 'leading zero nibble after sign handling'
C_ZB = 'leading zero byte after sign handling'
C_SW = ('swap id/secret observable', 'swap id/key observable',
        'swap secret/key observable')
REQUIRED = [C_NEG, C_POS, C_ZN, C_ZB, C_ZN + ' [negative]',
            C_ZN + ' [positive]', C_ZB + ' [negative]',
            C_ZB + ' [positive]', 'non-ascii server id',
            'server id utf8 width 2', 'server id utf8 width 3',
            'server id utf8 width 4'] + list(C_SW)


def load():
    use_repo()
    from minecraft.networking import encryption
    return (encryption.generate_verification_hash,
            encryption.minecraft_sha1_hash_digest)


def selfcheck():
    """The harness' own trusted parts; any failure is a tool error."""
    if N != 40 or len(set(ALPHA)) != 40:
        raise ToolError('alphabet must hold 40 distinct symbols')
    if len(DER162) != 162:
        raise ToolError('DER blob is %d bytes' % len(DER162))
    lit = {0xE9: 'c3a9', 0x7FF: 'dfbf', 0x800: 'e0a080', 0x20AC: 'e282ac',
           0xFFFF: 'efbfbf', 0x10000: 'f0908080', 0x1F600: 'f09f9880',
           0x10FFFF: 'f48fbfbf', 0x7F: '7f', 0x80: 'c280'}
    for cp, hx in lit.items():
        if utf8(cp).hex() != hx:
            raise ToolError('utf8(U+%04X) = %s, expected %s'
                            % (cp, utf8(cp).hex(), hx))
    for cp, b in zip(ALPHA, ALPHA_B):
        d = hashlib.sha1(b + b'\x07' + DER162).digest()
        if ref.java_hex(d) != ref.server_hash(chr(cp), b'\x07', DER162):
            raise ToolError('reference encoders disagree on U+%04X' % cp)
    for name, want in VECTORS:
        if ref.java_hex(hashlib.sha1(name.encode('ascii')).digest()) != want:
            raise ToolError('reference formatter fails vector %s' % name)
    for cps, sec, key in ORDER_CASES:
        parts = (b''.join(map(utf8, cps)), sec, key)
        cats = set(b''.join(p) for p in itertools.permutations(parts))
        if len(cats) != 6:
            raise ToolError('order case %r has commuting parts' % (cps,))


def explain(got, cps, sec, key):
    """Best-effort hint (for the report text only) why got differs."""
    if not isinstance(got, str):
        return 'result is %s, not str' % type(got).__name__
    idb = b''.join(map(utf8, cps))
    d = hashlib.sha1(idb + sec + key).digest()
    want = ref.java_hex(d)
    if got == d.hex().lstrip('0'):
        return 'equals the UNSIGNED hex of the digest'
    if got == d.hex():
        return 'equals the plain zero-padded hexdigest'
    if got != got.lower() and got.lower() == want:
        return 'right digits but upper-case'
    if got.lstrip('-').lstrip('0') == want.lstrip('-') and \
            got.startswith('-') == want.startswith('-'):
        return 'right number but zero-padded'
    names = ('id', 'secret', 'key')
    for perm in itertools.permutations(range(3)):
        if perm == (0, 1, 2):
            continue
        cat = b''.join((idb, sec, key)[i] for i in perm)
        if got == ref.java_hex(hashlib.sha1(cat).digest()):
            return 'equals the hash of the parts in the order %s' % '+'.join(
                names[i] for i in perm)
    sid = ''.join(map(chr, cps))
    for enc in ('latin-1', 'ascii', 'utf-16', 'utf-16-le', 'utf-16-be',
                'utf-32', 'utf-8-sig', 'cp1252'):
        for err in ('replace', 'ignore', 'xmlcharrefreplace',
                    'backslashreplace'):
            try:
                alt = sid.encode(enc, err)
            except Exception:
                continue
            if alt != idb and got == ref.java_hex(
                    hashlib.sha1(alt + sec + key).digest()):
                return ('equals the hash with the server id encoded as '
                        '%s/%s' % (enc, err))
    return 'no simple explanation found'


def id_text(cps):
    return ','.join('U+%04X' % c for c in cps) or '(empty)'


def judge(ctx, gen, cps, sid, idb, sname, sec, kname, key, cl, full=True):
    """One triple on the real code.  Returns True when it agrees."""
    d = hashlib.sha1(idb + sec + key).digest()
    want = ref.java_hex(d)
    try:
        got = gen(sid, sec, key)
        err = None
    except Exception as e:          # nothing may escape for str/bytes inputs
        got, err = None, e
    neg = d[0] >= 0x80
    digits = len(want) - (1 if neg else 0)
    tag = ' [negative]' if neg else ' [positive]'
    cl[C_NEG if neg else C_POS] += 1
    if digits < 40:
        cl[C_ZN] += 1
        cl[C_ZN + tag] += 1
        if digits <= 38:
            cl[C_ZB] += 1
            cl[C_ZB + tag] += 1
    if idb + sec != sec + idb:
        cl[C_SW[0]] += 1
    if idb + sec + key != key + sec + idb:
        cl[C_SW[1]] += 1
    if sec + key != key + sec:
        cl[C_SW[2]] += 1
    if got == want and type(got) is str:
        cl[('out:-' if neg else 'out:+') + 'digits=%d' % digits] += 1
        return True
    cl['out:mismatch'] += 1
    if full:
        case = {'kind': 'triple', 'id_cp': list(cps), 'secret': sec,
                'key': key, 'id_repr': repr(sid)}
        k = 'hash id=%s secret=%s key=%s' % (id_text(cps), sname, kname)
        if err is not None:
            what = ('generate_verification_hash(%r, %s, <%d-byte key>) raised '
                    '%s: %s; expected %r' % (sid, sec.hex(), len(key),
                                             type(err).__name__, err, want))
        else:
            what = ('generate_verification_hash(%r, %s, <%d-byte key %s>) = '
                    '%r; Java BigInteger(sha1(utf8(id)+secret+key))'
                    '.toString(16) = %r (digest %s).  Hint: %s'
                    % (sid, sec.hex(), len(key), kname, got, want, d.hex(),
                       explain(got, cps, sec, key)))
        ctx.violation(k, what, case)
    return False


def flush(ctx, cl):
    for label, n in cl.items():
        if label.startswith('out:'):
            ctx.outcome(label[4:], n)
        else:
            ctx.cls(label, n)


def w_ids(ctx, task):
    """All ids  prefix + (every tail of length `tail`)  x secrets x keys."""
    import collections
    prefix, tail = task
    gen = load()[0]
    secrets = secrets_for(ctx.seed)
    cl = collections.Counter()
    n = bad = 0
    for rest in itertools.product(range(N), repeat=tail):
        idx = prefix + rest
        cps = [ALPHA[i] for i in idx]
        sid = ''.join(ALPHA_C[i] for i in idx)
        idb = b''.join(ALPHA_B[i] for i in idx)
        k = len(secrets) * len(KEYS)
        if len(idb) > len(idx):
            cl['non-ascii server id'] += k
            for w in set(len(ALPHA_B[i]) for i in idx):
                if w > 1:
                    cl['server id utf8 width %d' % w] += k
        cl['server id length %d' % len(idx)] += k
        for sname, sec in secrets:
            for kname, key in KEYS:
                n += 1
                if not judge(ctx, gen, cps, sid, idb, sname, sec, kname, key,
                             cl, full=bad < MAXV_PER_TASK):
                    bad += 1
    flush(ctx, cl)
    ctx.count(n)
    ctx.note_distinct(n)
    if bad:
        ctx.extra['mismatching_triples'] = bad


def check_vector(ctx, name, route):
    gen, dig = load()
    want = dict(VECTORS)[name]
    raw = b''.join(utf8(ord(c)) for c in name)
    try:
        if route == 'digest':
            got = dig(hashlib.sha1(raw))
        else:
            got = gen(name, b'', b'')
    except Exception as e:
        got = '%s: %s' % (type(e).__name__, e)
    ctx.count()
    ctx.note_distinct(1)
    ctx.cls('published vector')
    if got == want and type(got) is str:
        ctx.outcome(('-' if want[0] == '-' else '+') + 'digits=%d'
                    % len(want.lstrip('-')))
        return
    ctx.outcome('mismatch')
    fn = ('minecraft_sha1_hash_digest(sha1(%r))' % name if route == 'digest'
          else 'generate_verification_hash(%r, b"", b"")' % name)
    ctx.violation('vector %s via %s' % (name, route),
                  '%s = %r; the published value (wiki.vg, Protocol '
                  'Encryption) is %r' % (fn, got, want),
                  {'kind': 'vector', 'name': name, 'route': route})


def check_order_case(ctx, cps, sec, key):
    import collections
    gen = load()[0]
    cl = collections.Counter()
    sid = ''.join(map(chr, cps))
    idb = b''.join(map(utf8, cps))
    ctx.count()
    ctx.note_distinct(1)
    cl['explicit order case (6 distinct part orders)'] += 1
    judge(ctx, gen, cps, sid, idb, sec.hex(), sec, '%dB:%s' % (
        len(key), hashlib.sha1(key).hexdigest()[:8]), key, cl)
    flush(ctx, cl)


def run(ctx):
    use_repo()
    selfcheck()
    for name, _ in VECTORS:
        for route in ('digest', 'generate'):
            check_vector(ctx, name, route)
    for cps, sec, key in ORDER_CASES:
        check_order_case(ctx, cps, sec, key)
    maxlen = 3 if ctx.thorough else 2
    tasks = [((), 0), ((), 1)]
    tasks += [((a,), 1) for a in range(N)]
    if maxlen >= 3:
        tasks += [((a, b), 1) for a in range(N) for b in range(N)]
    random.Random(ctx.seed).shuffle(tasks)
    ctx.pmap(w_ids, tasks, chunksize=16 if maxlen >= 3 else 1)
    secrets = secrets_for(ctx.seed)
    n_ids = sum(N ** L for L in range(maxlen + 1))
    expected = n_ids * len(secrets) * len(KEYS) + 2 * len(VECTORS) \
        + len(ORDER_CASES)
    if ctx.evaluations != expected:
        raise ToolError('enumerated %d cases, expected %d'
                        % (ctx.evaluations, expected))
    vac = dict((label, int(ctx.classes.get(label, 0))) for label in REQUIRED)
    ctx.extra['vacuity_guard'] = vac
    ctx.extra['server_id_max_length'] = maxlen
    ctx.extra['server_ids'] = n_ids
    ctx.extra['alphabet'] = [id_text([c]) for c in ALPHA]
    ctx.extra['secrets'] = [n for n, _ in secrets]
    ctx.extra['keys'] = [n for n, _ in KEYS]
    ctx.sample({'id': 'Notch', 'secret': '', 'key': '',
                'java_hex': dict(VECTORS)['Notch']})
    ctx.sample({'id': 'jeb_', 'secret': '', 'key': '',
                'java_hex': dict(VECTORS)['jeb_']})
    ctx.sample({'id': id_text([0xE9, 0x20AC, 0x1F600]), 'secret': 'ff*16',
                'key': '01', 'java_hex': ref.java_hex(hashlib.sha1(
                    utf8(0xE9) + utf8(0x20AC) + utf8(0x1F600) +
                    b'\xff' * 16 + b'\x01').digest())})
    empty = [k for k, v in vac.items() if v == 0]
    if empty:
        raise ToolError('vacuous enumeration: no case in class(es) %s'
                        % ', '.join(empty))


def replay(ctx, case):
    use_repo()
    selfcheck()
    if case['kind'] == 'vector':
        check_vector(ctx, case['name'], case['route'])
        return
    import collections
    cps = [int(c) for c in case['id_cp']]
    sec, key = bytes(case['secret']), bytes(case['key'])
    names = dict((b, n) for n, b in secrets_for(ctx.seed))
    knames = dict((b, n) for n, b in KEYS)
    cl = collections.Counter()
    ctx.count()
    judge(ctx, load()[0], cps, ''.join(map(chr, cps)),
          b''.join(map(utf8, cps)), names.get(sec, sec.hex()), sec,
          knames.get(key, '%dB' % len(key)), key, cl)
    flush(ctx, cl)
