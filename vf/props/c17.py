"""C17 - session server hash = Java BigInteger(sha1).toString(16).

generate_verification_hash(server_id, shared_secret, public_key) must equal
the SHA-1 of  utf8(server_id) || secret || key  read as a signed big-endian
number and printed in lower-case hex, no leading zeros, '-' when negative.

Oracle: hashlib.sha1 over bytes assembled here (server id encoded by a
hand-written UTF-8 encoder, not by str.encode) and formatted by
vf.refproto.javahash.java_hex (two's-complement negation on bytes; never
int.from_bytes(signed=True)).  The published vectors are additionally compared
against their literal strings.  The key is whatever byte string the server
sent: besides arbitrary bytes the key alphabet holds real RSA keys in the
canonical SubjectPublicKeyInfo DER and in encodings that a DER loader accepts
or half-accepts but would not emit itself (bare PKCS#1, AlgorithmIdentifier
without parameters, BER long-form length, trailing bytes, PEM text), built here
octet by octet from the key's numbers; the hash is always over the bytes as
given.

Part 2 (the hash that is actually SENT).  Real logins through the connection
harness (vf.harness / vf.refserver) with a stub AuthenticationToken whose
join(server_id) records its argument: the reference server asks for
encryption, recovers the shared secret with its RSA key, and the string
handed to join() in that login must be the reference hash of (server id of
that login, the secret the server recovered in that login, the encoded public
key).  HISTORIES of 1..3 consecutive logins on ONE Connection object are
enumerated (same / different server ids, logins that reach play and logins
the server ends right after the encryption response, the server key sent in
its canonical or in another loadable encoding), every login judged.

Part 3 (the hash that is actually POSTED).  The same kind of logins with a
REAL AuthenticationToken whose HTTP layer is a recording stand-in: the session
service answers the join of a login with 204, with 403 (then grants or refuses
a token refresh, should the client ask for one), or with 500.  Every serverId
that reaches the stand-in, on every attempt of every login, must be the
reference hash of (server id, that login's secret, key bytes); whether the
client retries at all is not judged.
"""
import base64
import hashlib
import itertools
import random

from vf.runner import use_repo, ToolError
from vf.refproto import javahash as ref

LEVEL = 'exploration'
RULE = ('Every server id of length 0..2 (quick) / 0..3 (thorough) over a '
        'fixed 40-code-point alphabet (ASCII letters, digits, "-", space, '
        'NUL, DEL, and 18 non-ASCII characters sitting on every UTF-8 width '
        'boundary: widths 2, 3 and 4) x 4 secrets (00*16, ff*16, 00..0f, one '
        'seed-derived) x 11 keys: empty, 1 byte, a 162-byte DER-shaped blob '
        '(not a valid key), and encodings of two real RSA keys '
        '(vf.harness.rsa_key, 1024 and 2048 bit) written here octet by '
        'octet from (n, e) without pyCraft code: the canonical '
        'SubjectPublicKeyInfo DER of both (checked equal to what the '
        'platform emits), and for the 1024-bit key a bare PKCS#1 '
        'RSAPublicKey, a SubjectPublicKeyInfo whose AlgorithmIdentifier '
        'omits the NULL parameters, one whose AlgorithmIdentifier length is '
        'in BER long form (81 0d), the canonical DER followed by two '
        'trailing bytes, the PEM text; for the 2048-bit key also the bare '
        'PKCS#1 form.  The hash is always taken over the key bytes AS '
        'GIVEN; each key is classed by what the platform DER loader '
        '(cryptography, not pyCraft) makes of it - loadable and canonical / '
        'loadable but not the canonical encoding of that key / not '
        'loadable - and all three classes must be non-empty.  Plus the '
        'three published vectors (Notch, '
        'jeb_, simon) through both minecraft_sha1_hash_digest and '
        'generate_verification_hash, plus explicit triples whose six part '
        'orders give six different digests.  Every case is one real digest '
        'computation and therefore non-trivial; (id, secret, key) triples '
        'are enumerated without repetition, so distinct by construction.  '
        'Classes (top bit set, leading zero nibble / byte after sign '
        'handling, part swaps observable) are counted from the reference '
        'digest and must all be non-empty.  '
        'SENT (the string passed to AuthenticationToken.join in real logins '
        'against the reference server, protocol 757, one 1024-bit server '
        'key, 4-byte verify token, scripted OS random source): histories of '
        'k consecutive logins on ONE Connection object with a recording stub '
        'token; a login step is (server id, ending), ending "play" = login '
        'success, then the client disconnects, ending "drop" = the server '
        'closes the connection right after the encryption response (the '
        'next login follows directly), thorough also "kick" = an encrypted '
        'login Disconnect after the encryption response.  Server ids: A = '
        '"srv", B = U+00E9 U+20AC U+1F600, "" (empty), "-" (offline mode), '
        'S = three seed-chosen symbols of the alphabet above, F = U+FEFF '
        '"srv" (begins with the code point some codecs strip as a byte '
        'order mark).  Quick (70 '
        'histories with the key sent as canonical SubjectPublicKeyInfo): '
        'k=1: {A,B,"","-",S,F} x {play,drop}; k=2: every ordered '
        'pair of {A,B,"","-"} and (S,S), (F,A), (A,F) x first ending '
        '{play,drop}, second play; k=3: AAA, AAB, ABA, ABB x first two endings {play,drop}^2, '
        'plus ("-",A,A), (A,"-",A), ("","",""), (A,"",A) all play.  '
        'Thorough: additionally every sequence of length 1..3 over '
        '{A,B,"","-"} x {play,drop,kick} (1894 histories including those of '
        'the quick set) and the quick set at protocols 47 and 340.  '
        'Key encodings in SENT: the bytes the server sends as its public '
        'key are chosen PER LOGIN from {spki (canonical), pkcs1, '
        'spki-noparams} of the one 1024-bit key (the encodings the client '
        'can load; the reference is over the bytes the reference server '
        'reports having sent in that login).  Quick adds 16 histories: k=1 '
        '{A,B} x {play,drop} x {pkcs1, spki-noparams}; k=2 (A play, A play) '
        'x every ordered pair of the three encodings (the all-canonical '
        'pair is already in the 64).  Thorough: those also at protocols 47 '
        'and 340, and every sequence of length 1..2 over {A,B} x '
        '{play,drop} x the three encodings.  Every '
        'login in which the server recovered a secret is '
        'one judged case: for an id other than "-" at least one join must '
        'be recorded during that login and every recorded argument must '
        'equal the reference hash of (id, the secret the server recovered '
        'in THAT login, key); for "-" a join is not required (pyCraft makes '
        'none) but any that is made is judged the same way.  '
        'POSTED (part 3): the same logins (one 1024-bit key in its canonical '
        'encoding, server script: encryption request, then login success) '
        'with a REAL minecraft.authentication.AuthenticationToken (all five '
        'fields set) whose HTTP layer - the module global `requests` of '
        'minecraft/authentication.py - is a real requests.Session with a '
        'recording transport adapter answering from a script.  Session-'
        'service behaviour of ONE login, from {join204: the join is answered '
        '204; join403-refresh200-join204: the first join is answered 403 '
        '(ForbiddenOperationException), a refresh 200 with a new access '
        'token, any further join 204; join403-refresh403: joins and '
        'refreshes are answered 403; join500: every join is answered 500 '
        'with a non-JSON body}.  Histories of 1..3 logins on ONE Connection '
        'object and ONE token: quick (77 histories, 143 logins): k=1 {A,B,F,"","-"} x the 4 '
        'behaviours; k=2 (A,A), (A,B), (F,A) x 4 x 4; k=3 (A,A,A) with the '
        'first two from the three refusing behaviours and the third join204; '
        'thorough: additionally every sequence of length 1..3 over {A,B,F} x '
        'the 4 behaviours (F only in first place at length 3) and the quick '
        'set at protocols 47 and 340.  Every login is one judged case: every '
        'request whose URL ends in /join or whose JSON body has a serverId, '
        'on every attempt, must carry a serverId string equal to the '
        'reference hash of (server id of that login, the secret of that '
        'login, the key bytes sent); the secret is what the reference server '
        'recovered from the encryption response or, when the client gave the '
        'login up before sending it (what the unmodified tree does after a '
        'refused join), the 16-byte value drawn from the scripted OS random '
        'source during that login; for an id other than "-" at least one join '
        'must be posted.  Whether a refused join is retried is NOT judged.')
ASSUMPTIONS = ['hashlib.sha1 (shared with pyCraft as the platform SHA-1) is '
               'correct; checked against the three published vectors',
               'server ids are Unicode strings without lone surrogates (they '
               'arrive as UTF-8 on the wire)',
               'SENT part: RSA PKCS#1 v1.5 decryption of the cryptography '
               'package stands for the key holder; the secret the reference '
               'server recovers from the encryption response is the secret of '
               'that login (what C18 decides); the session service is '
               'represented by the join() method of the auth token object '
               'given to Connection(auth_token=...); the POSTED part uses '
               'the real AuthenticationToken and reads the serverId out of '
               'the JSON body that reaches a recording transport adapter of '
               'the real requests library (nothing else of the request is '
               'judged here: C19 judges URL, headers and the rest of the '
               'body of every join call, including two overlapping joins '
               'on one shared token under all schedules with <= 2 '
               'preemptions)',
               'POSTED part: when the client abandons a login before the '
               'encryption response, the secret of that login is the 16-byte '
               'value it drew from the scripted OS random source '
               '(encryption.os.urandom, vf.harness) during that login',
               'a key "as encoded by the server" is the byte string in the '
               'encryption request; the server hashes those bytes (vanilla: '
               'PublicKey.getEncoded() is what it sends), so no '
               're-serialisation on the client side can be right for an '
               'encoding that is loadable but not canonical']

# -- alphabet -----------------------------------------------------------------

ALPHA = ([ord(c) for c in 'abejnszAJNZ'] +            # 11 letters
         [ord(c) for c in '01579'] +                  # 5 digits
         [ord(c) for c in '- _.'] +                   # 4 punctuation
         [0x00, 0x7F] +                               # ASCII edges
         [0x80, 0xDF, 0xE9, 0xFF, 0x100, 0x3A9, 0x7FF] +            # width 2
         [0x800, 0x20AC, 0x4E2D, 0xD7FF, 0xE000, 0xFEFF, 0xFFFD,
          0xFFFF] +                                                  # width 3
         [0x10000, 0x1F600, 0x10FFFF])                               # width 4
N = len(ALPHA)


def utf8(cp):
    """UTF-8 by the bit layout of RFC 3629; no codec machinery."""
    if cp < 0x80:
        return bytes([cp])
    if cp < 0x800:
        return bytes([0xC0 | cp >> 6, 0x80 | cp & 0x3F])
    if cp < 0x10000:
        return bytes([0xE0 | cp >> 12, 0x80 | cp >> 6 & 0x3F,
                      0x80 | cp & 0x3F])
    return bytes([0xF0 | cp >> 18, 0x80 | cp >> 12 & 0x3F,
                  0x80 | cp >> 6 & 0x3F, 0x80 | cp & 0x3F])


ALPHA_B = [utf8(cp) for cp in ALPHA]
ALPHA_C = [chr(cp) for cp in ALPHA]

# -- secrets and keys ---------------------------------------------------------

DER162 = (bytes.fromhex('30819f300d06092a864886f70d010101050003818d00'
                        '308189028181 00'.replace(' ', '')) +
          bytes([0x80 | 0xC1] + [(0xC1 + 0x3B * i) & 0xFF
                                 for i in range(1, 128)]) +
          bytes.fromhex('0203010001'))
KEYS_FIXED = [('empty', b''), ('one', b'\x01'), ('der162', DER162)]

# Encodings of real RSA keys (vf.harness.rsa_key: 1024 and 2048 bit, cached
# under out/), written here octet by octet from (n, e).  name -> how built.
OID_RSA = bytes.fromhex('06092a864886f70d010101')       # rsaEncryption
KEY_NAMES = ['empty', 'one', 'der162', 'spki', 'pkcs1', 'spki-noparams',
             'spki-longlen', 'spki-trailing', 'pem', 'spki-2048',
             'pkcs1-2048']
# what the platform's DER loader is expected to make of them (checked)
K_CANON = 'key: loadable, canonical SubjectPublicKeyInfo DER'
K_NONCANON = 'key: loadable, NOT the canonical encoding of that key'
K_UNLOADABLE = 'key: not loadable as a DER public key'


def der_len(n):
    """Minimal (DER) length octets."""
    if n < 0x80:
        return bytes([n])
    out = []
    while n:
        out.insert(0, n & 0xFF)
        n >>= 8
    return bytes([0x80 | len(out)] + out)


def tlv(tag, content, length=None):
    return bytes([tag]) + (der_len(len(content)) if length is None
                           else length) + content


def der_uint(v):
    """INTEGER of a non-negative number: minimal, sign octet when needed."""
    out = []
    while v:
        out.insert(0, v & 0xFF)
        v >>= 8
    if not out or out[0] & 0x80:
        out.insert(0, 0)
    return tlv(0x02, bytes(out))


def encodings_of(n, e):
    """name -> bytes for one RSA public key (n, e)."""
    pkcs1 = tlv(0x30, der_uint(n) + der_uint(e))        # RSAPublicKey
    bits = tlv(0x03, b'\x00' + pkcs1)                   # BIT STRING, 0 unused
    alg = tlv(0x30, OID_RSA + b'\x05\x00')              # parameters NULL
    spki = tlv(0x30, alg + bits)
    body = OID_RSA + b'\x05\x00'
    b64 = base64.b64encode(spki).decode('ascii')
    pem = ('-----BEGIN PUBLIC KEY-----\n' +
           ''.join(b64[i:i + 64] + '\n' for i in range(0, len(b64), 64)) +
           '-----END PUBLIC KEY-----\n').encode('ascii')
    return {
        'spki': spki,
        'pkcs1': pkcs1,
        # AlgorithmIdentifier with the parameters field omitted
        'spki-noparams': tlv(0x30, tlv(0x30, OID_RSA) + bits),
        # BER: the length 13 of AlgorithmIdentifier written as 81 0d
        'spki-longlen': tlv(0x30, tlv(0x30, body, bytes([0x81, len(body)]))
                            + bits),
        'spki-trailing': spki + b'\x00\x00',
        'pem': pem,
    }


_KEYS = []


def key_alphabet():
    """[(name, bytes, class)], the same list in every process (the RSA keys
    are read from the cache under out/)."""
    if _KEYS:
        return _KEYS
    from vf import harness
    from cryptography.hazmat.primitives import serialization as ser
    found = dict(KEYS_FIXED)
    for bits, suffix, names in ((1024, '', ('spki', 'pkcs1', 'spki-noparams',
                                            'spki-longlen', 'spki-trailing',
                                            'pem')),
                                (2048, '-2048', ('spki', 'pkcs1'))):
        key, der = harness.rsa_key(bits)
        pn = key.public_key().public_numbers()
        enc = encodings_of(pn.n, pn.e)
        if enc['spki'] != der:
            raise ToolError('hand-built SubjectPublicKeyInfo of the %d-bit '
                            'key differs from the DER the platform emits'
                            % bits)
        for nm in names:
            found[nm + suffix] = enc[nm]
    out = []
    for nm in KEY_NAMES:
        b = found[nm]
        try:
            k = ser.load_der_public_key(b)
            canon = k.public_bytes(ser.Encoding.DER,
                                   ser.PublicFormat.SubjectPublicKeyInfo)
            cls = K_CANON if canon == b else K_NONCANON
        except Exception:
            cls = K_UNLOADABLE
        out.append((nm, b, cls))
    if len(set(b for _, b, _ in out)) != len(out):
        raise ToolError('key alphabet holds equal members')
    _KEYS.extend(out)
    return _KEYS


def key_bytes(name):
    return dict((n, b) for n, b, _ in key_alphabet())[name]


def secrets_for(seed):
    out = [('zero', b'\x00' * 16), ('ones', b'\xff' * 16),
           ('counter', bytes(range(16)))]
    s = hashlib.blake2b(b'C17 secret %d' % seed, digest_size=16).digest()
    if s not in [b for _, b in out]:
        out.append(('seed:' + s.hex(), s))
    return out


VECTORS = [('Notch', '4ed1f46bbe04bc756bcb17c0c7ce3e4632f06a48'),
           ('jeb_', '-7c9d5b0044c130109a5d7b5fb5c317c02b4e28c1'),
           ('simon', '88e16a1019277b15d58faf0541e11910eb756f6')]

# (code points, secret, key): all six orders of the parts differ
ORDER_CASES = [
    ([ord(c) for c in 'Notch'], bytes(range(16)), DER162),
    ([0xE9, 0x20AC, 0x1F600], b'\xff' * 16, b'\x01'),
    ([ord('a')], b'a' * 15 + b'b', b'ba'),          # shared prefixes
    ([0x00], b'\x00' * 15 + b'\x01', b'\x01\x00'),
    ([ord('-')], b'\x2d' * 8 + b'\x00' * 8, DER162[:2]),
    ([0x30, 0x81, 0x9F], DER162[:16], DER162),       # id is a prefix of key
    ([ord(c) for c in 'jeb_'], b'\x00' * 16, b'\x00\x01'),
]

MAXV_PER_TASK = 2       # violations recorded in full per task; all counted

C_NEG = 'digest negative (top bit set)'
C_POS = 'digest positive'
C_ZN = 'leading zero nibble after sign handling'
C_ZB = 'leading zero byte after sign handling'
C_SW = ('swap id/secret observable', 'swap id/key observable',
        'swap secret/key observable')
REQUIRED = [C_NEG, C_POS, C_ZN, C_ZB, C_ZN + ' [negative]',
            C_ZN + ' [positive]', C_ZB + ' [negative]',
            C_ZB + ' [positive]', 'non-ascii server id',
            'server id utf8 width 2', 'server id utf8 width 3',
            'server id utf8 width 4', K_CANON, K_NONCANON,
            K_UNLOADABLE] + list(C_SW)


def load():
    use_repo()
    from minecraft.networking import encryption
    return (encryption.generate_verification_hash,
            encryption.minecraft_sha1_hash_digest)


def selfcheck():
    """The harness' own trusted parts; any failure is a tool error."""
    if N != 40 or len(set(ALPHA)) != 40:
        raise ToolError('alphabet must hold 40 distinct symbols')
    if len(DER162) != 162:
        raise ToolError('DER blob is %d bytes' % len(DER162))
    lit = {0xE9: 'c3a9', 0x7FF: 'dfbf', 0x800: 'e0a080', 0x20AC: 'e282ac',
           0xFFFF: 'efbfbf', 0x10000: 'f0908080', 0x1F600: 'f09f9880',
           0x10FFFF: 'f48fbfbf', 0x7F: '7f', 0x80: 'c280'}
    for cp, hx in lit.items():
        if utf8(cp).hex() != hx:
            raise ToolError('utf8(U+%04X) = %s, expected %s'
                            % (cp, utf8(cp).hex(), hx))
    for cp, b in zip(ALPHA, ALPHA_B):
        d = hashlib.sha1(b + b'\x07' + DER162).digest()
        if ref.java_hex(d) != ref.server_hash(chr(cp), b'\x07', DER162):
            raise ToolError('reference encoders disagree on U+%04X' % cp)
    for name, want in VECTORS:
        if ref.java_hex(hashlib.sha1(name.encode('ascii')).digest()) != want:
            raise ToolError('reference formatter fails vector %s' % name)
    for cps, sec, key in ORDER_CASES:
        parts = (b''.join(map(utf8, cps)), sec, key)
        cats = set(b''.join(p) for p in itertools.permutations(parts))
        if len(cats) != 6:
            raise ToolError('order case %r has commuting parts' % (cps,))


def explain(got, cps, sec, key):
    """Best-effort hint (for the report text only) why got differs."""
    if not isinstance(got, str):
        return 'result is %s, not str' % type(got).__name__
    idb = b''.join(map(utf8, cps))
    d = hashlib.sha1(idb + sec + key).digest()
    want = ref.java_hex(d)
    if got == d.hex().lstrip('0'):
        return 'equals the UNSIGNED hex of the digest'
    if got == d.hex():
        return 'equals the plain zero-padded hexdigest'
    if got != got.lower() and got.lower() == want:
        return 'right digits but upper-case'
    if got.lstrip('-').lstrip('0') == want.lstrip('-') and \
            got.startswith('-') == want.startswith('-'):
        return 'right number but zero-padded'
    names = ('id', 'secret', 'key')
    for perm in itertools.permutations(range(3)):
        if perm == (0, 1, 2):
            continue
        cat = b''.join((idb, sec, key)[i] for i in perm)
        if got == ref.java_hex(hashlib.sha1(cat).digest()):
            return 'equals the hash of the parts in the order %s' % '+'.join(
                names[i] for i in perm)
    try:
        from cryptography.hazmat.primitives import serialization as ser
        k = ser.load_der_public_key(key)
        for fname, fmt in (
                ('SubjectPublicKeyInfo',
                 ser.PublicFormat.SubjectPublicKeyInfo),
                ('PKCS1', ser.PublicFormat.PKCS1)):
            alt = k.public_bytes(ser.Encoding.DER, fmt)
            if alt != key and got == ref.java_hex(
                    hashlib.sha1(idb + sec + alt).digest()):
                return ('equals the hash over the key RE-ENCODED as %s DER '
                        '(%d bytes), not over the %d key bytes as given'
                        % (fname, len(alt), len(key)))
    except Exception:
        pass
    for k in range(1, len(cps) + 1):
        if got == ref.java_hex(hashlib.sha1(
                b''.join(map(utf8, cps[k:])) + sec + key).digest()):
            return ('equals the hash over the server id WITHOUT its first '
                    '%d character(s) %s' % (k, id_text(cps[:k])))
    sid = ''.join(map(chr, cps))
    for enc in ('latin-1', 'ascii', 'utf-16', 'utf-16-le', 'utf-16-be',
                'utf-32', 'utf-8-sig', 'cp1252'):
        for err in ('replace', 'ignore', 'xmlcharrefreplace',
                    'backslashreplace'):
            try:
                alt = sid.encode(enc, err)
            except Exception:
                continue
            if alt != idb and got == ref.java_hex(
                    hashlib.sha1(alt + sec + key).digest()):
                return ('equals the hash with the server id encoded as '
                        '%s/%s' % (enc, err))
    return 'no simple explanation found'


def id_text(cps):
    return ','.join('U+%04X' % c for c in cps) or '(empty)'


def judge(ctx, gen, cps, sid, idb, sname, sec, kname, key, cl, full=True):
    """One triple on the real code.  Returns True when it agrees."""
    d = hashlib.sha1(idb + sec + key).digest()
    want = ref.java_hex(d)
    try:
        got = gen(sid, sec, key)
        err = None
    except Exception as e:          # nothing may escape for str/bytes inputs
        got, err = None, e
    neg = d[0] >= 0x80
    digits = len(want) - (1 if neg else 0)
    tag = ' [negative]' if neg else ' [positive]'
    cl[C_NEG if neg else C_POS] += 1
    if digits < 40:
        cl[C_ZN] += 1
        cl[C_ZN + tag] += 1
        if digits <= 38:
            cl[C_ZB] += 1
            cl[C_ZB + tag] += 1
    if idb + sec != sec + idb:
        cl[C_SW[0]] += 1
    if idb + sec + key != key + sec + idb:
        cl[C_SW[1]] += 1
    if sec + key != key + sec:
        cl[C_SW[2]] += 1
    if got == want and type(got) is str:
        cl[('out:-' if neg else 'out:+') + 'digits=%d' % digits] += 1
        return True
    cl['out:mismatch'] += 1
    if full:
        case = {'kind': 'triple', 'id_cp': list(cps), 'secret': sec,
                'key': key, 'id_repr': repr(sid)}
        k = 'hash id=%s secret=%s key=%s' % (id_text(cps), sname, kname)
        if err is not None:
            what = ('generate_verification_hash(%r, %s, <%d-byte key>) raised '
                    '%s: %s; expected %r' % (sid, sec.hex(), len(key),
                                             type(err).__name__, err, want))
        else:
            what = ('generate_verification_hash(%r, %s, <%d-byte key %s>) = '
                    '%r; Java BigInteger(sha1(utf8(id)+secret+key))'
                    '.toString(16) = %r (digest %s).  Hint: %s'
                    % (sid, sec.hex(), len(key), kname, got, want, d.hex(),
                       explain(got, cps, sec, key)))
        ctx.violation(k, what, case)
    return False


def flush(ctx, cl):
    for label, n in cl.items():
        if label.startswith('out:'):
            ctx.outcome(label[4:], n)
        else:
            ctx.cls(label, n)


def w_ids(ctx, task):
    """All ids  prefix + (every tail of length `tail`)  x secrets x keys."""
    import collections
    prefix, tail = task
    gen = load()[0]
    secrets = secrets_for(ctx.seed)
    keys = key_alphabet()
    cl = collections.Counter()
    n = bad = 0
    for rest in itertools.product(range(N), repeat=tail):
        idx = prefix + rest
        cps = [ALPHA[i] for i in idx]
        sid = ''.join(ALPHA_C[i] for i in idx)
        idb = b''.join(ALPHA_B[i] for i in idx)
        k = len(secrets) * len(keys)
        if len(idb) > len(idx):
            cl['non-ascii server id'] += k
            for w in set(len(ALPHA_B[i]) for i in idx):
                if w > 1:
                    cl['server id utf8 width %d' % w] += k
        cl['server id length %d' % len(idx)] += k
        for sname, sec in secrets:
            for kname, key, kcls in keys:
                n += 1
                cl[kcls] += 1
                if not judge(ctx, gen, cps, sid, idb, sname, sec, kname, key,
                             cl, full=bad < MAXV_PER_TASK):
                    bad += 1
    flush(ctx, cl)
    ctx.count(n)
    ctx.note_distinct(n)
    if bad:
        ctx.extra['mismatching_triples'] = bad


def check_vector(ctx, name, route):
    gen, dig = load()
    want = dict(VECTORS)[name]
    raw = b''.join(utf8(ord(c)) for c in name)
    try:
        if route == 'digest':
            got = dig(hashlib.sha1(raw))
        else:
            got = gen(name, b'', b'')
    except Exception as e:
        got = '%s: %s' % (type(e).__name__, e)
    ctx.count()
    ctx.note_distinct(1)
    ctx.cls('published vector')
    if got == want and type(got) is str:
        ctx.outcome(('-' if want[0] == '-' else '+') + 'digits=%d'
                    % len(want.lstrip('-')))
        return
    ctx.outcome('mismatch')
    fn = ('minecraft_sha1_hash_digest(sha1(%r))' % name if route == 'digest'
          else 'generate_verification_hash(%r, b"", b"")' % name)
    ctx.violation('vector %s via %s' % (name, route),
                  '%s = %r; the published value (wiki.vg, Protocol '
                  'Encryption) is %r' % (fn, got, want),
                  {'kind': 'vector', 'name': name, 'route': route})


def check_order_case(ctx, cps, sec, key):
    import collections
    gen = load()[0]
    cl = collections.Counter()
    sid = ''.join(map(chr, cps))
    idb = b''.join(map(utf8, cps))
    ctx.count()
    ctx.note_distinct(1)
    cl['explicit order case (6 distinct part orders)'] += 1
    judge(ctx, gen, cps, sid, idb, sec.hex(), sec, '%dB:%s' % (
        len(key), hashlib.sha1(key).hexdigest()[:8]), key, cl)
    flush(ctx, cl)


# -- part 2: the hash that is actually sent ----------------------------------

SENT_TOKEN = b'\x05\x06\x07\x08'
SENT_A = tuple(ord(c) for c in 'srv')
SENT_B = (0xE9, 0x20AC, 0x1F600)
SENT_EMPTY = ()
SENT_OFF = (ord('-'),)
S_SAME = 'sent: login on a Connection object that already logged in, ' \
    'server id of an earlier login'
S_DIFF = 'sent: login on a Connection object that already logged in, ' \
    'server id not used before'
S_AFTER_DROP = 'sent: login that follows a login the server ended right ' \
    'after the encryption response'
S_AFTER_PLAY = 'sent: login that follows a login that reached play'
S_THIRD = 'sent: third login on the same Connection object'
S_EMPTY = 'sent: server id "" (hash of secret and key only)'
S_OFFLINE = 'sent: server id "-" (offline mode), no join made'
S_NONASCII = 'sent: non-ASCII server id on the wire'
S_REKEY = 'sent: login whose key encoding differs from that of the ' \
    'login before it on the same Connection object'
S_NORM = 'sent: server id that a text normalisation (strip, case folding, ' \
    'NFC/NFKC, dropping control characters) would alter'
# ids on which the usual "harmless" clean-ups of a text are NOT the identity:
# the hash is over the id exactly as the server sent it
SENT_NORM = tuple(tuple(map(ord, t)) for t in (
    ' srv', 'srv ', '\tsrv\n', '\u3000srv', 'srv\u00a0', ' - ', '-\n', ' ',
    'SRV', 'Srv', 'e\u0301', '\u212b', '\ufb01', 'stra\u00dfe', '\x00srv',
    'srv\x00', 'srv\r'))
SENT_REQUIRED = [S_SAME, S_DIFF, S_AFTER_DROP, S_AFTER_PLAY, S_THIRD,
                 S_EMPTY, S_OFFLINE, S_NONASCII, S_REKEY, S_NORM,
                 'sent: ' + K_CANON[5:], 'sent: ' + K_NONCANON[5:],
                 'sent: ' + C_NEG, 'sent: ' + C_POS]


def sent_seed_id(seed):
    """Three seed-chosen symbols of ALPHA (never the single id '-')."""
    d = hashlib.blake2b(b'C17 sent id %d' % seed, digest_size=3).digest()
    return tuple(ALPHA[b % N] for b in d)


SENT_ENCS = ('spki', 'pkcs1', 'spki-noparams')   # loadable by the client


def sent_histories(ctx):
    """-> list of (history, protocol version, key encodings); a history is a
    tuple of (server id code points, ending); key encodings: one name of the
    key alphabet per login (the bytes the server sends as its public key in
    that login; always the same 1024-bit key)."""
    out = []
    seen = set()
    for h, v in _sent_histories_canonical(ctx):
        out.append((h, v, ('spki',) * len(h)))
        seen.add(out[-1])
    A, B = SENT_A, SENT_B
    quick = []
    for enc in SENT_ENCS[1:]:
        for sid in (A, B):
            for end in ('play', 'drop'):
                quick.append((((sid, end),), (enc,)))
    for e1 in SENT_ENCS:
        for e2 in SENT_ENCS:
            quick.append((((A, 'play'), (A, 'play')), (e1, e2)))
    versions = (757, 47, 340) if ctx.thorough else (757,)
    for v in versions:
        for h, encs in quick:
            if (h, v, encs) not in seen:
                seen.add((h, v, encs))
                out.append((h, v, encs))
    if ctx.thorough:
        steps = [(i, e, k) for i in (A, B) for e in ('play', 'drop')
                 for k in SENT_ENCS]
        for n in (1, 2):
            for seq in itertools.product(steps, repeat=n):
                t = (tuple((i, e) for i, e, _ in seq), 757,
                     tuple(k for _, _, k in seq))
                if t not in seen:
                    seen.add(t)
                    out.append(t)
    return out


def _sent_histories_canonical(ctx):
    A, B, E, O = SENT_A, SENT_B, SENT_EMPTY, SENT_OFF
    S = sent_seed_id(ctx.seed)
    quick = []
    F = SENT_F
    for sid in (A, B, E, O, S, F):
        for end in ('play', 'drop'):
            if ((sid, end),) not in quick:
                quick.append(((sid, end),))
    for sid in SENT_NORM:
        if ((sid, 'play'),) not in quick:
            quick.append(((sid, 'play'),))
    # ... and after a login with the normal form of the same id (a memo keyed
    # by a cleaned-up id would hand out the wrong hash)
    quick.append(((A, 'play'), (SENT_NORM[0], 'play')))
    quick.append(((SENT_NORM[0], 'play'), (A, 'play')))
    pairs = [(x, y) for x in (A, B, E, O) for y in (A, B, E, O)]
    if S not in (A, B, E, O):
        pairs.append((S, S))
    pairs += [(F, A), (A, F)]
    for x, y in pairs:
        for e1 in ('play', 'drop'):
            quick.append(((x, e1), (y, 'play')))
    for ids in ((A, A, A), (A, A, B), (A, B, A), (A, B, B)):
        for e1 in ('play', 'drop'):
            for e2 in ('play', 'drop'):
                quick.append(((ids[0], e1), (ids[1], e2), (ids[2], 'play')))
    for ids in ((O, A, A), (A, O, A), (E, E, E), (A, E, A)):
        quick.append(tuple((i, 'play') for i in ids))
    out = [(h, 757) for h in quick]
    if ctx.thorough:
        steps = [(i, e) for i in (A, B, E, O)
                 for e in ('play', 'drop', 'kick')]
        seen = set(quick)
        for k in (1, 2, 3):
            for h in itertools.product(steps, repeat=k):
                if h not in seen:
                    out.append((h, 757))
        out += [(h, v) for v in (47, 340) for h in quick]
    return out


def hist_text(hist, encs=None):
    """(a login whose key is sent in the canonical encoding reads as before
    the key dimension existed)"""
    encs = encs or ('spki',) * len(hist)
    return ' > '.join('%s/%s%s' % (id_text(cps), end,
                                   '' if k == 'spki' else '/key=' + k)
                      for (cps, end), k in zip(hist, encs))


def sent_useed(seed, hist, version, encs=None):
    tag = '' if not encs or set(encs) == {'spki'} else ' %r' % (tuple(encs),)
    d = hashlib.blake2b(('C17 sent %d %d %r%s' % (seed, version, hist, tag))
                        .encode('ascii'), digest_size=4).digest()
    return int.from_bytes(d, 'big') & 0x7FFFFFFF


class _Profile(object):
    name = 'prof'


class RecordingToken(object):
    """Stands for the session service: join() records what it is given."""

    def __init__(self):
        self.profile = _Profile()
        self.calls = []

    def join(self, server_id):
        self.calls.append(server_id)
        return True


def body_sent(W, hist, version, encs):
    from vf import harness
    key, der = harness.rsa_key()
    sent_as = [key_bytes(k) for k in encs]

    def per_conn(i):
        cps, end = hist[min(i, len(hist) - 1)]
        sid = ''.join(map(chr, cps))
        tail = {'play': [('success',)], 'drop': [('close',)],
                'kick': [('disconnect', '{"text":"not white-listed"}')]}[end]
        return {'login': [('encrypt', sid, SENT_TOKEN)] + tail,
                'rsa': (key, sent_as[min(i, len(hist) - 1)])}
    W.serve(rsa=(key, der), per_conn=per_conn)
    tok = RecordingToken()
    errs = []
    conn = W.connection(allowed_versions={version}, auth_token=tok,
                        handle_exception=lambda e, i: errs.append(
                            type(e).__name__))
    logins = []
    for j, (cps, end) in enumerate(hist):
        before = len(tok.calls)
        raised = None
        try:
            conn.connect()
        except ToolError:
            raise
        except Exception as e:
            raised = '%s: %s' % (type(e).__name__, e)
        W.settle()
        rec = {'servers': len(W.servers), 'connect_raised': raised,
               'joins': list(tok.calls[before:]), 'errs': list(errs),
               'der': sent_as[j]}
        if len(W.servers) == j + 1:
            srv = W.servers[j]
            rec.update(secret=srv.secret, state=srv.state,
                       errors=list(srv.errors), sid_sent=srv.server_id,
                       der=bytes(srv.rsa[1]),
                       reactor=type(conn.reactor).__name__)
        logins.append(rec)
        if end == 'play' or conn.connected or \
                conn.networking_thread is not None:
            try:
                conn.disconnect()
            except Exception as e:
                rec['disconnect_raised'] = type(e).__name__
            W.settle()
    return {'logins': logins, 'der': der, 'all_joins': list(tok.calls)}


def run_sent(hist, version, useed, encs):
    from vf import harness
    return harness.run(lambda W: body_sent(W, hist, version, encs),
                       horizon=400000, seed=useed)


def judge_sent(ctx, hist, version, useed, cl, encs=None):
    """One history on the real code; every login judged.  -> number of
    logins counted as cases."""
    encs = tuple(encs or ('spki',) * len(hist))
    kcls = dict((n, c) for n, _, c in key_alphabet())
    x = run_sent(hist, version, useed, encs)
    case = {'kind': 'sent', 'history': [[list(cps), end]
                                        for cps, end in hist],
            'version': version, 'useed': useed, 'encs': list(encs)}
    htxt = hist_text(hist, encs)
    if x.failure is not None:
        cl['out:sent: history did not run to the end'] += 1
        ctx.violation('sent %s client %s' % (htxt, x.failure[0]),
                      'history %s (protocol %d): the client %s: %s'
                      % (htxt, version, x.failure[0], x.failure[1]), case)
        return len(hist)
    r = x.result
    wants = []
    for j, ((cps, end), rec) in enumerate(zip(hist, r['logins'])):
        sid = ''.join(map(chr, cps))
        der = rec['der']
        who = 'login %d of %d (server id %r, ending %s, %d-byte public key ' \
            'sent as %s)' % (j + 1, len(hist), sid, end, len(der), encs[j])
        if rec['servers'] != j + 1 or 'secret' not in rec:
            cl['out:sent: login did not take place'] += 1
            ctx.violation('sent %s no login %d' % (htxt, j + 1),
                          'history %s (protocol %d): %s did not open a '
                          'connection (%d so far; connect() raised: %s; '
                          'client errors %s)'
                          % (htxt, version, who, rec['servers'],
                             rec['connect_raised'], rec['errs']), case)
            wants.append(None)
            continue
        if rec['secret'] is None:
            # the key holder could not read the secret: nothing to compare
            # with (that is C18's subject); counted, guarded in run()
            cl['out:sent: server recovered no secret (not judged)'] += 1
            wants.append(None)
            continue
        idb = b''.join(map(utf8, cps))
        d = hashlib.sha1(idb + rec['secret'] + der).digest()
        want = ref.java_hex(d)
        wants.append(want)
        joins = rec['joins']
        # classes
        cl['sent: ' + (C_NEG if d[0] >= 0x80 else C_POS)] += 1
        if len(idb) > len(cps):
            cl[S_NONASCII] += 1
        if not cps:
            cl[S_EMPTY] += 1
        if cps in SENT_NORM:
            cl[S_NORM] += 1
        if cps[:1] == (0xFEFF,):
            cl['sent: ' + P_FEFF] += 1
        if j >= 1:
            earlier = [h[0] for h in hist[:j]]
            cl[S_SAME if cps in earlier else S_DIFF] += 1
            cl[S_AFTER_PLAY if hist[j - 1][1] == 'play'
               else S_AFTER_DROP] += 1
        if j == 2:
            cl[S_THIRD] += 1
        cl['sent: login ending %s' % end] += 1
        cl['sent: ' + kcls[encs[j]][5:]] += 1
        if j >= 1 and encs[j] != encs[j - 1]:
            cl[S_REKEY] += 1
        cl['sent: protocol %d' % version] += 1
        if cps == SENT_OFF and not joins:
            cl[S_OFFLINE] += 1
            cl['out:sent: offline id, nothing sent'] += 1
            continue
        if not joins:
            cl['out:sent: no hash sent'] += 1
            ctx.violation(
                'sent %s login %d nothing' % (htxt, j + 1),
                'history %s (protocol %d): in %s the server recovered the '
                'secret %s from the encryption response, but nothing was '
                'passed to auth_token.join during that login; expected %r '
                '(client errors %s)'
                % (htxt, version, who, rec['secret'].hex(), want,
                   rec['errs']), case)
            continue
        bad = [g for g in joins if not (type(g) is str and g == want)]
        if not bad:
            cl['out:sent: join argument = reference hash'] += 1
            continue
        cl['out:sent: mismatch'] += 1
        hint = 'no simple explanation found'
        for i in range(j):
            if wants[i] is not None and bad[0] == wants[i]:
                hint = ('it is the hash that belonged to login %d of this '
                        'history (secret %s): stale'
                        % (i + 1, r['logins'][i]['secret'].hex()))
                break
        else:
            if isinstance(bad[0], str):
                h2 = explain(bad[0], list(cps), rec['secret'], der)
                if not h2.startswith('no simple'):
                    hint = h2
        ctx.violation(
            'sent %s login %d' % (htxt, j + 1),
            'history %s on one Connection object (protocol %d, scripted '
            'random source %d): in %s auth_token.join was given %r; the '
            'server recovered secret %s in that login, so Java '
            'BigInteger(sha1(utf8(id)+secret+key)).toString(16) = %r '
            '(digest %s, %d-byte key).  Hint: %s'
            % (htxt, version, useed, who, joins if len(joins) > 1
               else joins[0], rec['secret'].hex(), want, d.hex(), len(der),
               hint), case)
    return len(hist)


# -- part 3: the hash that is actually POSTED ---------------------------------
#
# The same logins with a REAL minecraft.authentication.AuthenticationToken.
# Its HTTP layer (the module global `requests` of minecraft/authentication.py)
# is a recording stand-in: a real requests.Session whose transport adapter
# records every request and answers from a per-login script, so nothing
# leaves the process.  The session service may refuse a join; whatever the
# client then does (give up, refresh the token, join again ...) every
# `serverId` that reaches the stand-in is judged.

P_USER, P_ACCESS, P_CLIENT = 'user@example.org', 'acc-0', 'cli-0'
P_PROFILE_ID, P_PROFILE_NAME = '0123456789abcdef0123456789abcdef', 'prof'
_ERR403 = (b'{"error": "ForbiddenOperationException", '
           b'"errorMessage": "Invalid token."}')
_REFRESHED = ('{"accessToken": "acc-%d", "clientToken": "' + P_CLIENT +
              '", "selectedProfile": {"id": "' + P_PROFILE_ID +
              '", "name": "' + P_PROFILE_NAME + '"}}')
# session-service behaviour of ONE login: endpoint -> replies in order (the
# last one repeats).  A reply is (status, body | None = default for status).
POSTED_BEHAVIOURS = {
    'join204': {'join': [204]},
    'join403-refresh200-join204': {'join': [403, 204], 'refresh': [200]},
    'join403-refresh403': {'join': [403], 'refresh': [403]},
    'join500': {'join': [500], 'refresh': [200]},
}
POSTED_ORDER = ('join204', 'join403-refresh200-join204',
                'join403-refresh403', 'join500')
SENT_F = (0xFEFF,) + SENT_A        # begins with U+FEFF (a BOM to some codecs)
P_SRV = 'posted: secret = what the server recovered from the encryption ' \
    'response'
P_DRAW = 'posted: secret = the 16-byte draw from the scripted OS random ' \
    'source (the encryption response was never sent)'
P_REUSED = 'posted: login on a Connection object and token whose earlier ' \
    'login was refused by the session service'
P_FEFF = 'server id begins with U+FEFF'
POSTED_REQUIRED = [P_SRV, P_DRAW, P_REUSED, 'posted: ' + P_FEFF,
                   'sent: ' + P_FEFF] + \
    ['posted: session service %s' % b for b in POSTED_ORDER]


class HttpStandIn(object):
    """What minecraft.authentication sees as `requests` during one
    execution.  Everything but the transport is the real library."""

    def __init__(self):
        import requests
        import requests.adapters
        self._real = requests
        self.log = []               # {'url', 'method', 'body'} per request
        self.script = {}
        self.served = {}
        self.refreshes = 0
        stand_in = self

        class Adapter(requests.adapters.BaseAdapter):
            def __init__(self):
                super(Adapter, self).__init__()
                self.builder = requests.adapters.HTTPAdapter()

            def send(self, request, **kw):
                return stand_in._answer(request, self.builder)

            def close(self):
                pass
        self._adapter_cls = Adapter
        self._session = self.Session()

    def Session(self):
        s = self._real.Session()
        s.trust_env = False
        ad = self._adapter_cls()
        s.mount('https://', ad)
        s.mount('http://', ad)
        return s

    session = Session

    def __getattr__(self, name):
        return getattr(self._real, name)

    def request(self, method, url, **kw):
        return self._session.request(method=method, url=url, **kw)

    def post(self, url, data=None, json=None, **kw):
        return self.request('post', url, data=data, json=json, **kw)

    def get(self, url, params=None, **kw):
        return self.request('get', url, params=params, **kw)

    def begin_login(self, behaviour):
        self.script = dict((k, list(v))
                           for k, v in POSTED_BEHAVIOURS[behaviour].items())
        self.served = {}

    def _answer(self, request, builder):
        import io
        import urllib3
        body = request.body
        if body is None:
            body = b''
        elif isinstance(body, str):
            body = body.encode('utf-8')
        elif not isinstance(body, (bytes, bytearray)):
            body = b''.join(body)
        url = str(request.url)
        self.log.append({'method': request.method, 'url': url,
                         'body': bytes(body)})
        endpoint = url.split('?')[0].rstrip('/').rsplit('/', 1)[-1]
        replies = self.script.get(endpoint)
        if replies:
            k = self.served.get(endpoint, 0)
            self.served[endpoint] = k + 1
            status = replies[min(k, len(replies) - 1)]
        else:
            status = {'validate': 204, 'invalidate': 204,
                      'signout': 204}.get(endpoint, 404)
        if status == 204:
            data = b''
        elif status == 200:
            self.refreshes += 1
            data = (_REFRESHED % self.refreshes).encode('ascii')
        elif status == 403:
            data = _ERR403
        elif status == 404:
            data = b'{"error": "Not Found", "errorMessage": "no such ' \
                b'endpoint"}'
        else:
            data = b'Internal Server Error'
        hdrs = {}
        if status != 204:
            hdrs['Content-Length'] = str(len(data))
            hdrs['Content-Type'] = 'application/json' if data[:1] == b'{' \
                else 'text/plain'
        raw = urllib3.response.HTTPResponse(
            body=io.BytesIO(data), headers=hdrs, status=status,
            reason='scripted', preload_content=False, decode_content=False)
        return builder.build_response(request, raw)


def posted_histories(ctx):
    """-> [(history, protocol version)]; a history is a tuple of (server id
    code points, session-service behaviour of that login)."""
    A, B, F = SENT_A, SENT_B, SENT_F
    beh = POSTED_ORDER
    quick = []
    for sid in (A, B, F, SENT_EMPTY, SENT_OFF):
        for b in beh:
            quick.append(((sid, b),))
    for ids in ((A, A), (A, B), (F, A)):
        for b1 in beh:
            for b2 in beh:
                quick.append(((ids[0], b1), (ids[1], b2)))
    for b1 in beh[1:]:
        for b2 in beh[1:]:
            quick.append(((A, b1), (A, b2), (A, 'join204')))
    out = [(h, 757) for h in quick]
    if ctx.thorough:
        seen = set(quick)
        steps = [(i, b) for i in (A, B, F) for b in beh]
        for k in (1, 2, 3):
            for h in itertools.product(steps, repeat=k):
                if k == 3 and F in (h[1][0], h[2][0]):
                    continue
                if h not in seen:
                    seen.add(h)
                    out.append((h, 757))
        out += [(h, v) for v in (47, 340) for h in quick]
    return out


def body_posted(W, hist, version):
    from vf import harness
    import minecraft.authentication as A
    key, der = harness.rsa_key()

    def per_conn(i):
        cps, _ = hist[min(i, len(hist) - 1)]
        return {'login': [('encrypt', ''.join(map(chr, cps)), SENT_TOKEN),
                          ('success',)]}
    W.serve(rsa=(key, der), per_conn=per_conn)
    http = HttpStandIn()
    saved = A.requests
    A.requests = http
    try:
        tok = A.AuthenticationToken(username=P_USER, access_token=P_ACCESS,
                                    client_token=P_CLIENT)
        tok.profile.id_, tok.profile.name = P_PROFILE_ID, P_PROFILE_NAME
        errs = []
        conn = W.connection(allowed_versions={version}, auth_token=tok,
                            handle_exception=lambda e, i: errs.append(
                                '%s: %s' % (type(e).__name__, e)))
        logins = []
        for j, (cps, behaviour) in enumerate(hist):
            http.begin_login(behaviour)
            r0, u0, e0 = len(http.log), len(W.S.urandom_log), len(errs)
            raised = None
            try:
                conn.connect()
            except ToolError:
                raise
            except Exception as e:
                raised = '%s: %s' % (type(e).__name__, e)
            W.settle()
            rec = {'servers': len(W.servers), 'connect_raised': raised,
                   'requests': [dict(r) for r in http.log[r0:]],
                   'draws': [bytes(d) for d in W.S.urandom_log[u0:]],
                   'errs': list(errs[e0:]), 'der': der}
            if len(W.servers) == j + 1:
                srv = W.servers[j]
                rec.update(secret=srv.secret, state=srv.state,
                           errors=list(srv.errors), sid_sent=srv.server_id,
                           der=bytes(srv.rsa[1]))
            logins.append(rec)
            if conn.connected or conn.networking_thread is not None:
                try:
                    conn.disconnect()
                except Exception as e:
                    rec['disconnect_raised'] = type(e).__name__
                W.settle()
    finally:
        A.requests = saved
    return {'logins': logins}


def posted_useed(seed, hist, version):
    d = hashlib.blake2b(('C17 posted %d %d %r' % (seed, version, hist))
                        .encode('ascii'), digest_size=4).digest()
    return int.from_bytes(d, 'big') & 0x7FFFFFFF


def posted_text(hist):
    return ' > '.join('%s/%s' % (id_text(cps), b) for cps, b in hist)


def _server_ids_posted(requests_):
    """-> [(n, url, serverId | None, problem | None)] for every request that
    is a join (by URL) or carries a serverId."""
    import json
    out = []
    for n, r in enumerate(requests_):
        is_join = r['url'].split('?')[0].rstrip('/').endswith('/join')
        try:
            doc = json.loads(bytes(r['body']).decode('utf-8'))
        except Exception:
            doc = None
        if isinstance(doc, dict) and 'serverId' in doc:
            out.append((n, r['url'], doc['serverId'], None))
        elif is_join:
            out.append((n, r['url'], None, 'the body is not a JSON object '
                        'with a serverId: %r' % bytes(r['body'])[:80]))
    return out


def judge_posted(ctx, hist, version, useed, cl):
    from vf import harness
    x = harness.run(lambda W: body_posted(W, hist, version),
                    horizon=400000, seed=useed)
    case = {'kind': 'posted', 'history': [[list(cps), b] for cps, b in hist],
            'version': version, 'useed': useed}
    htxt = posted_text(hist)
    if x.failure is not None:
        cl['out:posted: history did not run to the end'] += 1
        ctx.violation('posted %s client %s' % (htxt, x.failure[0]),
                      'history %s (protocol %d, real AuthenticationToken, '
                      'recording HTTP stand-in): the client %s: %s'
                      % (htxt, version, x.failure[0], x.failure[1]), case)
        return len(hist)
    for j, ((cps, behaviour), rec) in enumerate(zip(hist,
                                                    x.result['logins'])):
        sid = ''.join(map(chr, cps))
        who = 'login %d of %d (server id %r, session service: %s)' % (
            j + 1, len(hist), sid, behaviour)
        if rec['servers'] != j + 1 or 'secret' not in rec:
            cl['out:posted: login did not take place'] += 1
            ctx.violation('posted %s no login %d' % (htxt, j + 1),
                          'history %s (protocol %d): %s did not open a '
                          'connection (%d so far; connect() raised: %s; '
                          'client errors %s)'
                          % (htxt, version, who, rec['servers'],
                             rec['connect_raised'], rec['errs']), case)
            continue
        der = rec['der']
        idb = b''.join(map(utf8, cps))
        if rec['secret'] is not None:
            secrets, src = [rec['secret']], P_SRV
        else:
            secrets = [d for d in rec['draws'] if len(d) == 16]
            src = P_DRAW
        posted = _server_ids_posted(rec['requests'])
        trail = ' '.join(r['url'].rsplit('/', 1)[-1]
                         for r in rec['requests']) or '(none)'
        cl['posted: session service %s' % behaviour] += 1
        if cps[:1] == (0xFEFF,):
            cl['posted: ' + P_FEFF] += 1
        if j >= 1 and hist[j - 1][1] != 'join204':
            cl[P_REUSED] += 1
        if len(posted) > 1:
            cl['posted: more than one join in a login'] += 1
        if cps == SENT_OFF and not posted:
            cl['out:posted: offline id, nothing posted'] += 1
            continue
        if not secrets:
            cl['out:posted: no secret known (not judged)'] += 1
            continue
        cl[src] += 1
        wants = [ref.java_hex(hashlib.sha1(idb + s + der).digest())
                 for s in secrets]
        if not posted:
            cl['out:posted: no hash posted'] += 1
            ctx.violation(
                'posted %s login %d nothing' % (htxt, j + 1),
                'history %s (protocol %d): in %s no join request reached the '
                'session service (requests: %s); expected serverId %r '
                '(client errors %s)' % (htxt, version, who, trail,
                                        wants[0], rec['errs']), case)
            continue
        bad = [(n, url, got, prob) for n, url, got, prob in posted
               if prob is not None or type(got) is not str
               or got not in wants]
        if not bad:
            cl['out:posted: every serverId = reference hash (%d join%s)'
               % (len(posted), '' if len(posted) == 1 else 's')] += 1
            continue
        cl['out:posted: mismatch'] += 1
        n, url, got, prob = bad[0]
        which = [p[0] for p in posted].index(n) + 1
        hint = prob or 'no simple explanation found'
        if prob is None and isinstance(got, str):
            for m, _, earlier, _ in posted:
                if m < n and isinstance(earlier, str) and got == ref.java_hex(
                        hashlib.sha1(b''.join(map(utf8, map(ord, earlier)))
                                     + secrets[0] + der).digest()):
                    hint = ('it is the hash of (the serverId posted by join '
                            'request %d of this login, secret, key): the '
                            'hash of a hash' % (m + 1))
                    break
            else:
                h2 = explain(got, list(cps), secrets[0], der)
                if not h2.startswith('no simple'):
                    hint = h2
        ctx.violation(
            'posted %s login %d join %d' % (htxt, j + 1, which),
            'history %s on one Connection object with a real '
            'AuthenticationToken (protocol %d, scripted random source %d): '
            'in %s the requests %s reached the session service; join request '
            '%d of that login (%s) carried serverId %r; the secret of that '
            'login is %s (%s), so Java BigInteger(sha1(utf8(id)+secret+key))'
            '.toString(16) = %r (%d-byte key).  Hint: %s'
            % (htxt, version, useed, who, trail, which, url, got,
               secrets[0].hex(), src[8:], wants[0], len(der), hint), case)
    return len(hist)


def w_posted(ctx, task):
    import collections
    hist, version = task
    cl = collections.Counter()
    n = judge_posted(ctx, hist, version,
                     posted_useed(ctx.seed, hist, version), cl)
    cl['posted: history of %d login(s)' % len(hist)] += 1
    flush(ctx, cl)
    ctx.count(n)
    ctx.note_distinct(n)
    ctx.extra['posted_histories'] = 1
    if (hist, version) == (((SENT_A, 'join403-refresh200-join204'),
                            (SENT_A, 'join204')), 757):
        ctx.sample({'part': 'posted', 'history': posted_text(hist),
                    'protocol': version})


def w_logins(ctx, task):
    (w_sent if task[0] == 'sent' else w_posted)(ctx, task[1])


def w_keys(ctx, task):
    """The cached server keys must exist before the pool needs them; the
    HTTP library of part 3 is imported once here (in the parent: this one
    task runs in-process) instead of once per pool worker."""
    key_alphabet()
    use_repo()
    import requests.adapters            # noqa: F401
    import urllib3                      # noqa: F401
    import minecraft.authentication     # noqa: F401


def w_sent(ctx, task):
    import collections
    hist, version, encs = task
    cl = collections.Counter()
    n = judge_sent(ctx, hist, version,
                   sent_useed(ctx.seed, hist, version, encs), cl, encs)
    cl['sent: history of %d login(s)' % len(hist)] += 1
    flush(ctx, cl)
    ctx.count(n)
    ctx.note_distinct(n)
    ctx.extra['sent_histories'] = 1
    if (hist, version) == (((SENT_A, 'play'), (SENT_A, 'play')), 757) and \
            encs in (('spki', 'spki'), ('spki', 'pkcs1')):
        ctx.sample({'part': 'sent', 'history': hist_text(hist, encs),
                    'protocol': version})


def run(ctx):
    use_repo()
    selfcheck()
    for name, _ in VECTORS:
        for route in ('digest', 'generate'):
            check_vector(ctx, name, route)
    for cps, sec, key in ORDER_CASES:
        check_order_case(ctx, cps, sec, key)
    ctx.pmap(w_keys, [0])      # (one task: runs here, before any fork)
    maxlen = 3 if ctx.thorough else 2
    tasks = [((), 0), ((), 1)]
    tasks += [((a,), 1) for a in range(N)]
    if maxlen >= 3:
        tasks += [((a, b), 1) for a in range(N) for b in range(N)]
    random.Random(ctx.seed).shuffle(tasks)
    ctx.pmap(w_ids, tasks, chunksize=16 if maxlen >= 3 else 1)
    # part 2: harness executions, only ever inside pool workers
    sent = sent_histories(ctx)
    # part 3: the same with a real AuthenticationToken over a recording HTTP
    # stand-in (one pool for both parts)
    posted = posted_histories(ctx)
    logins = [('sent', t) for t in sent] + [('posted', t) for t in posted]
    random.Random(ctx.seed + 1).shuffle(logins)
    ctx.pmap(w_logins, logins, chunksize=4 if ctx.thorough else 1)
    secrets = secrets_for(ctx.seed)
    n_ids = sum(N ** L for L in range(maxlen + 1))
    n_posted = sum(len(h) for h, _ in posted)
    n_sent = sum(len(h) for h, _, _ in sent) + n_posted
    expected = n_ids * len(secrets) * len(KEY_NAMES) + 2 * len(VECTORS) \
        + len(ORDER_CASES) + n_sent
    if ctx.evaluations != expected:
        raise ToolError('enumerated %d cases, expected %d'
                        % (ctx.evaluations, expected))
    vac = dict((label, int(ctx.classes.get(label, 0)))
               for label in REQUIRED + SENT_REQUIRED + POSTED_REQUIRED)
    ctx.extra['vacuity_guard'] = vac
    ctx.extra['sent_logins'] = n_sent - n_posted
    ctx.extra['posted_logins'] = n_posted
    ctx.extra['sent_server_ids'] = [id_text(c) for c in (
        SENT_A, SENT_B, SENT_EMPTY, SENT_OFF, sent_seed_id(ctx.seed),
        SENT_F) + SENT_NORM]
    ctx.extra['server_id_max_length'] = maxlen
    ctx.extra['server_ids'] = n_ids
    ctx.extra['alphabet'] = [id_text([c]) for c in ALPHA]
    ctx.extra['secrets'] = [n for n, _ in secrets]
    ctx.extra['keys'] = ['%s (%d bytes; %s)' % (n, len(b), c[5:])
                         for n, b, c in key_alphabet()]
    ctx.sample({'id': 'Notch', 'secret': '', 'key': '',
                'java_hex': dict(VECTORS)['Notch']})
    ctx.sample({'id': 'jeb_', 'secret': '', 'key': '',
                'java_hex': dict(VECTORS)['jeb_']})
    ctx.sample({'id': id_text([0xE9, 0x20AC, 0x1F600]), 'secret': 'ff*16',
                'key': '01', 'java_hex': ref.java_hex(hashlib.sha1(
                    utf8(0xE9) + utf8(0x20AC) + utf8(0x1F600) +
                    b'\xff' * 16 + b'\x01').digest())})
    empty = [k for k, v in vac.items() if v == 0]
    if empty and not ctx.violations:    # (a broken tree may not get there)
        raise ToolError('vacuous enumeration: no case in class(es) %s'
                        % ', '.join(empty))
    unjudged = ctx.outcomes.get(
        'sent: server recovered no secret (not judged)', 0) + \
        ctx.outcomes.get('posted: no secret known (not judged)', 0)
    if unjudged and not ctx.violations:
        raise ToolError('%d login(s) of the SENT part could not be judged: '
                        'the reference server recovered no secret' % unjudged)


def replay(ctx, case):
    use_repo()
    selfcheck()
    if case['kind'] == 'vector':
        check_vector(ctx, case['name'], case['route'])
        return
    import collections
    if case['kind'] == 'sent':
        hist = tuple((tuple(int(c) for c in cps), str(end))
                     for cps, end in case['history'])
        cl = collections.Counter()
        ctx.count(judge_sent(ctx, hist, int(case['version']),
                             int(case['useed']), cl,
                             [str(k) for k in case['encs']]
                             if case.get('encs') else None))
        flush(ctx, cl)
        return
    if case['kind'] == 'posted':
        hist = tuple((tuple(int(c) for c in cps), str(b))
                     for cps, b in case['history'])
        cl = collections.Counter()
        ctx.count(judge_posted(ctx, hist, int(case['version']),
                               int(case['useed']), cl))
        flush(ctx, cl)
        return
    cps = [int(c) for c in case['id_cp']]
    sec, key = bytes(case['secret']), bytes(case['key'])
    names = dict((b, n) for n, b in secrets_for(ctx.seed))
    knames = dict((b, n) for n, b, _ in key_alphabet())
    cl = collections.Counter()
    ctx.count()
    judge(ctx, load()[0], cps, ''.join(map(chr, cps)),
          b''.join(map(utf8, cps)), names.get(sec, sec.hex()), sec,
          knames.get(key, '%dB' % len(key)), key, cl)
    flush(ctx, cl)
