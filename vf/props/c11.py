"""C11 - in play, keep-alives and teleports are always answered; unknown
packets pass; a server disconnect closes cleanly.

Every case is one execution of the real Connection (login, then play) over
vnet under the canonical schedule against an independent server (a RefServer
that half-closes after its disconnect packet so that it still decodes what
the client flushes).  The verdict is read from the server's decoded log of
serverbound packets and from a Packet-wide listener, never from pyCraft's own
encoders.
"""
import itertools

from vf import harness, protoids
from vf.refproto import codec
from vf.refserver import RefServer, KEEPALIVE_LONG_FROM
from vf.runner import ToolError, h64, use_repo

LEVEL = 'model_checking'
RULE = ('(a) every supported protocol version x compression {off, 0, 256} x '
        'seven short histories (keep-alive; two keep-alives with distinct '
        'ids; position then keep-alive; unknown id then keep-alive; '
        'keep-alive then disconnect; two positions; seed-derived 300-byte '
        'unknown frame then seed-derived keep-alive id) x delivery {one '
        'burst with the login, one event per quiescence}.  (b) on 12 '
        'boundary versions (47, 107, 108, 338, 339, 340, 404, 477, 754, 755, '
        '757, one pre-release number): ALL histories of length <= 3 (quick) '
        '/ <= 4 (thorough) over the alphabet {keep-alive(id) for id in '
        '{0, 1, 127, 128, 2^31-1} and, where the id is a Long, also 2^31, '
        '2^63-1, -1, -2^63, plus one seed-derived id; three position-and-look '
        'packets (flags 0/0x1F/0x08, teleport ids 0/127/128, negative and '
        'fractional coordinates); unknown one-byte id with payload; unknown '
        'two-byte id 0x1234 whose payload looks like another frame; unknown '
        'id with empty payload; a known packet the reactor does not handle '
        '(time update)}, each history run twice: as one burst ending with a '
        'disconnect packet, and as a burst without terminator that is judged '
        'when the client is idle and only then followed by the disconnect; '
        'compression cycles through {off, 0, 256} with the history index. '
        '(b2) on the same versions all histories of length <= 2 over the '
        'extended alphabet with all nine flag x teleport-id combinations and '
        'update-health.  (b3) on the same versions all histories of length '
        '<= 4 (quick) / <= 5 (thorough) over a reduced alphabet with one '
        'member per event class (keep-alive 128, keep-alive with the extreme '
        'id, position 0x1F/127, unknown one-byte id, frame-like unknown, '
        'time update).  (c) n keep-alives with ids 1..n then disconnect for '
        'n in {0..60} u {295..305} (quick) / every n <= 320 (thorough) on '
        'four versions x compression {off, 256}, delivered as one burst '
        'with the login, as one burst after the client went idle (held), '
        'and one event per quiescence.  (c2) m queued chat packets from the '
        'user (m around the 50 / 300 batch limits) followed by n keep-alives '
        'and a disconnect.  (d) the ONLY family in which the environment '
        'fails writes (vnet send_after_close = ok_once, raise, reset_once, reset, i.e. EPIPE or ECONNRESET at once or after one accepted write; the plain '
        'RefServer that really closes after its disconnect packet): on '
        'versions 47/340/757 x compression {off, 256}, once the client is '
        'idle the server sends in one burst 49 unknown-id frames and one '
        'keep-alive (at index 49, 0 or 24 of the 50) and then its disconnect '
        'packet, and closes.  The shape is fixed because only there is the '
        'clean ending owed by the code as written: the 50-read quota ends '
        'the lap with exactly one reply queued, the next lap writes it to '
        'the dead peer (a failure is remembered), then reads the disconnect '
        'packet, which forgives the remembered failure, and disconnect() '
        'finds an empty queue.  Judged there: exit callback once, no error '
        'reported, connection closed, thread ended, deliveries intact; the '
        'reply itself may be lost.  Neighbouring shapes (48 or 50 unknown '
        'frames, two keep-alives) are run as observations only and recorded '
        'as outcome classes: there the flush inside disconnect() meets the '
        'dead peer and the unchanged library reports the fault (DESIGN.md '
        '9.3).  Non-trivial = the history contains at least one '
        'event; distinct = distinct (version, compression, delivery, '
        'history).  states = distinct abstractions (version, compression, '
        'spawned, reactor, queued replies, thread state, connected, exits, '
        'numbers of replies by kind) observed at idle/closed points; '
        'transitions = server events delivered; traces = executions.')
ASSUMPTIONS = [
    'families (a)-(c2): the environment does not fail writes: the server '
    'keeps reading after its disconnect packet (half-close), so that the '
    'independent decoder sees every reply',
    'family (d) is the only place where send faults are injected (write to '
    'a peer that has closed: first send call accepted and the next refused, '
    'or refused at once); its shape '
    'includes the one in which the 50-read quota leaves exactly one reply '
    'for the next lap, and (since /repo 99feca0 absorbs a failing flush '
    'inside disconnect()) the shapes in which one or two replies are still '
    'queued when the disconnect packet is reacted to',
    'ids of development snapshots and the publication order of protocol '
    'numbers (KNOWN_PROTOCOL_VERSIONS) are taken from the tree under test; '
    'bytes are always encoded/decoded by vf.refproto',
    'protocols 4 and 5 use the reference server\'s 1.8 layouts',
    'canonical schedule only (thread interleavings are C12/C16)',
]

COMPS = (None, 0, 256)
DISC = ('disconnect', '{"text":"bye"}')
TELEPORT_FROM = 107
HORIZON = 40000           # the largest history needs about 5500 steps
MAX_HANGS = 3             # per worker process, then the rest is skipped
_HANGS = [0]

F32_TENTH = codec.bits_f32(0x3DCCCCCD)          # nearest f32 to 0.1
F32_ODD = codec.bits_f32(0xC2B3CCCD)            # about -89.9, full mantissa
PPL = {
    (0x00, 0): ('ppl', 1.5, 64.0, -2.5, 90.0, 10.0, 0x00, 0),
    (0x1F, 127): ('ppl', -0.1, -0.001, 30000000.5, F32_TENTH, F32_ODD,
                  0x1F, 127),
    (0x08, 128): ('ppl', -12345.678, 255.0, 0.0625, -180.0, 359.5,
                  0x08, 128),
}
PPL_GRID = [PPL.get((f, t), ('ppl', 8.25 + f, 70.0 - t, -0.75 * (t + 1),
                             float(f) - 45.5, 0.5 * t, f, t))
            for f in (0x00, 0x1F, 0x08) for t in (0, 127, 128)]
# teleport ids whose wire VarInt has bit 31 set (the id is a signed int)
PPL_GRID += [('ppl', 3.5, 65.0, 4.5, 1.5, 2.5, 0x00, 2 ** 31),
             ('ppl', 3.5, 65.0, 4.5, 1.5, 2.5, 0x1F, 2 ** 32 - 1)]
U1 = ('raw', 0x7D, b'\x01\x02\x03\xff')
UM = ('raw', 0x1234, b'\x02\x00\x00')           # looks like a frame 02 00 00
U0 = ('raw', 0x7F, b'')
TIME = ('named', 'play.time_update',
        codec.sint(2 ** 40 + 5, 8) + codec.sint(-6000, 8))
HEALTH = ('named', 'play.update_health',
          codec.f32(19.5) + codec.varnum(20) + codec.f32(F32_TENTH))
NAMED_CLASS = {'play.time_update': 'TimeUpdatePacket',
               'play.update_health': 'UpdateHealthPacket'}


class Srv(RefServer):
    """RefServer whose play disconnect is 'send, then shut the write side':
    the client sees end of stream after the packet, the server goes on
    decoding what the client still flushes."""
    tx_closed = False

    def play(self, ev):
        if self.tx_closed or self.closed:
            return
        if ev[0] == 'disconnect':
            self.send('play.disconnect', codec.string(ev[1]))
            self.tx_closed = True
            self.conn.close()
            self.sent_log.append(ev)
            return
        RefServer.play(self, ev)


# ---------------------------------------------------------------------------
# one execution

def _snap(W, conn, srv, exits, errs, ci=0):
    S = W.S
    c = W.net.conns[ci]
    try:
        qlen = len(conn._outgoing_packet_queue)
    except Exception:
        qlen = -1
    return {
        'rx': [list(r) for r in srv.play_rx],
        'srv_errors': list(srv.errors),
        'gone': bool(srv.client_gone),
        'exits': len(exits), 'errs': list(errs),
        'live': [(a.name, a.state, a.kind) for a in S.live()],
        'thread_exc': [type(a.exc).__name__ for a in S.agents
                       if a.exc is not None],
        'conn_exc': (type(conn.exception).__name__
                     if conn.exception is not None else None),
        'spawned': getattr(conn, 'spawned', None),
        'reactor': type(conn.reactor).__name__,
        'qlen': qlen, 'connected': bool(conn.connected),
        'sock_closed': bool(c.sock_closed), 'file_closed': bool(c.file_closed),
        'state': srv.state,
        'compressed_frames': sum(1 for f in srv.frames
                                 if f[0] == 'play' and f[4]),
        'send_fails': sum(1 for e in S.log if e and e[0] == 'send-fail'),
        'sent_after_end': c.sent_after_end,
    }


def body(W, sc):
    v, comp, mode = sc['v'], sc['comp'], sc['mode']
    events = [tuple(e) for e in sc['events']]
    term = sc['term']
    login = ([('compress', comp)] if comp is not None else []) + [('success',)]
    script = []
    if mode in ('burst', 'held'):
        script = events + ([DISC] if term else [])

    first = sc.get('first')     # family (e): an earlier session's version

    def factory(conn):
        # family (d) uses the plain RefServer: its disconnect really closes
        cls = RefServer if mode == 'fault' else Srv
        pre = first is not None and not W.servers
        srv = cls(conn, protoids.ids, W.rank, login=[('success',)] if pre
                  else login, play_script=[] if pre else script)
        W.servers.append(srv)
        return srv
    W.net.listen('srv', 25565, factory)
    log, exits, errs = [], [], []
    generic = W.C.packets.Packet
    conn = W.connection(
        allowed_versions={v if first is None else first},
        handle_exception=lambda e, i: errs.append(
            '%s: %s' % (type(e).__name__, str(e)[:120])),
        handle_exit=lambda: exits.append(1))

    def listener(p):
        try:
            pid = p.id
        except Exception:
            pid = None
        log.append((type(p) is generic, type(p).__name__, pid,
                    getattr(conn, 'spawned', None), harness.describe(p)))
    conn.register_packet_listener(listener, generic)
    driver_exc = None
    mid = None
    si = 0
    try:
        if first is not None:
            # the same Connection object first plays a session at another
            # protocol version, which the server ends; then the user points
            # the object at version v (public attribute) and connects again
            conn.connect()
            W.settle()
            if not W.servers:
                return {'driver_exc': 'no connection reached the server'}
            W.servers[0].play(('keepalive', 1))
            W.settle()
            W.servers[0].play(DISC)
            W.settle()
            pre_ok = (len(exits), list(errs), [list(r) for r in
                                               W.servers[0].play_rx])
            if exits != [1] or errs or len(W.servers[0].play_rx) != 1:
                return {'driver_exc': 'earlier session at protocol %d did '
                        'not end cleanly: %r' % (first, pre_ok)}
            del log[:], exits[:], errs[:]
            conn.allowed_proto_versions = {v}
            si = 1
        conn.connect()
        W.settle()
        if len(W.servers) <= si:
            return {'driver_exc': 'no connection reached the server'}
        srv = W.servers[si]
        if mode == 'step':
            for ev in events:
                srv.play(ev)
                W.settle()
        elif mode == 'late':
            for ev in events:
                srv.play(ev)
            W.settle()
        elif mode == 'queue':
            for i in range(sc['prequeue']):
                p = W.C.serverbound.play.ChatPacket()
                p.message = 'm%d' % i
                conn.write_packet(p)
            for ev in events:
                srv.play(ev)
            if term:
                srv.play(DISC)
            W.settle()
        elif mode == 'fault':       # one burst, then the server is gone
            for ev in events:
                srv.play(ev)
            srv.play(DISC)
            W.settle()
        if mode in ('step', 'late') and term:
            mid = _snap(W, conn, srv, exits, errs, si)
            srv.play(DISC)
            W.settle()
    except ToolError:
        raise
    except Exception as e:          # escaped into the user's thread
        driver_exc = '%s: %s' % (type(e).__name__, str(e)[:200])
        if len(W.servers) <= si:
            return {'driver_exc': driver_exc}
        srv = W.servers[si]
    return {'driver_exc': driver_exc, 'log': log, 'mid': mid,
            'end': _snap(W, conn, srv, exits, errs, si)}


def execute(sc):
    x = harness.run(lambda W: body(W, sc), hold=(sc['mode'] == 'held'),
                    horizon=HORIZON,
                    send_after_close=sc.get('env') or 'ok')
    if x.failure is not None:
        return {'failure': x.failure}
    return x.result


# ---------------------------------------------------------------------------
# oracle

def expect(rank, v, events):
    """-> (replies the server must see, deliveries the listener must see as
    (generic?, class name or None, id or None, spawned after it))."""
    confirm = rank.ge(v, TELEPORT_FROM)
    replies, deliv = [], []
    spawned = False
    for ev in events:
        kind = ev[0]
        if kind == 'keepalive':
            replies.append(['keepalive', ev[1]])
            deliv.append((False, 'KeepAlivePacket', None, spawned))
        elif kind == 'ppl':
            spawned = True
            if confirm:
                replies.append(['teleport_confirm', ev[7]])
            else:
                replies.append(['position_and_look', ev[1], ev[2], ev[3],
                                ev[4], ev[5], True])
            deliv.append((False, 'PlayerPositionAndLookPacket', None, True))
        elif kind == 'raw':
            deliv.append((True, 'Packet', ev[1], spawned))
        elif kind == 'named':
            deliv.append((False, NAMED_CLASS[ev[1]], None, spawned))
        else:
            raise ToolError('event %r' % (ev,))
    return replies, deliv, spawned


def _short(x, n=300):
    s = repr(x)
    return s if len(s) <= n else s[:n] + '...'


def _judge_replies(snap, exp_replies, exp_chats, where, out):
    rx = snap['rx']
    if snap['srv_errors']:
        out.append(('server-decode', '%s: the independent server could not '
                    'decode what the client sent: %s'
                    % (where, _short(snap['srv_errors']))))
    chats = [r for r in rx if r[0] == 'chat']
    rest = [r for r in rx if r[0] != 'chat']
    if chats != exp_chats:
        out.append(('user-packets', '%s: the %d chat packets queued by the '
                    'user arrived as %s' % (where, len(exp_chats),
                                            _short(chats))))
    if rest == exp_replies:
        return
    other = [r for r in rest if r[0] == 'other']
    if other:
        out.append(('unexpected-reply', '%s: the client sent packets that '
                    'answer nothing: %s; expected exactly %s'
                    % (where, _short(other), _short(exp_replies))))
        return
    ka = [r for r in rest if r[0] == 'keepalive']
    eka = [r for r in exp_replies if r[0] == 'keepalive']
    if ka != eka:
        out.append(('keepalive-reply', '%s: keep-alive replies seen by the '
                    'server %s, expected exactly one per keep-alive, same id, '
                    'same order: %s' % (where, _short(ka), _short(eka))))
        return
    pos = [r for r in rest if r[0] != 'keepalive']
    epos = [r for r in exp_replies if r[0] != 'keepalive']
    if pos != epos:
        out.append(('position-ack', '%s: acknowledgements of position-and-'
                    'look packets seen by the server %s, expected %s'
                    % (where, _short(pos), _short(epos))))
        return
    out.append(('reply-order', '%s: replies are not in arrival order: got %s '
                'expected %s' % (where, _short(rest), _short(exp_replies))))


def _judge_idle(snap, exp_replies, exp_chats, exp_spawn, where, out):
    _judge_replies(snap, exp_replies, exp_chats, where, out)
    if snap['spawned'] is not exp_spawn:
        out.append(('spawned', '%s: conn.spawned is %r, expected %r'
                    % (where, snap['spawned'], exp_spawn)))
    if snap['errs'] or snap['conn_exc'] or snap['thread_exc']:
        out.append(('exception', '%s: an exception was reported although the '
                    'server sent only well-formed packets: handler %s, '
                    'conn.exception %s, thread %s'
                    % (where, _short(snap['errs']), snap['conn_exc'],
                       snap['thread_exc'])))
    if snap['exits']:
        out.append(('exit', '%s: handle_exit was called %d times although '
                    'the connection is open' % (where, snap['exits'])))
    live = snap['live']
    if len(live) != 1 or live[0][1] != 'parked':
        out.append(('thread', '%s: expected the networking thread alive and '
                    'idle in its poll loop, agents are %s'
                    % (where, live)))
    if snap['gone'] or snap['sock_closed']:
        out.append(('closed-early', '%s: the client closed the connection '
                    'without being told to' % where))


def _judge_closed(snap, exp_replies, exp_chats, exp_spawn, where, out,
                  replies=True):
    if replies:
        _judge_replies(snap, exp_replies, exp_chats, where, out)
    if snap['spawned'] is not exp_spawn:
        out.append(('spawned', '%s: conn.spawned is %r, expected %r'
                    % (where, snap['spawned'], exp_spawn)))
    if snap['errs'] or snap['conn_exc'] or snap['thread_exc']:
        out.append(('exception', '%s: a server disconnect packet must end '
                    'the connection without an error, but: handler %s, '
                    'conn.exception %s, thread %s'
                    % (where, _short(snap['errs']), snap['conn_exc'],
                       snap['thread_exc'])))
    if snap['exits'] != 1:
        out.append(('exit', '%s: handle_exit was called %d times after the '
                    'server disconnect packet, expected exactly once'
                    % (where, snap['exits'])))
    if snap['live']:
        out.append(('thread', '%s: threads still alive after the server '
                    'disconnect packet: %s' % (where, snap['live'])))
    if not snap['gone'] or not (snap['sock_closed'] and snap['file_closed']):
        out.append(('not-closed', '%s: after the server disconnect packet '
                    'the server must see the socket closed: client_gone=%r '
                    'socket closed=%r file closed=%r'
                    % (where, snap['gone'], snap['sock_closed'],
                       snap['file_closed'])))


def judge(rank, sc, obs):
    """-> list of (kind, what)."""
    out = []
    if obs.get('failure'):
        kind, detail = obs['failure']
        return [(kind, 'the client %s: %s' % (
            'spins without making progress' if kind == 'livelock'
            else 'deadlocks', str(detail)[:400]))]
    if obs.get('driver_exc') and 'end' not in obs:
        return [('connect', 'connect() failed: %s' % obs['driver_exc'])]
    if obs.get('driver_exc'):
        out.append(('driver-exception', 'an exception escaped into the '
                    'calling thread: %s' % obs['driver_exc']))
    events = [tuple(e) for e in sc['events']]
    exp_replies, exp_deliv, exp_spawn = expect(rank, sc['v'], events)
    exp_chats = [['chat', 'm%d' % i] for i in range(sc.get('prequeue', 0))]
    end = obs['end']
    if end['state'] != 'play':
        return out + [('login', 'the login did not reach the play state '
                       '(server state %r)' % end['state'])]
    if obs['mid'] is not None:
        _judge_idle(obs['mid'], exp_replies, exp_chats, exp_spawn,
                    'idle after the history, before the disconnect', out)
    if sc['term']:
        # family (d): the server is gone, the reply itself may be lost
        _judge_closed(end, exp_replies, exp_chats, exp_spawn,
                      'after the disconnect', out,
                      replies=(sc['mode'] != 'fault'))
    else:
        _judge_idle(end, exp_replies, exp_chats, exp_spawn,
                    'idle after the history', out)
    # listener view
    log = obs['log']
    k = [i for i, e in enumerate(log) if e[1] == 'LoginSuccessPacket']
    if not k:
        out.append(('login', 'no login success packet reached the listener: '
                    '%s' % _short([e[1] for e in log])))
        return out
    got = [tuple(e[:4]) for e in log[k[0] + 1:]]
    if got and sc['term'] and got[-1][1] == 'DisconnectPacket':
        got = got[:-1]          # delivery of the disconnect itself: either
    norm = [(g, n, (i if g else None), s) for g, n, i, s in got]
    if norm != exp_deliv:
        # which clause?
        n = 0
        while n < len(norm) and n < len(exp_deliv) and norm[n] == exp_deliv[n]:
            n += 1
        e = exp_deliv[n] if n < len(exp_deliv) else None
        g = norm[n] if n < len(norm) else None
        if e is not None and g is not None and e[:3] == g[:3]:
            kind = 'spawned-at-delivery'
        elif e is not None and e[0]:
            kind = 'unknown-delivery'
        elif any(x[0] for x in exp_deliv[:n]):
            kind = 'after-unknown'
        else:
            kind = 'delivery'
        out.append((kind, 'packets seen by a Packet-wide listener differ '
                    'from what the server sent at position %d: got %s, '
                    'expected %s (generic?, class, id, conn.spawned); full '
                    'log %s' % (n, g, e, _short([x[4] for x in log[k[0] + 1:]],
                                                600))))
    return out


# ---------------------------------------------------------------------------
# running and recording one scenario

def _state_of(sc, snap):
    rx = snap['rx']
    return ('c11', sc['v'], sc['comp'], snap['spawned'], snap['reactor'],
            snap['qlen'], tuple(snap['live']), snap['connected'],
            snap['exits'], bool(snap['errs']),
            sum(1 for r in rx if r[0] == 'keepalive'),
            sum(1 for r in rx if r[0] == 'teleport_confirm'),
            sum(1 for r in rx if r[0] == 'position_and_look'),
            sum(1 for r in rx if r[0] not in ('keepalive', 'teleport_confirm',
                                              'position_and_look')))


def _hist_text(sc):
    parts = []
    for ev in sc['events'][:6]:
        if ev[0] == 'keepalive':
            parts.append('ka(%d)' % ev[1])
        elif ev[0] == 'ppl':
            parts.append('ppl(f=%#x,t=%d)' % (ev[6], ev[7]))
        elif ev[0] == 'raw':
            parts.append('unk(%#x,%dB)' % (ev[1], len(ev[2])))
        else:
            parts.append(ev[1].split('.')[-1])
    if len(sc['events']) > 6:
        parts.append('...%d events' % len(sc['events']))
    if sc.get('prequeue'):
        parts.insert(0, '%d user chats' % sc['prequeue'])
    if sc['term']:
        parts.append('disconnect')
    if sc.get('first') is not None:
        parts.insert(0, '[second play session of a Connection object whose '
                     'first one ran at protocol %d]' % sc['first'])
    return ' '.join(parts) or '(empty)'


def run_scenario(ctx, sc, family):
    rank = harness.setup()['rank']
    if _HANGS[0] >= MAX_HANGS:
        # every hang costs seconds to unwind; the verdict is already FAIL
        ctx.cap('skipped after %d hangs in this worker' % MAX_HANGS)
        return None
    obs = execute(sc)
    if obs.get('failure'):
        _HANGS[0] += 1
    events = sc['events']
    nev = len(events) + (1 if sc['term'] else 0)
    ctx.count()
    ctx.traces += 1
    ctx.transitions += nev
    if events or sc.get('prequeue'):
        ctx.note_distinct(1)
    verdicts = judge(rank, sc, obs)
    if not sc.get('judged', True):
        # documented observation (DESIGN.md 9.3): with these shapes the
        # unchanged tree itself reports the write fault; recorded only
        ctx.outcome('d observed [%s] env=%s: %s' % (
            sc.get('shape'), sc.get('env'),
            'clean' if not verdicts else
            '+'.join(sorted(set(k for k, _ in verdicts)))))
        verdicts = []
    if 'end' in obs and sc['mode'] == 'fault':
        end = obs['end']
        if sc.get('judged', True):
            # (ok_once: the length prefix of the reply frame is accepted,
            # the send of its body fails; raise: the first send fails)
            if end['send_fails'] and not end['errs']:
                ctx.cls('d: write fault forgiven by the disconnect packet '
                        '(%s)' % sc.get('env'))
            ctx.cls('d: judged, environment answer %s' % sc.get('env'))
    if 'end' in obs:
        end = obs['end']
        ctx.state(_state_of(sc, end))
        if obs['mid'] is not None:
            ctx.state(_state_of(sc, obs['mid']))
        ctx.outcome('%s exits=%d live=%s spawned=%s' % (
            'closed' if end['gone'] else 'open', end['exits'],
            ','.join(a[1] for a in end['live']) or '-', end['spawned']))
        if end['compressed_frames']:
            ctx.cls('client reply frames actually compressed',
                    end['compressed_frames'])
        if sc['comp'] is not None:
            ctx.cls('compression format in use (threshold %d)' % sc['comp'])
        kinds = set(r[0] for r in end['rx'])
        for kd in sorted(kinds):
            ctx.cls('runs with reply kind ' + kd)
        if any(e[0] for e in obs['log']):
            ctx.cls('runs with a generic packet delivered')
        if obs['mid'] is not None and obs['mid']['qlen'] == 0 \
                and obs['mid']['rx']:
            ctx.cls('replies written by the loop before the disconnect')
        if sc['mode'] == 'burst' and sc['term'] and len(end['rx']) >= 2:
            ctx.cls('two or more replies flushed by disconnect()')
    else:
        ctx.outcome('no result: %s' % (obs.get('failure') or ['connect'])[0])
    ctx.cls('family %s' % family)
    era = ('long' if rank.ge(sc['v'], KEEPALIVE_LONG_FROM) else 'varint') + \
        ('/confirm' if rank.ge(sc['v'], TELEPORT_FROM) else '/echo')
    ctx.cls('layout ' + era)
    for kind, what in verdicts:
        ctx.violation(
            '%s: %s v=%d' % (family, kind, sc['v']),
            'protocol %d, compression %s, delivery %s%s, history [%s]: %s'
            % (sc['v'], 'off' if sc['comp'] is None else sc['comp'],
               sc['mode'], (' (send to the closed peer: %s)' % sc['env'])
               if sc.get('env') else '', _hist_text(sc), what),
            dict(sc, family=family))
    return obs


# ---------------------------------------------------------------------------
# alphabets and enumeration

def _is_long(rank, v):
    return rank.ge(v, KEEPALIVE_LONG_FROM)


def seed_id(seed, long_layout):
    x = h64(('c11 keep-alive id', seed))
    if long_layout:
        return x - (1 << 63)                    # any signed 64-bit value
    return x % (1 << 31)


def ka_ids(long_layout, seed):
    ids = [0, 1, 127, 128, 2 ** 31 - 1]
    if long_layout:
        ids += [2 ** 31, 2 ** 63 - 1, -1, -2 ** 63]
    else:
        # VarInt layouts: a real server sends a signed 32-bit id; negative
        # ones are 5-byte VarInts with bit 31 set on the wire.  The reference
        # server encodes them two's-complement and decodes the reply signed,
        # so "same id" is judged on the wire value.
        ids += [-1, -2 ** 31]
    s = seed_id(seed, long_layout)
    if s not in ids:
        ids.append(s)
    return ids


def alphabet(long_layout, seed, which='b'):
    """'b': the full alphabet; 'b2': extended (all flag x teleport-id
    combinations, update-health); 'b3': one member per event class."""
    if which == 'b3':
        big = -2 ** 63 if long_layout else 2 ** 31 - 1
        return [('keepalive', 128), ('keepalive', big), PPL[(0x1F, 127)],
                U1, UM, TIME]
    a = [('keepalive', n) for n in ka_ids(long_layout, seed)]
    a += PPL_GRID if which == 'b2' else [PPL[k] for k in sorted(PPL)]
    a += [U1, UM, U0, TIME]
    if which == 'b2':
        a.append(HEALTH)
    return a


def seed_payload(seed):
    out = b''
    i = 0
    while len(out) < 300:
        out += h64(('c11 payload', seed, i)).to_bytes(8, 'big')
        i += 1
    return out[:300]


def family_a(long_layout, seed):
    sid = seed_id(seed, long_layout)
    big = 2 ** 31 - 1 if not long_layout else -2 ** 63
    return [
        ([('keepalive', 7)], False),
        ([('keepalive', 128), ('keepalive', big)], False),
        ([PPL[(0x00, 0)], ('keepalive', 3)], False),
        ([U1, ('keepalive', 4)], False),
        ([('keepalive', 5)], True),
        ([PPL[(0x1F, 127)], PPL[(0x08, 128)]], False),
        ([('raw', 0x7E, seed_payload(seed)), ('keepalive', sid)], True),
    ]


def boundary_versions(mc):
    sup = list(mc.SUPPORTED_PROTOCOL_VERSIONS)
    known = list(mc.KNOWN_PROTOCOL_VERSIONS)
    idx = {v: i for i, v in enumerate(known)}
    want = [47, 107, 338, 339, 340, 404, 477, 754, 755, 757]
    out = [v for v in want if v in sup]
    if 107 in idx:                  # nearest supported on each side of 107
        below = [v for v in sup if idx[v] < idx[107]]
        above = [v for v in sup if idx[v] > idx[107]]
        if below:
            out.append(max(below, key=idx.get))
        if above:
            out.append(min(above, key=idx.get))
    pre = [v for v in sup if v & (1 << 30)]
    if pre:
        out.append(max(pre, key=idx.get))
    return sorted(set(out), key=idx.get)


C_VERSIONS = (47, 338, 340, 757)
Q_VERSIONS = (47, 340, 757)


def _check_alphabet(v):
    """The 'unknown' ids must be unknown to the tree under test and the
    'named' packets must have an unambiguous id there (precondition)."""
    known = protoids.all_clientbound_play_ids(v)
    for ev in (U1, UM, U0, ('raw', 0x7E, b'')):
        if ev[1] in known:
            raise ToolError('id %#x is known at %d' % (ev[1], v))
    return known


def w_family_a(ctx, task):
    versions, seed = task
    rank = harness.setup()['rank']
    for v in versions:
        _check_alphabet(v)
        for ci, comp in enumerate(COMPS):
            for hi, (events, term) in enumerate(
                    family_a(_is_long(rank, v), seed)):
                for mode in ('burst', 'step'):
                    sc = {'v': v, 'comp': comp, 'mode': mode,
                          'events': events, 'term': term}
                    run_scenario(ctx, sc, 'a')
        if v & (1 << 30):
            ctx.cls('pre-release protocol number')


E_PAIRS = [(47, 340), (340, 47), (340, 757), (757, 340), (47, 757),
           (757, 47), (107, 47), (578, 735), (340, 340)]


def w_family_e(ctx, task):
    """(e) the histories of family (a) as the SECOND play session of a
    Connection object whose first session ran at another protocol version"""
    (first, v), seed = task
    rank = harness.setup()['rank']
    _check_alphabet(v)
    for comp in (None, 256):
        for events, term in family_a(_is_long(rank, v), seed):
            for mode in ('burst', 'step'):
                sc = {'v': v, 'comp': comp, 'mode': mode, 'events': events,
                      'term': term, 'first': first}
                run_scenario(ctx, sc, 'e')
    ctx.cls('e: second session at %s protocol version' % (
        'the same' if first == v else 'another'))


def _histories(alpha, prefix, maxlen):
    """All histories extending prefix (inclusive) up to maxlen."""
    yield list(prefix)
    for extra in range(1, maxlen - len(prefix) + 1):
        for tail in itertools.product(alpha, repeat=extra):
            yield list(prefix) + list(tail)


def w_family_b(ctx, task):
    v, prefix_idx, maxlen, which, seed, base = task
    rank = harness.setup()['rank']
    known = _check_alphabet(v)
    alpha = alphabet(_is_long(rank, v), seed, which)
    for ev in alpha:
        if ev[0] == 'named':
            pid = protoids.ids(ev[1], v)
            if known.get(pid) != NAMED_CLASS[ev[1]]:
                raise ToolError('%s is not unique at %d' % (ev[1], v))
    family = which
    if prefix_idx is None:          # the histories shorter than the prefixes
        todo = [[]] + [[e] for e in alpha]
        if maxlen < 2:
            todo = [[]]
    else:
        prefix = [alpha[i] for i in prefix_idx]
        todo = _histories(alpha, prefix, maxlen)
    for n, events in enumerate(todo):
        comp = COMPS[(base + n + seed) % 3]
        for mode in ('burst', 'late'):
            sc = {'v': v, 'comp': comp, 'mode': mode, 'events': events,
                  'term': True}
            obs = run_scenario(ctx, sc, family)
            if mode == 'late' and obs is not None and obs.get('mid'):
                # the idle observation is a judged history of its own
                ctx.traces += 1
                ctx.count()
                if events:
                    ctx.note_distinct(1)


def w_family_c(ctx, task):
    v, comp, ns = task
    for n in ns:
        events = [('keepalive', i) for i in range(1, n + 1)]
        for mode in ('burst', 'held', 'step'):
            sc = {'v': v, 'comp': comp, 'mode': mode, 'events': events,
                  'term': True}
            run_scenario(ctx, sc, 'c')
            if n >= 50:
                ctx.cls('c: more keep-alives than one read batch (%s)' % mode)
            if n >= 300:
                ctx.cls('c: 300 or more keep-alives (%s)' % mode)


def w_family_q(ctx, task):
    v, comp, m, n = task
    events = [('keepalive', i) for i in range(1, n + 1)]
    sc = {'v': v, 'comp': comp, 'mode': 'queue', 'events': events,
          'term': True, 'prequeue': m}
    run_scenario(ctx, sc, 'c2')
    if m >= 300:
        ctx.cls('c2: user queue reaches the 300-write batch limit')


D_VERSIONS = (47, 340, 757)
D_ENVS = ('ok_once', 'raise', 'reset_once', 'reset')
D_UNKNOWN = (U1, U0, UM)


def d_events(n_unknown, ka_positions):
    """n_unknown unknown-id frames with keep-alives inserted so that they
    end up at the given indices of the resulting sequence."""
    total = n_unknown + len(ka_positions)
    out, u = [], 0
    for i in range(total):
        if i in ka_positions:
            out.append(('keepalive', 1000 + i))
        else:
            out.append(D_UNKNOWN[u % len(D_UNKNOWN)])
            u += 1
    return out


def d_cases():
    """(shape text, events, judged).  Judged: 49 unknown frames and ONE
    keep-alive = exactly the 50 packets of one read lap, so that exactly one
    reply is queued when the quota is hit and the disconnect packet is read
    in the lap whose write phase met the dead peer."""
    out = []
    for pos in (49, 0, 24):
        out.append(('49 unknown + keep-alive at %d' % pos,
                    d_events(49, (pos,)), True))
    # one or two replies still queued when the disconnect packet is reacted
    # to: the flush inside disconnect() meets the dead peer (absorbed since
    # /repo 99feca0, so these shapes are judged as well)
    out.append(('48 unknown + keep-alive', d_events(48, (48,)), True))
    out.append(('50 unknown + keep-alive', d_events(50, (50,)), True))
    out.append(('48 unknown + 2 keep-alives', d_events(48, (48, 49)), True))
    return out


def w_family_d(ctx, task):
    v, comp, env = task
    _check_alphabet(v)
    for shape, events, judged in d_cases():
        sc = {'v': v, 'comp': comp, 'mode': 'fault', 'events': events,
              'term': True, 'env': env, 'judged': judged, 'shape': shape}
        run_scenario(ctx, sc, 'd')


def _chunks(seq, n):
    seq = list(seq)
    return [seq[i:i + n] for i in range(0, len(seq), n)]


def _permute(tasks, seed):
    return sorted(tasks, key=lambda t: h64((seed, repr(t))))


def run(ctx):
    mc = use_repo()
    seed = ctx.seed
    sup = list(mc.SUPPORTED_PROTOCOL_VERSIONS)
    bvs = boundary_versions(mc)
    known = list(mc.KNOWN_PROTOCOL_VERSIONS)
    idx = {v: i for i, v in enumerate(known)}
    ctx.extra['supported_versions'] = len(sup)
    ctx.extra['boundary_versions'] = bvs
    # (a)
    ctx.pmap(w_family_a, _permute([(c, seed) for c in _chunks(sup, 4)], seed))
    # (b), (b2), (b3)
    maxlen = 4 if ctx.thorough else 3
    tasks = []
    for v in bvs:
        long_layout = idx[v] >= idx[KEEPALIVE_LONG_FROM]
        for which, ml in (('b', maxlen), ('b2', 2), ('b3', maxlen + 1)):
            na = len(alphabet(long_layout, seed, which))
            tasks.append((v, None, ml, which, seed, 0))
            per = sum(na ** k for k in range(0, ml - 1))
            if ml >= 4 and na > 8:      # deep: one task per two-symbol prefix
                for i in range(na):
                    for j in range(na):
                        tasks.append((v, (i, j), ml, which, seed,
                                      (i * na + j) * per))
            else:                       # shallow: one task per first symbol
                for i in range(na):
                    tasks.append((v, (i,), ml, which, seed, i * per))
    # a task with a one-symbol prefix enumerates [e] itself again: avoid the
    # duplicate by letting the None-task cover only the empty history there
    ctx.pmap(w_family_b, _permute(_dedupe_b(tasks), seed))
    # (c)
    if ctx.thorough:
        ns = list(range(0, 321))
    else:
        ns = list(range(0, 61)) + list(range(295, 306))
    cv = [v for v in C_VERSIONS if v in sup]
    tasks = []
    for v in cv:
        for comp in (None, 256):
            for chunk in _chunks(ns, 3):
                tasks.append((v, comp, chunk))
    ctx.pmap(w_family_c, _permute(tasks, seed))
    # (c2)
    ms = [0, 1, 49, 50, 51, 299, 300, 301, 350]
    if ctx.thorough:
        ms = sorted(set(ms + list(range(290, 311)) + list(range(45, 56))
                        + [600, 601]))
    tasks = [(v, comp, m, n) for v in Q_VERSIONS if v in sup
             for comp in (None, 0) for m in ms for n in (0, 3, 60)]
    ctx.pmap(w_family_q, _permute(tasks, seed))
    # (d) the only family with send faults
    tasks = [(v, comp, env) for v in D_VERSIONS if v in sup
             for comp in (None, 256) for env in D_ENVS]
    ctx.pmap(w_family_d, _permute(tasks, seed))
    # (e) a Connection object that already played a session at another version
    tasks = [((a, b), seed) for a, b in E_PAIRS if a in sup and b in sup]
    ctx.pmap(w_family_e, _permute(tasks, seed))
    ctx.extra['second_sessions'] = [list(t[0]) for t in tasks]
    ctx.sample({'family': 'a', 'history': 'position-and-look then '
                'keep-alive(3)', 'versions': len(sup), 'compression': 'off/0/256'})
    ctx.sample({'family': 'b', 'versions': bvs, 'max_length': maxlen,
                'alphabet_long': [_hist_text({'events': [e], 'term': False})
                                  for e in alphabet(True, seed)]})
    ctx.sample({'family': 'c', 'versions': cv, 'n': [ns[0], ns[-1]],
                'delivery': ['burst', 'held', 'step']})
    # vacuity guards
    need = ['family a', 'family b', 'family b2', 'family b3', 'family c',
            'family c2', 'family d',
            'd: write fault forgiven by the disconnect packet (ok_once)',
            'd: write fault forgiven by the disconnect packet (raise)',
            'd: write fault forgiven by the disconnect packet (reset_once)',
            'd: write fault forgiven by the disconnect packet (reset)',
            'layout varint/echo', 'layout varint/confirm',
            'layout long/confirm', 'runs with reply kind keepalive',
            'runs with reply kind teleport_confirm',
            'runs with reply kind position_and_look',
            'runs with a generic packet delivered',
            'client reply frames actually compressed',
            'two or more replies flushed by disconnect()',
            'replies written by the loop before the disconnect',
            'pre-release protocol number',
            'c2: user queue reaches the 300-write batch limit',
            'family e', 'e: second session at another protocol version',
            'c: 300 or more keep-alives (burst)']
    if not ctx.violations:
        for n in need:
            if not ctx.classes.get(n):
                raise ToolError('vacuity guard: class %r was never hit' % n)


def _dedupe_b(tasks):
    """Shallow (one-symbol prefix) tasks already run [e]; their None-task
    must then cover only the empty history."""
    shallow = set((t[0], t[3]) for t in tasks
                  if t[1] is not None and len(t[1]) == 1)
    out = []
    for t in tasks:
        if t[1] is None and (t[0], t[3]) in shallow:
            t = (t[0], None, 0, t[3], t[4], t[5])
        out.append(t)
    return out


def replay(ctx, case):
    family = case.get('family', 'replay')
    sc = {'v': case['v'], 'comp': case['comp'], 'mode': case['mode'],
          'events': [tuple(e) for e in case['events']], 'term': case['term']}
    if case.get('prequeue'):
        sc['prequeue'] = case['prequeue']
    for k in ('env', 'judged', 'shape'):
        if case.get(k) is not None:
            sc[k] = case[k]
    run_scenario(ctx, sc, family)
