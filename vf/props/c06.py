"""C06 - per-version packet id tables are total and injective.

The whole space is finite and is enumerated completely: every supported
protocol version x 4 states x 2 directions.  The remaining known versions are
reported in the evidence, never judged.
"""
from vf.runner import use_repo, ToolError
from vf import explore, interleave

LEVEL = 'exploration'
RULE = ('Complete enumeration of (supported protocol version, state, '
        'direction) tables, walked three times (oldest first, newest first, '
        'oldest first, then with one long-lived context per version used '
        'alternately oldest/newest, then with a single context whose '
        'version is re-assigned in place - in that pass one long-lived object per packet class, bound to that context, must also report the id of the version now in force) with every pass judged and the passes compared: every class in get_packets(context) must resolve '
        'to a non-negative int id, ids pairwise distinct, and the id->class '
        'dict built by the matching PacketReactor must map every id to its '
        'owner, identically over repeated constructions.  A table is '
        'non-trivial when it holds at least two classes; distinct = distinct '
        '(version, state, direction, id assignment) tables.  Concurrency: two '
        'threads build the tables of two different versions at the same '
        'time (7 version pairs/tables), every source line of the packet '
        'table modules, minecraft/utility and ConnectionContext a '
        'scheduling point, all schedules with <= 1 preemption (login '
        'tables: 2, thorough 3; thorough: 14 cases): each thread gets the table it gets '
        'alone, also afterwards.  First use: two threads build the reactor '
        '(its id->class dict) of the same / of two versions in a FRESH FORK '
        'of a process in which no reactor was ever built, one fork per '
        'schedule, <= 1 preemption, 3 (5) cases: both get the table a '
        'process gets that builds it alone, also afterwards.')
ASSUMPTIONS = ['id tables are pure functions of the protocol version '
               '(checked: each table is built three times and compared)']

STATES = ('handshake', 'status', 'login', 'play')


def tables():
    use_repo()
    from minecraft.networking.packets import clientbound, serverbound
    out = []
    for direction, pkg in (('clientbound', clientbound),
                           ('serverbound', serverbound)):
        for st in STATES:
            out.append((direction, st, getattr(pkg, st).get_packets))
    return out


def reactor_for(state):
    from minecraft.networking import connection as C
    return {'handshake': C.PacketReactor, 'status': C.StatusReactor,
            'login': C.LoginReactor, 'play': C.PlayingReactor}[state]


class _Conn(object):
    def __init__(self, context):
        self.context = context


def check_table(ctx, version, direction, state, judged=True, context=None):
    from minecraft.networking.connection import ConnectionContext
    get_packets = dict(((d, s), g) for d, s, g in tables())[direction, state]
    if context is None:
        context = ConnectionContext(protocol_version=version)
    case = {'version': version, 'direction': direction, 'state': state}
    try:
        classes = sorted(get_packets(context), key=lambda c: c.__name__)
    except Exception as e:
        if judged:
            ctx.violation('table-raises v=%d %s/%s' % (version, direction,
                          state), 'get_packets raised %r' % (e,), case)
        return None
    ids = {}
    assign = []
    bad = False
    for cls in classes:
        try:
            i = cls.get_id(context)
        except Exception as e:
            i = e
        if isinstance(i, bool) or not isinstance(i, int) or i < 0:
            bad = True
            if judged:
                ctx.violation(
                    'no-id v=%d %s/%s %s' % (version, direction, state,
                                             cls.__name__),
                    '%s.get_id(%d) = %r, not a non-negative int'
                    % (cls.__name__, version, i), case)
            continue
        assign.append((cls.__name__, i))
        ids.setdefault(i, []).append(cls.__name__)
    for i, names in sorted(ids.items()):
        if len(names) > 1:
            bad = True
            if judged:
                ctx.violation(
                    'collision v=%d %s/%s id=0x%02X %s'
                    % (version, direction, state, i, '+'.join(sorted(names))),
                    'protocol %d %s %s: id 0x%02X is shared by %s; which '
                    'decoder wins depends on set iteration order'
                    % (version, direction, state, i, ', '.join(names)), case)
    if judged and direction == 'clientbound':
        # the dict the reactor really builds: every id -> its owner, and
        # the same over repeated constructions
        R = reactor_for(state)
        seen = []
        for _ in range(3):
            try:
                r = R(_Conn(context))
            except Exception as e:
                ctx.violation('reactor-raises v=%d %s' % (version, state),
                              '%s(...) raised %r' % (R.__name__, e), case)
                break
            seen.append(sorted((i, c.__name__)
                               for i, c in r.clientbound_packets.items()))
        else:
            if not (seen[0] == seen[1] == seen[2]):
                ctx.violation('reactor-unstable v=%d %s' % (version, state),
                              'id->class dict differs between constructions',
                              case)
            table = dict(seen[0])
            for name, i in assign:
                if len(ids[i]) == 1 and table.get(i) != name:
                    ctx.violation(
                        'reactor-wrong v=%d %s id=0x%02X' % (version, state, i),
                        'reactor maps id 0x%02X to %r, owner is %s'
                        % (i, table.get(i), name), case)
            if not bad and len(table) != len(assign):
                ctx.violation('reactor-size v=%d %s' % (version, state),
                              'reactor table has %d entries for %d classes'
                              % (len(table), len(assign)), case)
    return assign, bad


def check_instances(ctx, version, direction, state, context, inst, assign):
    """Long-lived packet OBJECTS bound to the context whose version is
    re-assigned in place (a packet a user keeps and sends again after the
    connection negotiated another version): the id each instance reports
    must be the id of its class in the table of the version in force now."""
    get_packets = dict(((d, s), g) for d, s, g in tables())[direction, state]
    want = dict(assign or ())
    try:
        classes = sorted(get_packets(context), key=lambda c: c.__name__)
    except Exception:
        return                          # reported by check_table
    for cls in classes:
        key = (direction, state, cls)
        try:
            if key not in inst:
                inst[key] = cls(context)
            got = inst[key].id
        except Exception as e:
            got = e
        ctx.count()
        if cls.__name__ in want and not (
                type(got) is int and got == want[cls.__name__]):
            ctx.violation(
                'instance-id v=%d %s/%s %s' % (version, direction, state,
                                               cls.__name__),
                'protocol %d %s %s: a %s object created earlier on a context '
                'whose protocol_version has since been re-assigned to %d '
                'reports id %r; the table of protocol %d gives its class id '
                '0x%02X' % (version, direction, state, cls.__name__, version,
                            got, version, want[cls.__name__]),
                {'version': version, 'direction': direction, 'state': state,
                 'passes': True})
    ctx.cls('long-lived packet objects on a re-assigned context')


# -- two connections building their tables at the same time ---------------------
RACE_MODULES = ('minecraft.networking.packets.clientbound.play',
                'minecraft.networking.packets.serverbound.play',
                'minecraft.networking.packets.clientbound.login',
                'minecraft.networking.packets.serverbound.login',
                'minecraft.networking.packets.clientbound.status',
                'minecraft.networking.packets.packet',
                'minecraft.utility',
                'minecraft.networking.connection:ConnectionContext')
PRE = 1 << 30
RACE_CASES = [(47, 757, 'clientbound', 'play'),
              (757, 340, 'clientbound', 'play'),
              (384, 385, 'clientbound', 'play'),
              (754, PRE | 5, 'clientbound', 'play'),
              (47, 757, 'serverbound', 'play'),
              (578, 735, 'serverbound', 'play'),
              (340, 757, 'clientbound', 'login')]


RACE_CASES_THOROUGH = [(107, 210, 'clientbound', 'play'),
                       (404, 477, 'clientbound', 'play'),
                       (PRE | 1, 751, 'clientbound', 'play'),
                       (340, 393, 'serverbound', 'play'),
                       (751, 755, 'serverbound', 'play'),
                       (47, 391, 'serverbound', 'login'),
                       (385, 757, 'clientbound', 'login')]


def table_of(version, direction, state):
    from minecraft.networking.connection import ConnectionContext
    context = ConnectionContext(protocol_version=version)
    get_packets = dict(((d, s), g) for d, s, g in tables())[direction, state]
    # (classes visited in name order: the iteration order of a set of
    # classes differs from process to process, and a schedule must mean the
    # same thing in every worker and in a replay)
    return [(c.get_id(context), c.__name__)
            for c in sorted(get_packets(context), key=lambda c: c.__name__)]


def race_body(W, params):
    use_repo()
    a, b, direction, state = (params['a'], params['b'], params['direction'],
                              params['state'])
    alone = [table_of(a, direction, state), table_of(b, direction, state)]
    got = interleave.race(W, [lambda: table_of(a, direction, state),
                              lambda: table_of(b, direction, state)])
    after = [table_of(a, direction, state), table_of(b, direction, state)]
    viol = []
    for i, v in enumerate((a, b)):
        if got[i] != ('ok', alone[i]):
            viol.append(('concurrent table v=%d %s/%s' % (v, direction, state),
                         'protocol %d %s %s built while another thread '
                         'builds the table of protocol %d: %s; alone: %s'
                         % (v, direction, state, (a, b)[1 - i],
                            _diff(got[i], alone[i]), len(alone[i]))))
        if after[i] != alone[i]:
            viol.append(('table after concurrent use v=%d %s/%s'
                         % (v, direction, state),
                         'protocol %d %s %s differs after two threads built '
                         'tables concurrently: %s'
                         % (v, direction, state,
                            _diff(('ok', after[i]), alone[i]))))
    return {'outcome': (len(alone[0]), len(alone[1])), 'violations': viol}


def _diff(got, want):
    if got[0] != 'ok':
        return 'raised %s' % (got[1],)
    extra = [x for x in got[1] if x not in want]
    missing = [x for x in want if x not in got[1]]
    return 'unexpected entries %r, missing entries %r' % (extra[:4],
                                                          missing[:4])


def race_factory(params):
    def scenario(prefix, expect, visited=None, budget=0):
        return interleave.run(lambda W: race_body(W, params), prefix, expect,
                              budget, modules=RACE_MODULES, horizon=400000)
    return scenario


def run_races(ctx, ex):
    mc = use_repo()
    # (a play table is ~600 line points per thread: <= 2 preemptions would
    # be ~10^5 schedules per case; the small login tables get bound 2/3)
    cases = list(RACE_CASES)
    if ctx.thorough:
        cases += RACE_CASES_THOROUGH
    bound = 1
    execs = 0
    for a, b, direction, state in cases:
        if a not in mc.SUPPORTED_PROTOCOL_VERSIONS or \
                b not in mc.SUPPORTED_PROTOCOL_VERSIONS:
            continue
        b_case = (3 if ctx.thorough else 2) if state == 'login' else 1
        bound = max(bound, b_case)
        res = ex.explore(ctx, race_factory,
                         {'a': a, 'b': b, 'direction': direction,
                          'state': state}, b_case, label='race ')
        execs += res.execs
        ctx.cls('two threads building tables concurrently')
    ctx.extra['concurrent'] = {
        'cases': [list(c) for c in cases], 'preemption_bound_max': bound,
        'schedules_executed': execs,
        'points': 'every source line of ' + ', '.join(RACE_MODULES)}


# -- two connections entering a state for the first time, concurrently ----------
# Every execution is a fresh fork of a process in which no reactor was ever
# built (explore(..., cold=True)); the reactor's own dict construction runs.

COLD_MODULES = RACE_MODULES + ('minecraft.networking.connection:PacketReactor',)
COLD_CASES = [(340, 340, 'play'), (757, 757, 'play'), (340, 757, 'play'),
              (754, 754, 'login'), (47, 47, 'status')]


def reactor_table(version, state):
    from minecraft.networking.connection import ConnectionContext
    r = reactor_for(state)(_Conn(ConnectionContext(protocol_version=version)))
    return sorted((i, c.__name__) for i, c in r.clientbound_packets.items())


def cold_expected(cases):
    use_repo()
    return [[reactor_table(a, st), reactor_table(b, st)]
            for a, b, st in cases]


def cold_body(W, params):
    use_repo()
    a, b, state = params['a'], params['b'], params['state']
    want = [[tuple(e) for e in t] for t in params['expected']]
    got = interleave.race(W, [lambda: reactor_table(a, state),
                              lambda: reactor_table(b, state)])
    after = [reactor_table(a, state), reactor_table(b, state)]
    viol = []
    for i, v in enumerate((a, b)):
        g = got[i] if got[i][0] != 'ok' else ('ok', [tuple(e) for e in
                                                     got[i][1]])
        if g != ('ok', want[i]):
            viol.append(('first reactor, concurrent v=%d %s' % (v, state),
                         'protocol %d %s reactor built as the first of the '
                         'process while another thread builds the one of '
                         'protocol %d: %s' % (v, state, (a, b)[1 - i],
                                              _diff(g, want[i]))))
        if [tuple(e) for e in after[i]] != want[i]:
            viol.append(('reactor after a concurrent first build v=%d %s'
                         % (v, state),
                         'protocol %d %s reactor built after two threads '
                         'built the first ones concurrently: %s'
                         % (v, state, _diff(('ok', [tuple(e) for e in
                                                   after[i]]), want[i]))))
    return {'outcome': (len(want[0]), len(want[1])), 'violations': viol}


def cold_factory(params):
    def scenario(prefix, expect, visited=None, budget=0):
        return interleave.run(lambda W: cold_body(W, params), prefix, expect,
                              budget, modules=COLD_MODULES, horizon=400000)
    scenario.prepare = lambda: interleave.install(COLD_MODULES)
    return scenario


def run_cold(ctx, ex):
    bound = 1
    cases = COLD_CASES if ctx.thorough else COLD_CASES[:1] + COLD_CASES[3:]
    try:
        expected = explore.in_child(cold_expected, cases)
    except ToolError as e:
        # a reactor cannot even be built alone on this tree: the sequential
        # walk reports that; nothing to compare a concurrent build with
        ctx.extra['concurrent_first_use'] = {'skipped': str(e)[:300]}
        return False
    execs = 0
    for (a, b, state), exp in zip(cases, expected):
        res = ex.explore(ctx, cold_factory,
                         {'a': a, 'b': b, 'state': state, 'expected': exp},
                         bound, label='cold ', cold=True)
        execs += res.execs
        ctx.cls('two reactors built concurrently in a fresh process')
    ctx.extra['concurrent_first_use'] = {
        'cases': [list(c) for c in cases], 'preemption_bound': bound,
        'schedules_executed': execs,
        'each_execution': 'a fresh fork of a process in which no reactor '
                          'was ever built'}


def run(ctx):
    use_repo()
    import minecraft.networking.connection        # noqa: F401 (before the fork)
    ex = explore.Explorer(memo=False)   # forks its workers before anything runs
    try:
        cold_ok = run_cold(ctx, ex)  # first: the parent is still cold too
        _run(ctx)
        if cold_ok is False and not ctx.violations:
            raise ToolError('the reactors could not be built in a child '
                            'process although the sequential walk passes: '
                            '%r' % (ctx.extra.get('concurrent_first_use'),))
        # (tables that already depend on history would make schedules
        # irreproducible: the walk above has reported them)
        if all(k.startswith('collision ') for k in ctx.violations):
            run_races(ctx, ex)
    finally:
        ex.close()


def _run(ctx):
    mc = use_repo()
    supported = list(mc.SUPPORTED_PROTOCOL_VERSIONS)
    others = [v for v in mc.KNOWN_PROTOCOL_VERSIONS if v not in supported]
    # The tables must be functions of the version alone: the whole space is
    # walked three times - oldest to newest, newest to oldest, and oldest to
    # newest again - every pass is judged, and the passes must agree (a
    # table polluted by an earlier call for another version shows up as a
    # difference between passes or as a collision in a later pass).
    first = {}
    for npass, order in enumerate((supported, supported[::-1], supported)):
        for v in order:
            for direction, state, _ in tables():
                ctx.count()
                res = check_table(ctx, v, direction, state)
                if res is None:
                    continue
                assign, bad = res
                k = (v, direction, state)
                if npass == 0:
                    first[k] = assign
                    if len(assign) >= 2:
                        ctx.note((v, direction, state, tuple(assign)))
                    ctx.cls('%s/%s classes=%d' % (direction, state,
                                                  len(assign)))
                    if v in (47, 757) and state in ('login', 'play') and \
                            direction == 'clientbound':
                        ctx.sample({'version': v,
                                    'table': '%s/%s' % (direction, state),
                                    'ids': {n: i for n, i in assign[:8]}})
                elif assign != first.get(k):
                    ctx.violation(
                        'order-dependent v=%d %s/%s' % (v, direction, state),
                        'protocol %d %s %s: the table depends on which '
                        'tables were requested before: first %r, in pass %d '
                        '(%s) %r' % (v, direction, state, first.get(k),
                                     npass + 1, 'newest first' if npass == 1
                                     else 'oldest first again', assign),
                        {'version': v, 'direction': direction,
                         'state': state, 'passes': True})
    # ... nor on which other connections exist: one long-lived context per
    # version, all created up front (as a process holding several
    # connections has them), used alternately without any construction or
    # version assignment in between; then a single context whose version is
    # re-assigned in place (as connect() does when it negotiates).
    from minecraft.networking.connection import ConnectionContext
    live = {v: ConnectionContext(protocol_version=v) for v in supported}
    zig = [w for pair in zip(supported, supported[::-1]) for w in pair]
    moving = ConnectionContext(protocol_version=supported[0])
    inst = {}
    for label, order in (('long-lived contexts used alternately', zig),
                         ('one context re-assigned in place', zig)):
        for v in order:
            if label.startswith('one'):
                moving.protocol_version = v
                c = moving
            else:
                c = live[v]
            for direction, state, _ in tables():
                ctx.count()
                res = check_table(ctx, v, direction, state, context=c)
                if c is moving:
                    check_instances(ctx, v, direction, state, moving, inst,
                                    first.get((v, direction, state)))
                if res is not None and res[0] != first.get((v, direction,
                                                            state)):
                    ctx.violation(
                        'context-dependent v=%d %s/%s' % (v, direction, state),
                        'protocol %d %s %s: with %s the table is %r; with a '
                        'fresh context it is %r'
                        % (v, direction, state, label, res[0],
                           first.get((v, direction, state))),
                        {'version': v, 'direction': direction,
                         'state': state, 'passes': True})
    ctx.extra['passes'] = 5
    rep = 0
    for v in others:
        for direction, state, _ in tables():
            res = check_table(ctx.fork(), v, direction, state, judged=False)
            if res is None or res[1]:
                rep += 1
    ctx.extra['supported_versions'] = len(supported)
    ctx.extra['tables_judged'] = len(supported) * 8
    ctx.extra['other_known_versions_reported'] = len(others)
    ctx.extra['other_known_tables_with_problems_not_judged'] = rep


def replay(ctx, case):
    if 'choices' in case:
        fac = cold_factory if 'expected' in case['params'] else race_factory
        x = fac(case['params'])(list(case['choices']), None, None, 'replay')
        res = x.result or {}
        viol = list(res.get('violations', ()))
        if x.failure is not None:
            viol.append((x.failure[0], '%s: %s' % x.failure))
        for key, what in viol:
            ctx.violation('race %s' % key, what, case)
        return
    if case.get('passes'):
        return run(ctx)        # an order effect needs the whole walk
    use_repo()
    ctx.count()
    check_table(ctx, case['version'], case['direction'], case['state'])
