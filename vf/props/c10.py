"""C10 - login completes correctly for every order of optional server steps.

Every admissible server login script (encryption request, set-compression,
plugin requests in every order, then success or disconnect) is played by an
independent reference server (vf.refserver, own framing / CFB8 / RSA) against
the real Connection over the virtual network under the canonical schedule.
Everything is judged from the server's point of view plus the client's
reported state (reactor class, exceptions delivered to the handlers).
"""
import hashlib
import json
import random
import re

from vf import harness, protoids
from vf.refproto import codec, javahash
from vf.refserver import RefServer, status_json
from vf.runner import h64, ToolError

LEVEL = 'model_checking'
RULE = (
    'Scripts: ALL sequences over {E(server id in "", "-", "srv1") at most '
    'once; C(t), t in {0,1,64,256,2^31-1} at most twice; P(id in {1,300}, '
    'payload in {b"", 0102}) each id at most once} - the constraints bound '
    'the length by 5 - of length <= 4 (quick) / <= 5 = all (thorough), '
    'terminated by success (+ keep-alive 77, a 300-byte unknown packet, '
    'keep-alive 78 from the server; when the threshold T in force at the '
    'end is in 1..70000 also unknown-id frames of exactly T-1, T and T+1 '
    'uncompressed bytes (id VarInt + payload; the reference server '
    'compresses iff length >= T, the vanilla rule), each followed by a '
    'keep-alive that must be echoed; a 200-byte chat from the client) or by '
    'disconnect(msg) for 11 message forms.  The full product with the '
    'configuration axes is not affordable, so it is factored into families, '
    'each a COMPLETE product of the listed sets (no sampling): '
    'A all-orders: every script x success x {wait, burst (if P)} at the '
    'latest version (thorough: also at 385, 391, 707) with a stub token, '
    'eager delivery; '
    'B versions x terminators: every script of length <= 2 (thorough 3) x '
    'all 12 terminators x the supported versions either side of 385, 391, '
    '707 plus 47, 340, 757 (plugin steps only from 385) x {wait, burst}; '
    'C auth: every script containing E of length <= 3 (thorough 4) x {no '
    'token, stub token, real AuthenticationToken over a requests shim} x '
    '{success, disconnect}; '
    'D user handlers (answering with an explicit flag and data, with empty '
    'data only, with data only, by message id): every script containing P of length <= 3 (thorough 4) '
    'x early listener {answers, ignores} x {wait, burst} x {success, '
    'disconnect}, and length <= 2 x {none, answers, ignores} x versions >= '
    '385; '
    'E delivery: lazy (server output held until the client is quiescent) x '
    'every script of length <= 3 (thorough 4) x {success, disconnect} x '
    'modes; byte-wise (one byte per quiescence) x every script of length '
    '<= 2 x {success, disconnect} x modes x versions {47, 385, 757}; '
    'T threshold boundary in login: every script (tier length) whose final '
    'threshold is 64 or 256, followed by three plugin requests whose frames '
    'are exactly T-1, T, T+1 bytes x {wait, burst} at the latest version '
    '(thorough: also 385, 391, 707), and length <= 2 x versions >= 385 x '
    '{eager, lazy}; '
    'R retry on the same Connection object: after every disconnect-'
    'terminated script of length <= 2 with a plugin step (wait and burst; '
    'in burst a default response is still queued when the login dies) and '
    'the plain disconnect, and after every success script of length <= 2 '
    'followed by write_packet(chat); disconnect(immediate=True): connect() '
    'again against a second server [success, keep-alive 88]; the second '
    'server must see handshake and login start first and nothing else but '
    'the keep-alive echo, nothing more may go to the first connection, the '
    'client must reach the play state; x all boundary versions; '
    'R2 two complete uses of the same Connection object, BOTH judged '
    'completely by the same rules as a single login (every plugin request '
    'answered exactly once, secret fresh, cipher and threshold applied from '
    'the right frame on in both directions, play state proven by traffic '
    'incl. frames of T-1, T, T+1 bytes): first login = every sequence of '
    'length <= 2 over {E("srv1"), C(64), C(256), P(1), P(2^31+300)} (28) '
    'terminated by success, disconnect or the server closing the '
    'connection; the first use ends and the second starts in one of 9 ways: '
    'after success [user disconnect() then connect() | server play-state '
    'disconnect packet, then connect() | server drops the line, then '
    'connect() | server drops the line and the handle_exception callback '
    'calls connect() itself (the documented pattern: _handle_exception '
    'then skips its own disconnect) | server sends an undecodable frame and '
    'the callback calls connect()], after login disconnect / after the '
    'server closed during login [connect() from the user thread | from the '
    'callback]; second login = every sequence of the same 28 then success: '
    'the full product 28 x 28 x 9 at the latest version with a stub token; '
    'plus: a user handler answering the plugin requests in both logins '
    '(scripts with P, 2 ways); burst mode in the first login (scripts with '
    'P, login disconnect, 2 ways) and in the second (2 ways); status() '
    'instead of connect() as the second use after every first script x the '
    '5 user-thread ways (handshake, request, ping must arrive in the plain '
    'format, the answers must be delivered); and at the other boundary '
    'versions the product over sequences of length <= 1 (thorough: <= 2; '
    'plugin steps only from 385); '
    'S seed extras: scripts of length <= 2 over a seed-derived extra '
    'threshold and payload.  VERIF_SEED also derives the verify token and '
    'the scripted OS random bytes (= shared secrets) and permutes the order. '
    'Non-trivial = the script has at least one optional step; distinct = '
    'distinct (script, terminator, version, mode, auth, handler, delivery, '
    'retry). '
    'States = (reactor class, compression options, transport encrypted?, '
    'plugin ids answered, script position) observed before every packet is '
    'reacted to and at the end; transitions = script steps the client '
    'executed; traces = executions.')
ASSUMPTIONS = [
    'vf.refproto (framing, CFB8, javahash) and vf.refserver are the '
    'reference; RSA PKCS#1 v1.5 decryption is done by the cryptography '
    'package with a fixed 1024-bit test key',
    'canonical schedule only (one networking thread, the user thread acts '
    'at quiescence); sends to a peer that has closed succeed silently',
    'family R2: how the END of the first conversation surfaces (which '
    'exception after the server closed the line or sent garbage, whether '
    'the old socket is closed when the callback reconnects) is not judged '
    'here (C14/C16); when the callback starts the second use during the '
    'first login, only the conversation of the first login is judged, not '
    'its end state.  status() as a second use is judged only for what the '
    'compression and encryption clauses imply for a NEW connection: it '
    'starts in the plain format (nothing inherited from the dead session), '
    'so an independent server can decode handshake, request and ping, and '
    'the answers reach the callbacks',
    'burst mode: plugin responses that pyCraft flushes after it has read '
    'login success are accepted by the reference server as login-state '
    'plugin responses until the client is quiescent (a vanilla server never '
    'sends success before it has the responses)',
    'a frame sent uncompressed in the compressed format although it exceeds '
    'the threshold is legal (vanilla accepts it); a compressed frame '
    'shorter than the threshold is not (vanilla rejects it)',
    'packet ids of development snapshots come from the tree under test '
    '(vf.protoids); bytes are always encoded by the reference',
]

SIDS = ('', '-', 'srv1')
THRESHOLDS = (0, 1, 64, 256, 2 ** 31 - 1)
MIDS = (1, 300)
PAYLOADS = (b'', b'\x01\x02')
CHANNEL = 'vf:a'

OUTDATED = ['Outdated client! Please use 1.18.1',
            "Outdated server! I'm still on 1.12.2",
            'Outdated client! Please use 9.9.9']
DISCONNECTS = ['{"text":"bye"}', '{"translate":"x"}', '"plain string"',
               '["a"]', 'not json'] + OUTDATED + \
              [json.dumps({'text': m}) for m in OUTDATED]
BYE = DISCONNECTS[0]
KNOWN_NAMES = {'1.18.1': 757, '1.12.2': 340}     # from the version history
TERMS = [('success',)] + [('disconnect', m) for m in DISCONNECTS]

RAW_ID = 0x1234
RAW_PAYLOAD = bytes(range(256)) + b'\x00' * 44           # 300 bytes
CHAT = 'é' * 100                                     # 200 bytes UTF-8
PLAY = [('keepalive', 77), ('raw', RAW_ID, RAW_PAYLOAD), ('keepalive', 78)]
UUID = '12345678-1234-5678-1234-567812345678'
LATEST = 757
PROBE_ID = 0x7D             # unknown clientbound play id, one-byte VarInt
PROBE_MIDS = (2001, 2002, 2003)     # two-byte VarInts
PROBE_MAX_T = 70000
RETRY_KA = 88
# family R2 (two complete uses of one Connection object)
R2_STEPS = (('E', 'srv1'), ('C', 64), ('C', 256), ('P', 1, b''),
            ('P', 2 ** 31 + 300, b''))     # (a 5-byte id with bit 31 set)
R2_ENDS = ((('success',), 'user'), (('success',), 'kick'),
           (('success',), 'eof-user'), (('success',), 'eof-handler'),
           (('success',), 'garbage-handler'),
           (('disconnect', BYE), 'user'), (('disconnect', BYE), 'handler'),
           (('close',), 'user'), (('close',), 'handler'))
ENDING_TEXT = {
    'user': 'the user thread calls it when the first conversation is over '
            '(after success: after disconnect())',
    'kick': 'after the server ended the play state with a disconnect '
            'packet, from the user thread',
    'eof-user': 'after the server dropped the line in the play state, from '
                'the user thread',
    'eof-handler': 'the handle_exception callback calls connect() itself '
                   'when the server drops the line in the play state',
    'garbage-handler': 'the handle_exception callback calls connect() '
                       'itself when the server sends an undecodable frame '
                       'in the play state',
    'handler': 'the handle_exception callback calls connect() itself when '
               'the first login fails',
}
GARBAGE = b'\x05\xff\xff\xff\xff\xff'


def final_threshold(script):
    t = None
    for s in script:
        if s[0] == 'C':
            t = s[1]
    return t


def probe_targets(script):
    """Uncompressed frame lengths (id VarInt + payload) T-1, T, T+1 around
    the threshold in force at the end of the script."""
    t = final_threshold(script)
    if t is None or not 1 <= t <= PROBE_MAX_T:
        return []
    return [n for n in (t - 1, t, t + 1) if n >= 1]


def play_events(script):
    ev = list(PLAY)
    for i, n in enumerate(probe_targets(script)):
        ev.append(('raw', PROBE_ID,
                   bytes((7 * k + i) & 0xFF for k in range(n - 1))))
        ev.append(('keepalive', 101 + i))
    return ev


def answer_data(mid):
    """What the user handler answers a plugin request with: the three ways
    of building the response are spread over the message ids."""
    return (b'ok', b'', b'x')[mid % 3]


def answer_kw(mid):
    # explicit flag + data / data only, empty / data only, non-empty: a
    # response built with data (even empty) and no flag counts as successful
    if mid % 3 == 0:
        return {'successful': True, 'data': b'ok'}
    return {'data': answer_data(mid)}


def login_probes(script):
    """Plugin requests whose frame (1-byte id, 2-byte message id, channel,
    data) is exactly T-1, T, T+1 long, to follow the script."""
    fixed = 1 + 2 + 1 + len(CHANNEL)
    return tuple(('P', PROBE_MIDS[i], bytes((5 * k + i) & 0xFF
                                            for k in range(n - fixed)))
                 for i, n in enumerate(probe_targets(script)) if n >= fixed)


# ---------------------------------------------------------------------------
# enumeration

def scripts(maxlen, thresholds=THRESHOLDS, payloads=PAYLOADS):
    out = []

    def rec(seq, e, c, used):
        out.append(tuple(seq))
        if len(seq) == maxlen:
            return
        if not e:
            for sid in SIDS:
                rec(seq + [('E', sid)], True, c, used)
        if c < 2:
            for t in thresholds:
                rec(seq + [('C', t)], e, c + 1, used)
        for mid in MIDS:
            if mid not in used:
                for pl in payloads:
                    rec(seq + [('P', mid, pl)], e, c, used + (mid,))
    rec([], False, 0, ())
    return out


def r2_scripts(maxlen):
    """All sequences over R2_STEPS (one encryption request, each plugin id
    once) of length <= maxlen."""
    out = []

    def rec(seq):
        out.append(tuple(seq))
        if len(seq) == maxlen:
            return
        for st in R2_STEPS:
            if st[0] in 'EP' and st in seq:
                continue
            rec(seq + [st])
    rec([])
    return out


def scn2(s1, term, ending, s2, v=LATEST, mode='wait', mode2='wait',
         listener='none', second='login'):
    return scn(s1, term, v=v, mode=mode, auth='stub', listener=listener,
               retry=('2', ending, tuple(s2), mode2, second))


def has(script, kind):
    return any(s[0] == kind for s in script)


def kinds(script):
    return ''.join(s[0] for s in script) or '-'


def versions(mc):
    s = sorted(mc.SUPPORTED_PROTOCOL_VERSIONS,
               key=mc.PROTOCOL_VERSION_INDICES.get)
    out = {47, 340, LATEST}
    for b in (385, 391, 707):
        i = s.index(b)
        out.update((s[i - 1], s[i]))
    return sorted(out, key=mc.PROTOCOL_VERSION_INDICES.get)


def scn(script, term, v=LATEST, mode='wait', auth='stub', listener='none',
        delivery='eager', retry=''):
    return (tuple(script), tuple(term), v, mode, auth, listener, delivery,
            retry)


def modes(script):
    return ('wait', 'burst') if has(script, 'P') else ('wait',)


def families(tier, seed, mc):
    thorough = tier == 'thorough'
    vs = versions(mc)
    idx = mc.PROTOCOL_VERSION_INDICES
    vp = [v for v in vs if idx[v] >= idx[385]]
    fam = {}
    la, lb, lc = (5, 3, 4) if thorough else (4, 2, 3)
    s_all, s_b, s_c, s_2 = scripts(la), scripts(lb), scripts(lc), scripts(2)
    ok, dis = ('success',), ('disconnect', BYE)

    va = [v for v in (385, 391, 707) if v in vs] if thorough else []
    fam['A'] = [scn(s, ok, v=v, mode=m) for s in s_all for m in modes(s)
                for v in va + [LATEST] if not (has(s, 'P') and v not in vp)]
    fam['B'] = [scn(s, t, v=v, mode=m, auth='none')
                for s in s_b for t in TERMS for m in modes(s)
                for v in (vp if has(s, 'P') else vs)]
    fam['C'] = [scn(s, t, auth=a, mode=m)
                for s in s_c if has(s, 'E') for t in (ok, dis)
                for a in ('none', 'stub', 'real') for m in modes(s)]
    fam['D'] = [scn(s, t, listener=li, mode=m)
                for s in s_c if has(s, 'P') for t in (ok, dis)
                for li in ('answer', 'ignore') for m in ('wait', 'burst')]
    fam['D'] += [scn(s, ok, v=v, listener=li, mode=m, auth='none')
                 for s in s_2 if has(s, 'P') for v in vp
                 for li in ('none', 'answer', 'ignore')
                 for m in ('wait', 'burst')]
    fam['E'] = [scn(s, t, mode=m, delivery='lazy')
                for s in s_c for t in (ok, dis) for m in modes(s)]
    fam['E'] += [scn(s, t, v=v, mode=m, delivery='bytewise', auth='none')
                 for s in s_2 for t in (ok, dis) for m in modes(s)
                 for v in (47, 385, LATEST)
                 if not (has(s, 'P') and v == 47)]
    # T: frames of exactly T-1, T, T+1 bytes during login (as trailing
    # plugin requests; the play-state ones are part of every success run)
    fam['T'] = [scn(s + login_probes(s), ok, v=v, mode=m)
                for s in s_all if len(login_probes(s)) == 3
                for m in ('wait', 'burst') for v in va + [LATEST]]
    fam['T'] += [scn(s + login_probes(s), ok, v=v, mode=m, auth='none',
                     delivery=d)
                 for s in s_2 if len(login_probes(s)) == 3
                 for m in ('wait', 'burst') for v in vp
                 for d in ('eager', 'lazy')]
    # R: a second connect() on the same Connection object
    s_r = [s for s in s_2 if has(s, 'P')]
    fam['R'] = [scn(s, dis, v=v, mode=m, retry='after-disconnect')
                for s in [()] + s_r for m in modes(s)
                for v in (vp if s else vs)]
    fam['R'] += [scn(s, ok, v=v, mode=m, retry='after-user-disconnect')
                 for s in s_2 for m in modes(s)
                 for v in (vp if has(s, 'P') else vs)]
    # R2: two complete uses of the same object, both judged completely
    user_ends = [te for te in R2_ENDS if not te[1].endswith('handler')]
    rs2, rs1 = r2_scripts(2), r2_scripts(1)
    rs2p = [s for s in rs2 if has(s, 'P')]
    f2 = [scn2(s1, t, e, s2) for s1 in rs2 for s2 in rs2 for t, e in R2_ENDS]
    f2 += [scn2(s1, t, e, s2, listener='answer')
           for s1 in rs2p for s2 in rs2p
           for t, e in (R2_ENDS[0], R2_ENDS[6])]
    f2 += [scn2(s1, t, e, s2, mode='burst')
           for s1 in rs2p for s2 in rs2 for t, e in R2_ENDS[5:7]]
    f2 += [scn2(s1, t, e, s2, mode2='burst')
           for s1 in rs2 for s2 in rs2p for t, e in (R2_ENDS[0], R2_ENDS[3])]
    f2 += [scn2(s1, t, e, (), second='status')
           for s1 in rs2 for t, e in user_ends]
    for vv in vs:
        if vv == LATEST:
            continue
        rsv = rs2 if thorough else rs1
        if vv not in vp:
            rsv = [s for s in rsv if not has(s, 'P')]
        f2 += [scn2(s1, t, e, s2, v=vv)
               for s1 in rsv for s2 in rsv for t, e in R2_ENDS]
        f2 += [scn2(s1, t, e, (), v=vv, second='status')
               for s1 in rsv for t, e in user_ends]
    fam['R2'] = f2
    r = random.Random(seed)
    xt = r.choice([2, 3, 17, 63, 65, 100, 255, 257, 1000, 65536]) + \
        r.randrange(3) * 7
    xp = bytes(r.randrange(256) for _ in range(1 + r.randrange(40)))
    sx = [s for s in scripts(2, (xt, 64), (xp,))
          if any(st[0] == 'C' and st[1] == xt or st[0] == 'P' for st in s)]
    fam['S'] = [scn(s, ok, mode=m) for s in sx for m in modes(s)]
    return fam, {'versions': vs, 'extra_threshold': xt,
                 'extra_payload': xp.hex()}


# ---------------------------------------------------------------------------
# the reference server, with the bookkeeping C10 needs

class Srv(RefServer):
    """RefServer plus: the offset of every set-compression (the base class
    remembers only the last one; frames are in the compressed format from the
    FIRST one on), the 'consumed' tag of every client frame, and the window
    in which queued login plugin responses are still accepted after success
    (burst mode)."""

    def __init__(self, *a, **kw):
        self._cs = None
        self.switches = []          # (s2c offset, threshold)
        self.frame_tags = []        # aligned with self.frames
        self._spans = []            # (end offset in c2s plaintext, consumed)
        self._rx_total = 0
        self._prev_end = 0
        self.login_tail = True
        self.resp_end = None        # c2s offset where the enc. response ends
        RefServer.__init__(self, *a, **kw)

    @property
    def comp_switch(self):
        return self._cs

    @comp_switch.setter
    def comp_switch(self, off):
        if off is None:
            return
        self.switches.append((off, self.tx_comp))
        if self._cs is None:
            self._cs = off

    def on_sends(self, conn, entries):
        for e in entries:
            if not self.closed:
                self._rx_total += len(e[1])
                self._spans.append((self._rx_total, e[2]))
            RefServer.on_sends(self, conn, [e])

    def _handle(self, pid, payload):
        end = self._rx_total - len(self.pt)
        start, self._prev_end = self._prev_end, end
        tag = None
        for span_end, consumed in self._spans:
            if start < span_end:
                tag = consumed
                break
        self.frame_tags.append(tag)
        if self.state == 'play' and self.login_tail and self.has_plugin() \
                and pid == self.ids('sb.login.plugin_response', self.version):
            return self._login(pid, codec.Reader(payload))
        was_waiting = self.waiting
        RefServer._handle(self, pid, payload)
        if was_waiting == 'encrypt' and self.secret is not None \
                and self.resp_end is None:
            self.resp_end = end


class StubProfile(object):
    name = 'prof'


class StubToken(object):
    def __init__(self):
        self.profile = StubProfile()
        self.calls = []

    def join(self, server_id):
        self.calls.append(server_id)
        return True


class Resp(object):
    status_code = 204
    text = ''

    def json(self):
        raise ValueError('no body')


class RequestsShim(object):
    codes = {'ok': 200}

    def __init__(self):
        self.posts = []

    def post(self, url, data=None, headers=None, timeout=None, **kw):
        self.posts.append((url, data))
        return Resp()


def verify_token(seed):
    return hashlib.blake2b(b'c10 token %d' % seed, digest_size=4).digest()


def describe_rx(p):
    n = type(p).__name__
    g = lambda k: getattr(p, k, None)       # noqa: E731
    if n == 'EncryptionRequestPacket':
        return ('enc', g('server_id'), bytes(g('public_key') or b''),
                bytes(g('verify_token') or b''))
    if n == 'SetCompressionPacket':
        return ('comp', g('threshold'))
    if n == 'PluginRequestPacket':
        return ('plugin', g('message_id'), g('channel'),
                bytes(g('data') or b''))
    if n == 'LoginSuccessPacket':
        return ('success', str(g('UUID')).lower(), g('Username'))
    if n == 'DisconnectPacket':
        return ('disconnect', g('json_data'))
    if n == 'KeepAlivePacket':
        return ('keepalive', g('keep_alive_id'))
    try:
        pid = p.id
    except Exception:
        pid = None
    return ('packet', n, pid)


def body(W, sc, seed):
    script, term, v, mode, auth, listener, delivery, retry = sc
    C, mc, S = W.C, W.mc, W.S
    from minecraft.networking.packets import clientbound, serverbound
    token = verify_token(seed)
    login = []
    for st in script:
        if st[0] == 'E':
            login.append(('encrypt', st[1], token))
        elif st[0] == 'C':
            login.append(('compress', st[1]))
        else:
            login.append(('plugin', st[1], CHANNEL, st[2]))
    login.append(tuple(term))

    def factory(conn):
        if W.servers:       # a later TCP connection: the retry
            srv = Srv(conn, protoids.ids, W.rank, login=[('success',)],
                      play_script=[('keepalive', RETRY_KA)])
        else:
            srv = Srv(conn, protoids.ids, W.rank, login=login, mode=mode,
                      rsa=harness.rsa_key(),
                      play_script=play_events(script))
        W.servers.append(srv)
        return srv
    W.net.listen('srv', 25565, factory)

    excs, exits, log, states, answered = [], [], [], [], []
    tok = shim = None
    restore = None
    if auth == 'stub':
        tok = StubToken()
    elif auth == 'real':
        import minecraft.authentication as A
        tok = A.AuthenticationToken(username='user@example.org',
                                    access_token='at-123',
                                    client_token='ct-456')
        tok.profile = A.Profile(id_='0123456789abcdef0123456789abcdef',
                                name='prof')
        shim = RequestsShim()
        restore = (A, A.requests)
        A.requests = shim
    try:
        conn = W.connection(
            allowed_versions={v}, auth_token=tok,
            handle_exception=lambda e, i: excs.append((
                type(e).__name__, str(e), getattr(e, 'server_version', None),
                getattr(e, 'server_protocol', None))),
            handle_exit=lambda: exits.append(1))

        def abstract(pos):
            o = conn.options
            return (type(conn.reactor).__name__, bool(o.compression_enabled),
                    o.compression_threshold,
                    type(conn.socket).__name__ == 'EncryptedSocketWrapper',
                    tuple(sorted(answered)), pos)

        def see(p):
            states.append(abstract(len(log)))
            log.append(describe_rx(p))
        conn.register_packet_listener(see, C.packets.Packet, early=True)
        conn.register_packet_listener(
            lambda p: answered.append(p.message_id),
            serverbound.login.PluginResponsePacket, outgoing=True)
        if listener != 'none' and idx_ge(mc, v, 385):
            def takeover(p):
                if listener == 'answer':
                    conn.write_packet(serverbound.login.PluginResponsePacket(
                        message_id=p.message_id,
                        **answer_kw(p.message_id)))
                raise C.IgnorePacket()
            conn.register_packet_listener(
                takeover, clientbound.login.PluginRequestPacket, early=True)
        limit = 1 if delivery == 'bytewise' else None
        conn.connect()
        W.settle(limit)
        srv = W.servers[0]
        srv.login_tail = False
        chat_sent = False
        if type(conn.reactor).__name__ == 'PlayingReactor' and \
                conn.networking_thread is not None and not excs:
            conn.write_packet(serverbound.play.ChatPacket(message=CHAT))
            chat_sent = True
            W.settle(limit)
        states.append(abstract(len(log)))
        nt = conn.networking_thread
        ag = getattr(nt, '_vf_agent', None) if nt is not None else None
        vc = W.net.conns[0]
        frames = []
        for (st, pid, payload, fmt, was), tag in zip(srv.frames,
                                                     srv.frame_tags):
            thr = None
            for off, t in srv.switches:
                if tag is not None and tag >= off:
                    thr = t
            frames.append((st, pid, len(codec.varnum(pid)) + len(payload),
                           fmt, was, thr))
        o = {
            'errors': list(srv.errors), 'frames': frames,
            'play_rx': list(srv.play_rx),
            'replies': list(srv.plugin_replies),
            'token': token, 'token_back': srv.token_back,
            'secret': srv.secret, 'urandom': list(S.urandom_log),
            'enc_rx': srv.encrypted_rx_bytes,
            'after_resp': None if srv.resp_end is None
            else len(vc.c2s) - srv.resp_end,
            'joins': None if tok is None else
            list(tok.calls) if auth == 'stub' else
            [(u, json.loads(d).get('serverId')) for u, d in shim.posts],
            'log': list(log), 'states': list(states),
            'login_name': srv.login_name,
            'reactor': type(conn.reactor).__name__, 'excs': list(excs),
            'exits': len(exits), 'chat_sent': chat_sent,
            'thread': None if ag is None else (ag.state, ag.kind),
            'live': [repr(a) for a in S.live()],
            'agent_excs': [repr(a.exc) for a in S.agents
                           if a.exc is not None],
            'client_gone': bool(vc.client_gone),
            'steps_sent': srv.step_i, 'srv_state': srv.state,
            'waiting': srv.waiting,
            'conn_exception': type(conn.exception).__name__,
            'retry': None,
        }
        ready = (o['excs'] and not o['live']) \
            if retry == 'after-disconnect' else chat_sent
        if retry and ready:
            r = {}
            if retry == 'after-user-disconnect':
                n0 = len(vc.c2s)
                conn.write_packet(serverbound.play.ChatPacket(
                    message='stale'))
                conn.disconnect(immediate=True)
                W.settle(limit)
                r['sent_after_disconnect'] = len(vc.c2s) - n0
            n_exc, n_log, n1 = len(excs), len(log), len(vc.c2s)
            try:
                conn.connect()
                r['connect_raised'] = None
            except Exception as e:
                r['connect_raised'] = repr(e)
            W.settle(limit)
            s2 = W.servers[1] if len(W.servers) > 1 else None
            nt = conn.networking_thread
            ag = getattr(nt, '_vf_agent', None) if nt is not None else None
            r.update({
                'connections': len(W.servers),
                'errors': None if s2 is None else list(s2.errors),
                'handshake': None if s2 is None else s2.handshake,
                'login_name': None if s2 is None else s2.login_name,
                'frames': None if s2 is None else
                [(f[0], f[1]) for f in s2.frames],
                'play_rx': None if s2 is None else list(s2.play_rx),
                'srv_state': None if s2 is None else s2.state,
                'log': log[n_log:], 'excs': excs[n_exc:],
                'reactor': type(conn.reactor).__name__,
                'thread': None if ag is None else (ag.state, ag.kind),
                'options': (bool(conn.options.compression_enabled),
                            conn.options.compression_threshold),
                'old_conn_more': len(vc.c2s) - n1,
            })
            o['retry'] = r
        return o
    finally:
        if restore is not None:
            restore[0].requests = restore[1]


def idx_ge(mc, v, ref):
    i = mc.PROTOCOL_VERSION_INDICES
    return i[v] >= i[ref]


def login_steps(script, term, token):
    login = []
    for st in script:
        if st[0] == 'E':
            login.append(('encrypt', st[1], token))
        elif st[0] == 'C':
            login.append(('compress', st[1]))
        else:
            login.append(('plugin', st[1], CHANNEL, st[2]))
    login.append(tuple(term))
    return login


def server_frames(srv):
    """(state, id, uncompressed length, compressed format?, was compressed?,
    threshold in force) of every client frame the server decoded."""
    frames = []
    for (st, pid, payload, fmt, was), tag in zip(srv.frames, srv.frame_tags):
        thr = None
        for off, t in srv.switches:
            if tag is not None and tag >= off:
                thr = t
        frames.append((st, pid, len(codec.varnum(pid)) + len(payload), fmt,
                       was, thr))
    return frames


def body2(W, sc, seed):
    """Family R2: the same Connection object is used twice; both uses are
    recorded completely (one record per TCP connection)."""
    script, term, v, mode, auth, listener, delivery, retry = sc
    _tag, ending, script2, mode2, second = retry
    C, mc, S = W.C, W.mc, W.S
    from minecraft.networking.packets import clientbound, serverbound
    token = verify_token(seed)
    by_handler = ending.endswith('handler')

    def factory(conn):
        i = len(W.servers)
        if i == 0:
            srv = Srv(conn, protoids.ids, W.rank, mode=mode,
                      login=login_steps(script, term, token),
                      rsa=harness.rsa_key(), play_script=play_events(script))
        elif i == 1 and second == 'status':
            srv = Srv(conn, protoids.ids, W.rank,
                      status={'json': status_json(protocol=v, name='vf'),
                              'pong': True})
        else:
            srv = Srv(conn, protoids.ids, W.rank, mode=mode2,
                      login=login_steps(script2, ('success',), token),
                      rsa=harness.rsa_key(),
                      play_script=play_events(script2))
        W.servers.append(srv)
        return srv
    W.net.listen('srv', 25565, factory)

    excs, exits, log, states, answered = [], [], [], [], []
    status_got, ping_got = [], []
    tok = StubToken() if auth == 'stub' else None
    st = {'reconnected': False, 'mark': None, 'raised': None, 'c2s0': None}

    def lens():
        return (len(log), len(excs), len(exits), len(S.urandom_log),
                0 if tok is None else len(tok.calls), len(states))

    def again():
        """The second use of the object, from whoever starts it."""
        st['mark'] = lens()
        st['c2s0'] = len(W.net.conns[0].c2s)
        try:
            if second == 'status':
                conn.status(handle_status=status_got.append,
                            handle_ping=ping_got.append)
            else:
                conn.connect()
        except Exception as e:
            st['raised'] = repr(e)

    def on_exc(e, i):
        excs.append((type(e).__name__, str(e),
                     getattr(e, 'server_version', None),
                     getattr(e, 'server_protocol', None)))
        if by_handler and not st['reconnected']:
            st['reconnected'] = True
            again()

    conn = W.connection(allowed_versions={v}, auth_token=tok,
                        handle_exception=on_exc,
                        handle_exit=lambda: exits.append(1))

    def abstract(pos):
        o = conn.options
        return (type(conn.reactor).__name__, bool(o.compression_enabled),
                o.compression_threshold,
                type(conn.socket).__name__ == 'EncryptedSocketWrapper',
                tuple(sorted(answered)), pos, st['mark'] is not None)

    def see(p):
        states.append(abstract(len(log)))
        log.append(describe_rx(p))
    conn.register_packet_listener(see, C.packets.Packet, early=True)
    conn.register_packet_listener(
        lambda p: answered.append(p.message_id),
        serverbound.login.PluginResponsePacket, outgoing=True)
    if listener == 'answer' and idx_ge(mc, v, 385):
        def takeover(p):
            conn.write_packet(serverbound.login.PluginResponsePacket(
                message_id=p.message_id, **answer_kw(p.message_id)))
            raise C.IgnorePacket()
        conn.register_packet_listener(
            takeover, clientbound.login.PluginRequestPacket, early=True)

    def in_play(since):
        return type(conn.reactor).__name__ == 'PlayingReactor' and \
            conn.networking_thread is not None and not excs[since:]

    def collect(idx, lo, hi, chat_sent):
        if idx >= len(W.servers):
            return None
        srv, vc = W.servers[idx], W.net.conns[idx]
        nt = conn.networking_thread
        ag = getattr(nt, '_vf_agent', None) if nt is not None else None
        return {
            'errors': list(srv.errors), 'frames': server_frames(srv),
            'play_rx': list(srv.play_rx),
            'replies': list(srv.plugin_replies),
            'token': token, 'token_back': srv.token_back,
            'secret': srv.secret, 'urandom': S.urandom_log[lo[3]:hi[3]],
            'enc_rx': srv.encrypted_rx_bytes,
            'after_resp': None if srv.resp_end is None
            else len(vc.c2s) - srv.resp_end,
            'joins': None if tok is None else tok.calls[lo[4]:hi[4]],
            'log': log[lo[0]:hi[0]], 'states': states[lo[5]:hi[5]],
            'login_name': srv.login_name,
            'reactor': type(conn.reactor).__name__,
            'excs': excs[lo[1]:hi[1]], 'exits': len(exits[lo[2]:hi[2]]),
            'chat_sent': chat_sent,
            'thread': None if ag is None else (ag.state, ag.kind),
            'live': [repr(a) for a in S.live()],
            'agent_excs': [repr(a.exc) for a in S.agents
                           if a.exc is not None],
            'client_gone': bool(vc.client_gone),
            'steps_sent': srv.step_i, 'srv_state': srv.state,
            'waiting': srv.waiting,
            'conn_exception': type(conn.exception).__name__,
            'retry': None,
        }

    zero = (0, 0, 0, 0, 0, 0)
    conn.connect()
    W.settle()
    W.servers[0].login_tail = False
    o = None
    attempted = True
    if not (by_handler and term[0] != 'success'):
        # the first conversation is recorded when it is over, as in the
        # other families; then it is ended and the object used again
        chat1 = False
        if term[0] == 'success' and in_play(0):
            conn.write_packet(serverbound.play.ChatPacket(message=CHAT))
            chat1 = True
            W.settle()
        states.append(abstract(len(log)))
        o = collect(0, zero, lens(), chat1)
        srv = W.servers[0]
        if term[0] == 'success' and not chat1:
            attempted = False       # reported by the judge of the first
        elif term[0] == 'success':
            if ending == 'user':
                conn.disconnect()
            elif ending == 'kick':
                srv.play(('disconnect', BYE))
            elif ending in ('eof-user', 'eof-handler'):
                srv.play(('close',))
            else:
                srv.play(('rawbytes', GARBAGE))
            W.settle()
        if attempted and not by_handler:
            again()
            W.settle()
    mark = st['mark']
    if o is None:
        # the handler started the second use inside the first settle
        o = collect(0, zero, mark if mark is not None else lens(), False)
    o['second'] = None
    o['second_attempted'] = attempted
    o['second_started'] = mark is not None
    o['second_raised'] = st['raised']
    o['connections'] = len(W.servers)
    if mark is None:
        return o
    if len(W.servers) > 1:
        W.servers[1].login_tail = False
    if second == 'status':
        s2 = W.servers[1] if len(W.servers) > 1 else None
        o['second'] = None if s2 is None else {
            'errors': list(s2.errors), 'handshake': s2.handshake,
            'frames': [(f[0], f[1], f[3], f[4]) for f in s2.frames],
            'requests': s2.status_requests, 'pings': len(s2.pings),
            'status_got': list(status_got), 'ping_got': len(ping_got),
            'excs': excs[mark[1]:],
            'agent_excs': [repr(a.exc) for a in S.agents
                           if a.exc is not None],
            'states': []}
    else:
        chat2 = False
        if in_play(mark[1]) and len(W.servers) > 1:
            conn.write_packet(serverbound.play.ChatPacket(message=CHAT))
            chat2 = True
            W.settle()
        states.append(abstract(len(log)))
        o['second'] = collect(1, mark, lens(), chat2)
    o['old_conn_more'] = len(W.net.conns[0].c2s) - st['c2s0']
    return o


def run_one(sc, seed):
    useed = (seed * 7919 + h64(repr(sc))) & 0x3fffffff
    fn = body2 if isinstance(sc[7], tuple) else body
    return harness.run(lambda W: fn(W, sc, seed), horizon=400000,
                       hold=sc[6] != 'eager', send_after_close='ok',
                       seed=useed)


# ---------------------------------------------------------------------------
# oracle

OUTDATED_RE = re.compile(r"Outdated (?:client! Please use|server! I'm still "
                         r"on) (\S+)\Z")


def disconnect_text(msg):
    """The server's message as a person reads it: the 'text' member of a
    JSON object that has one, else the raw message."""
    try:
        d = json.loads(msg)
    except ValueError:
        return msg
    if isinstance(d, dict) and isinstance(d.get('text'), str):
        return d['text']
    return msg


def judge(sc, seed, x):
    """-> list of (check id, explanation)."""
    script, term, v, mode, auth, listener, delivery, retry = sc
    out = []
    b = lambda cid, what: out.append((cid, what))     # noqa: E731
    if x.failure is not None:
        b('hang', 'the client %s: %s' % x.failure)
        return out
    o = x.result
    if isinstance(retry, tuple):
        judge_two(sc, o, b)
        return out
    complete = judge_login((script, term, v, mode, auth, listener), o, b)
    if retry and complete:
        judge_retry(sc, o, b)
    return out


def judge_login(view, o, b, end_state=True):
    """One login conversation, from what collect()/body() recorded of it.
    end_state=False: the client had already gone on to its next connection
    when the record was taken, so only the conversation is judged."""
    script, term, v, mode, auth, listener = view
    der = harness.rsa_key()[1]
    stalled = listener == 'ignore' and mode == 'wait' and has(script, 'P')
    if stalled:
        k = [i for i, s in enumerate(script) if s[0] == 'P'][0]
        done = script[:k + 1]
    else:
        done = script
    success = not stalled and term[0] == 'success'
    disconnect = not stalled and term[0] == 'disconnect'
    closed = not stalled and term[0] == 'close'
    enc = [s for s in done if s[0] == 'E']
    plugins = [s for s in done if s[0] == 'P']

    if o['errors']:
        # the reference server stops decoding at the first error, so nothing
        # it recorded afterwards can be judged
        b('server-cannot-decode', 'the reference server could not accept '
          'what the client sent: %s (client: reactor %s, exceptions %r %r)'
          % ('; '.join(o['errors'][:3]), o['reactor'], o['excs'],
             o['agent_excs']))
        return False

    nsteps = len(done) + (0 if stalled else 1)
    if o['steps_sent'] < nsteps:
        b('login-stuck', 'the server has sent %d of its %d steps and is '
          'still waiting for the client\'s answer to step %d (waiting for: '
          '%r); client: reactor %s, thread %r, exceptions %r %r'
          % (o['steps_sent'], nsteps, o['steps_sent'], o['waiting'],
             o['reactor'], o['thread'], o['excs'], o['agent_excs']))
        return False

    # what the client's listeners saw = what the server sent, in order
    name = o['login_name']
    want = []
    for s in done:
        if s[0] == 'E':
            want.append(('enc', s[1], der, o['token']))
        elif s[0] == 'C':
            want.append(('comp', s[1]))
        else:
            want.append(('plugin', s[1], CHANNEL, s[2]))
    want_ka = []
    if success:
        want.append(('success', UUID, name))
        for ev in play_events(script):
            if ev[0] == 'keepalive':
                want.append(('keepalive', ev[1]))
                want_ka.append(ev[1])
            else:
                want.append(('packet', 'Packet', ev[1]))
    elif disconnect:
        want.append(('disconnect', term[1]))
    if o['log'] != want:
        n = 0
        while n < min(len(want), len(o['log'])) and want[n] == o['log'][n]:
            n += 1
        b('packets-misread', 'the client decoded the server\'s packets '
          'differently from what was sent: first difference at packet %d: '
          'sent %s, client saw %s (%d sent, %d seen)'
          % (n, _short(want[n:n + 1]), _short(o['log'][n:n + 1]),
             len(want), len(o['log'])))

    # encryption request
    if enc:
        sid = enc[0][1]
        if o['token_back'] != o['token'] or o['secret'] is None or \
                len(o['secret']) != 16:
            b('encryption-response', 'the encryption response does not '
              'carry the verify token and a 16-byte secret under the '
              'server key: token sent %s, decrypted %s, secret %s'
              % (o['token'].hex(), _hex(o['token_back']),
                 _hex(o['secret'])))
        elif o['urandom'] != [o['secret']]:
            b('secret-not-fresh', 'the shared secret is not exactly one '
              'fresh 16-byte draw from the OS: draws %s, secret %s'
              % ([u.hex() for u in o['urandom']], o['secret'].hex()))
        if o['secret'] is not None and o['after_resp'] and \
                not o['enc_rx'] and not disconnect and not closed:
            b('not-encrypted-after-response', '%d bytes followed the '
              'encryption response but the server deciphered none'
              % o['after_resp'])
        if tok_expected(auth):
            if sid != '-' and o['secret'] is not None:
                wj = [javahash.server_hash(sid, o['secret'], der)]
            else:
                wj = []
            got = o['joins'] if auth == 'stub' else \
                [j[1] for j in o['joins']]
            if got != wj:
                b('join', 'server id %r with a token: expected join calls '
                  '%r, got %r' % (sid, wj, got))
    elif tok_expected(auth) and o['joins']:
        b('join', 'no encryption request, but join was called: %r'
          % (o['joins'],))

    # compression: a compressed frame below the announced threshold is
    # rejected by a vanilla server
    for st, pid, size, fmt, was, thr in o['frames']:
        if was and (thr is None or size < thr or size == 0):
            b('compressed-below-threshold', 'a %s frame id 0x%02X of %d '
              'bytes was sent compressed while the threshold in force was '
              '%r' % (st, pid, size, thr))

    # plugin requests
    if listener == 'ignore':
        wr = []
    elif listener == 'answer':
        wr = [(s[1], True, answer_data(s[1])) for s in plugins]
    else:
        wr = [(s[1], False, None) for s in plugins]
    gr = sorted(o['replies'], key=repr)
    may_be_lost = (disconnect or closed) and mode == 'burst'
    if gr != sorted(wr, key=repr) and not (
            may_be_lost and _submultiset(gr, wr)):
        b('plugin-replies', 'plugin requests %r, user handler %s: expected '
          'responses %r, the server received %r'
          % ([s[1] for s in plugins], listener, wr, o['replies']))

    # end state
    if success:
        if o['reactor'] != 'PlayingReactor':
            b('not-in-play-state', 'after login success the reactor is %s'
              % o['reactor'])
        ka = [p[1] for p in o['play_rx'] if p[0] == 'keepalive']
        if ka != want_ka:
            b('keepalive-echo', 'keep-alives %r sent in the play state '
              '(each after a frame the client had to get through), echoed: '
              '%r' % (want_ka, ka))
        rest = [p for p in o['play_rx'] if p[0] != 'keepalive']
        if o['chat_sent'] and rest != [('chat', CHAT)] or \
                not o['chat_sent'] and rest:
            b('play-traffic', 'the server decoded unexpected play packets: '
              '%s (a %d-character chat was %s)'
              % (_short(rest), len(CHAT),
                 'written' if o['chat_sent'] else 'not written'))
        if o['thread'] != ('parked', 'idle-select'):
            b('thread-state', 'after login the networking thread should be '
              'alive and idle; it is %r' % (o['thread'],))
        if o['excs'] or o['agent_excs'] or o['exits']:
            b('unexpected-error', 'successful login, but exceptions %r / '
              'escaped %r / %d exit calls'
              % (o['excs'], o['agent_excs'], o['exits']))
        if o['client_gone']:
            b('client-closed', 'the client closed the connection after a '
              'successful login')
    elif disconnect:
        text = disconnect_text(term[1])
        m = OUTDATED_RE.match(text)
        if len(o['excs']) != 1:
            b('disconnect-not-reported', 'login disconnect %r: %d '
              'exceptions delivered to handle_exception (%r), %d exit '
              'calls, escaped: %r'
              % (term[1], len(o['excs']), o['excs'], o['exits'],
                 o['agent_excs']))
        else:
            tn, ts, sv, sp = o['excs'][0]
            if m:
                ver = m.group(1)
                if tn != 'VersionMismatch' or sv != ver or (
                        ver in KNOWN_NAMES and sp != KNOWN_NAMES[ver]):
                    b('version-mismatch', 'disconnect %r should surface as '
                      'VersionMismatch(server_version=%r%s); got %s(%r) '
                      'server_version=%r server_protocol=%r'
                      % (term[1], ver, ', server_protocol=%d'
                         % KNOWN_NAMES[ver] if ver in KNOWN_NAMES else '',
                         tn, ts, sv, sp))
            elif tn != 'LoginDisconnect' or text not in ts:
                b('login-disconnect', 'disconnect %r should surface as '
                  'LoginDisconnect carrying %r; got %s(%r)'
                  % (term[1], text, tn, ts))
        if end_state and (o['live'] or o['thread'] is not None):
            b('thread-alive', 'after a login disconnect the networking '
              'thread is still there: %r %r' % (o['live'], o['thread']))
        if end_state and not o['client_gone']:
            b('socket-open', 'after a login disconnect the client did not '
              'close its socket')
        if end_state and o['agent_excs']:
            b('escaped', 'an exception escaped the networking thread '
              'although handle_exception was given: %r' % o['agent_excs'])
    elif closed:
        pass    # the server hung up: how that surfaces is not C10's business
    else:       # the user's handler swallowed the request: login waits
        if o['reactor'] != 'LoginReactor' or o['excs'] or \
                o['agent_excs'] or o['exits'] or \
                o['thread'] != ('parked', 'idle-select'):
            b('stalled-state', 'a user handler took over a plugin request '
              'without answering; expected the login to wait quietly, got '
              'reactor %s thread %r exceptions %r %r'
              % (o['reactor'], o['thread'], o['excs'], o['agent_excs']))
    return True


def judge_two(sc, o, b):
    """Family R2: both uses of the object judged completely."""
    script, term, v, mode, auth, listener, delivery, retry = sc
    _tag, ending, script2, mode2, second = retry
    early = ending.endswith('handler') and term[0] != 'success'
    if not judge_login((script, term, v, mode, auth, listener), o, b,
                       end_state=not early):
        return
    how = 'the SECOND use (%s)' % (
        'status()' if second == 'status' else 'connect()')
    if not o['second_attempted']:
        b('second-not-attempted', 'the first login did not reach the play '
          'state (reactor %s, exceptions %r), so %s could not be tried'
          % (o['reactor'], o['excs'], how))
        return
    if not o['second_started']:
        b('second-not-started', '%s was never started: the handle_exception '
          'callback was not called (exceptions so far %r)'
          % (how, o['excs']))
        return
    sec = o['second']
    if o['second_raised'] or o['connections'] != 2 or sec is None:
        b('second-no-connection', '%s: raised %r, %d TCP connections in '
          'total' % (how, o['second_raised'], o['connections']))
        return
    if o['old_conn_more']:
        b('second-wrote-to-old-connection', '%s: %d more bytes were sent on '
          'the first connection' % (how, o['old_conn_more']))

    def b2(cid, what):
        b('second-' + cid, '%s: %s' % (how, what))
    if second == 'status':
        judge_status(v, sec, b2)
    else:
        judge_login((script2, ('success',), v, mode2, auth, listener), sec,
                    b2)


def judge_status(v, r, b):
    """A status query as the second use: the server must be able to decode
    it (plain framing: a new connection has no compression and no cipher)
    and the client must deliver the answers."""
    if r['errors']:
        b('server-cannot-decode', 'the reference server could not accept '
          'what the client sent: %s; frames %r'
          % ('; '.join(r['errors'][:3]), r['frames'][:4]))
        return
    hs = r['handshake']
    if hs is None or hs['protocol'] != v or hs['next'] != 1:
        b('handshake', 'expected a handshake for protocol %d/status, the '
          'server got %r' % (v, hs))
    want = [('handshake', 0, False, False), ('status', 0, False, False),
            ('status', 1, False, False)]
    if r['frames'] != want or r['requests'] != 1 or r['pings'] != 1:
        b('conversation', 'expected handshake, status request, ping in the '
          'plain format; the server got %r (%d requests, %d pings)'
          % (r['frames'][:6], r['requests'], r['pings']))
    if len(r['status_got']) != 1 or r['ping_got'] != 1 or \
            not isinstance(r['status_got'][0], dict) or \
            r['status_got'][0].get('version', {}).get('protocol') != v:
        b('answers-not-delivered', 'the server answered the request and the '
          'ping; handle_status got %s, handle_ping %d calls'
          % (_short(r['status_got']), r['ping_got']))
    if r['excs'] or r['agent_excs']:
        b('unexpected-error', 'exceptions %r / escaped %r'
          % (r['excs'], r['agent_excs']))


def judge_retry(sc, o, b):
    """A second connect() on the same Connection object must start a clean
    conversation: handshake first, nothing left over from the first one."""
    script, term, v, mode, auth, listener, delivery, retry = sc
    r = o['retry']
    if r is None:
        return          # the first conversation did not get there: reported
    name = 'vfuser' if auth == 'none' else 'prof'
    if r.get('sent_after_disconnect'):
        b('retry-immediate-disconnect-wrote', 'disconnect(immediate=True) '
          'with a packet queued: %d more bytes were sent on the old '
          'connection' % r['sent_after_disconnect'])
    if r['old_conn_more']:
        b('retry-wrote-to-old-connection', 'second connect(): %d more bytes '
          'were sent on the first connection' % r['old_conn_more'])
    if r['connect_raised'] or r['connections'] != 2:
        b('retry-no-connection', 'second connect() on the same Connection: '
          'raised %r, %d TCP connections in total'
          % (r['connect_raised'], r['connections']))
        return
    if r['errors']:
        b('retry-server-cannot-decode', 'second connect() on the same '
          'Connection: the new server could not accept what the client '
          'sent: %s; frames %r' % ('; '.join(r['errors'][:3]),
                                   r['frames'][:4]))
        return
    hs = r['handshake']
    if not r['frames'] or r['frames'][0][0] != 'handshake' or hs is None \
            or hs['protocol'] != v or hs['next'] != 2 or \
            r['login_name'] != name:
        b('retry-handshake', 'second connect(): expected a handshake for '
          'protocol %d/login and login start %r first; the server got '
          'handshake %r, name %r, frames %r'
          % (v, name, hs, r['login_name'], r['frames'][:4]))
    if len(r['frames']) != 3 or r['play_rx'] != [('keepalive', RETRY_KA)]:
        b('retry-leftovers', 'second connect(): expected exactly handshake, '
          'login start and the echo of keep-alive %d on the new connection; '
          'the server got frames %r, play packets %s'
          % (RETRY_KA, r['frames'][:6], _short(r['play_rx'])))
    if r['log'] != [('success', UUID, name), ('keepalive', RETRY_KA)]:
        b('retry-packets-misread', 'second connect(): the server sent login '
          'success and keep-alive %d; the client saw %s'
          % (RETRY_KA, _short(r['log'])))
    if r['reactor'] != 'PlayingReactor' or \
            r['thread'] != ('parked', 'idle-select') or r['excs']:
        b('retry-end-state', 'second connect(): expected the play state, an '
          'idle networking thread and no error; got reactor %s, thread %r, '
          'exceptions %r' % (r['reactor'], r['thread'], r['excs']))


def tok_expected(auth):
    return auth in ('stub', 'real')


def _submultiset(got, want):
    want = list(want)
    for g in got:
        if g in want:
            want.remove(g)
        else:
            return False
    return True


def _hex(b):
    return None if b is None else bytes(b).hex()


def _short(x):
    s = repr(x)
    return s if len(s) <= 300 else s[:300] + '...'


# ---------------------------------------------------------------------------

def check_one(ctx, sc):
    script, term, v, mode, auth, listener, delivery, retry = sc
    x = run_one(sc, ctx.seed)
    ctx.count()
    ctx.traces += 1
    found = judge(sc, ctx.seed, x)
    if x.failure is None:
        o = x.result
        ctx.transitions += len(o['log'])
        for st in o['states']:
            ctx.state(st)
        end = ('stalled' if o['reactor'] == 'LoginReactor' and not o['excs']
               else o['excs'][0][0] if o['excs'] else o['reactor'])
        ctx.outcome('%s -> %s' % (term[0], end))
        for st, pid, size, fmt, was, thr in o['frames']:
            if fmt:
                ctx.cls('client frame compressed' if was else
                        'client frame in compressed format, not compressed')
        if o['secret'] is not None:
            ctx.cls('encrypted logins')
            if o['enc_rx']:
                ctx.cls('encrypted logins with later client bytes')
        for j in (o['joins'] or []):
            hx = j if isinstance(j, str) else j[1]
            ctx.cls('join digest negative' if hx.startswith('-')
                    else 'join digest short' if len(hx) < 40
                    else 'join digest plain')
        for r in o['replies']:
            ctx.cls('plugin reply %s' % ('successful' if r[1]
                                         else 'unsuccessful'))
        if o['chat_sent']:
            ctx.cls('play state proven by traffic')
            for n in probe_targets(script):
                t = final_threshold(script)
                ctx.cls('server play frame of threshold%+d bytes' % (n - t))
        if o['retry'] is not None:
            ctx.cls('second connect() on the same object, %s' % retry)
            ctx.outcome('retry -> %s' % o['retry']['reactor'])
        sec = o.get('second')
        if sec is not None:
            r2 = retry
            for st in sec['states']:
                ctx.state(st)
            ctx.cls('R2 first use ends: %s / %s' % (term[0], r2[1]))
            ctx.cls('R2 second use: %s' % r2[4])
            if r2[4] == 'status':
                ctx.outcome('second use status -> %d answers'
                            % len(sec['status_got']))
            else:
                ctx.transitions += len(sec['log'])
                ctx.outcome('second login -> %s' % (
                    sec['excs'][0][0] if sec['excs'] else sec['reactor']))
                k1 = set(s[0] for s in script)
                k2 = set(s[0] for s in r2[2])
                for k, nm in (('E', 'encryption'), ('C', 'compression'),
                              ('P', 'plugin request')):
                    ctx.cls('R2 %s in %s' % (nm, 'both logins' if k in k1
                                             and k in k2 else
                                             'the first login only'
                                             if k in k1 else
                                             'the second login only'
                                             if k in k2 else 'neither'))
                p1 = set(s[1] for s in script if s[0] == 'P')
                p2 = set(s[1] for s in r2[2] if s[0] == 'P')
                if p1 & p2:
                    ctx.cls('R2 same plugin message id in both logins')
                if p1 and p2 and p1 != p2:
                    ctx.cls('R2 different plugin message ids in the logins')
                t1, t2 = final_threshold(script), final_threshold(r2[2])
                if t1 is not None and t2 is not None and t1 != t2:
                    ctx.cls('R2 different thresholds in the two logins')
                for fr in sec['frames']:
                    if fr[3]:
                        ctx.cls('R2 second login: client frame in '
                                'compressed format')
                if sec['secret'] is not None:
                    ctx.cls('R2 second login encrypted')
                if sec['chat_sent']:
                    ctx.cls('R2 second login: play state proven by traffic')
        if script and script[-1][0] == 'P' and \
                script[-1][1] in PROBE_MIDS:
            ctx.cls('login plugin requests of threshold-1/0/+1 bytes')
    else:
        ctx.outcome('%s -> %s' % (term[0], x.failure[0]))
    ctx.cls('delivery %s' % delivery)
    ctx.cls('auth %s' % auth)
    ctx.cls('handler %s' % listener)
    ctx.cls('mode %s' % mode)
    ctx.cls('version %d' % v)
    ctx.cls('script length %d' % len(script))
    if isinstance(retry, tuple):
        rkey = ' then=%s/%s%s' % (
            retry[1], 'status' if retry[4] == 'status' else kinds(retry[2]),
            ' burst2' if retry[3] == 'burst' else '')
        rtext = ('; SECOND use of the same object: %s, server script %s '
                 'then success, %s mode (%s)'
                 % (retry[4], show(retry[2]), retry[3],
                    ENDING_TEXT[retry[1]])
                 if retry[4] != 'status' else
                 '; SECOND use of the same object: status() (%s)'
                 % ENDING_TEXT[retry[1]])
    else:
        rkey = ' retry=' + retry if retry else ''
        rtext = ', then connect() again %s' % retry if retry else ''
    for cid, what in found:
        key = '%s script=%s term=%s%s%s%s%s' % (
            cid, kinds(script), term[0],
            '' if listener == 'none' else ' handler=' + listener,
            '' if delivery == 'eager' else ' ' + delivery,
            ' burst' if mode == 'burst' else '', rkey)
        ctx.violation(
            key,
            'server script %s then %s, protocol %d, %s mode, auth %s, user '
            'handler %s, %s delivery%s: %s'
            % (show(script), term, v, mode, auth, listener, delivery,
               rtext, what),
            case_of(sc))
    return found


def show(script):
    return '[' + ', '.join(
        'encrypt(%r)' % s[1] if s[0] == 'E' else
        'compress(%d)' % s[1] if s[0] == 'C' else
        'plugin(%d, %s)' % (s[1], (s[2].hex() or '-') if len(s[2]) <= 8
                            else '%d bytes' % len(s[2]))
        for s in script) + ']'


def case_of(sc):
    script, term, v, mode, auth, listener, delivery, retry = sc
    if isinstance(retry, tuple):
        retry = [retry[0], retry[1], [list(s) for s in retry[2]], retry[3],
                 retry[4]]
    return {'script': [list(s) for s in script], 'term': list(term),
            'v': v, 'mode': mode, 'auth': auth, 'listener': listener,
            'delivery': delivery, 'retry': retry}


def sc_of(case):
    retry = case.get('retry', '')
    if isinstance(retry, (list, tuple)):
        retry = (retry[0], retry[1], tuple(tuple(s) for s in retry[2]),
                 retry[3], retry[4])
    return scn([tuple(s) for s in case['script']], tuple(case['term']),
               case['v'], case['mode'], case['auth'], case['listener'],
               case['delivery'], retry)


def w_chunk(ctx, chunk):
    for sc in chunk:
        check_one(ctx, sc)


def cost(sc):
    return 40 if sc[6] == 'bytewise' else 1


def run(ctx):
    from vf.runner import use_repo
    mc = use_repo()
    fam, info = families(ctx.tier, ctx.seed, mc)
    seen = set()
    allsc = []
    for name in sorted(fam):
        ctx.extra['family_%s' % name] = len(fam[name])
        for sc in fam[name]:
            if sc not in seen:
                seen.add(sc)
                allsc.append(sc)
    allsc.sort(key=repr)
    random.Random(ctx.seed).shuffle(allsc)
    ctx.extra.update(info)
    ctx.extra['scripts_enumerated'] = len({sc[0] for sc in allsc})
    ctx.note_distinct(sum(1 for sc in allsc if sc[0] or
                          isinstance(sc[7], tuple) and sc[7][2]))
    chunks, cur, w = [], [], 0
    for sc in allsc:
        cur.append(sc)
        w += cost(sc)
        if w >= 120:
            chunks.append(cur)
            cur, w = [], 0
    if cur:
        chunks.append(cur)
    ctx.pmap(w_chunk, chunks)
    if not ctx.violations:
        for label in ('R2 same plugin message id in both logins',
                      'R2 different plugin message ids in the logins',
                      'R2 compression in the first login only',
                      'R2 compression in the second login only',
                      'R2 different thresholds in the two logins',
                      'R2 encryption in both logins',
                      'R2 first use ends: success / eof-handler',
                      'R2 first use ends: close / handler',
                      'R2 second use: status',
                      'R2 second login: play state proven by traffic'):
            if not ctx.classes.get(label):
                raise ToolError('vacuous: no execution of class %r' % label)
    for sc in (scn([('E', 'srv1'), ('C', 64), ('P', 300, b'\x01\x02')],
                   ('success',), mode='burst'),
               scn([('C', 0), ('E', '-')], ('disconnect', DISCONNECTS[5]),
                   v=385, auth='none')):
        ctx.sample(case_of(sc))


def replay(ctx, case):
    from vf.runner import use_repo
    use_repo()
    check_one(ctx, sc_of(case))
